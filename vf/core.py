"""Verdict protocol shared by all checks: obligations, ledger, known findings,
replay files, evidence, exit codes (DESIGN.md section 6).

Exit codes: 0 property held on every obligation; 1 violation (VIOLATION line
printed); 2 undecided (solver unknown / outside subset); 3 checker crash or
missing obligations.
"""
from __future__ import annotations

import fnmatch
import json
import os
import re
import subprocess
import sys
import time
import traceback

VERIF = os.path.dirname(os.path.dirname(os.path.abspath(__file__)))
REPO = os.environ.get("MICI_REPO", "/repo")
SRC = os.path.join(REPO, "src")
NATIVE_PY = os.environ.get("MICI_NATIVE_PY", "/venv/bin/python")
# where evidence/ and replays/generated/ are written; only the seed runner (tools/run_seeds.py) overrides it so that
# parallel runs against scratch copies of the repository do not overwrite the committed evidence of /repo itself
OUT = os.environ.get("MICI_VERIF_OUT", VERIF)

DISCHARGED, FAILED, UNKNOWN, ERROR = "discharged", "failed", "unknown", "error"


class Ob:
    """One proof obligation (possibly aggregated over several paths)."""

    def __init__(self, oid, status, backend, seconds=0.0, detail="", witness=None,
                 klass="exact", replay=None, text=None):
        self.id = oid
        self.status = status
        self.backend = backend
        self.seconds = seconds
        self.detail = detail
        self.witness = witness  # dict of concrete values (solver model / numeric witness)
        self.klass = klass  # exact | bounded
        self.replay = replay  # None or dict(script=<path under /verif/replays>, args=[...]) or callable(witness)->dict
        self.text = text  # printable form of the obligation (sample for evidence)

    def as_dict(self):
        d = {"id": self.id, "status": self.status, "backend": self.backend,
             "class": self.klass, "seconds": round(self.seconds, 4)}
        if self.detail:
            d["detail"] = self.detail[:2000]
        if self.witness is not None:
            d["witness"] = _jsonable(self.witness)
        return d


def _jsonable(x):
    try:
        json.dumps(x)
        return x
    except TypeError:
        if isinstance(x, dict):
            return {str(k): _jsonable(v) for k, v in x.items()}
        if isinstance(x, (list, tuple)):
            return [_jsonable(v) for v in x]
        return repr(x)


def load_known_findings():
    path = os.path.join(VERIF, "KNOWN_FINDINGS.txt")
    findings, fixed = [], []
    if not os.path.exists(path):
        return findings, fixed
    for line in open(path):
        line = line.strip()
        if not line or line.startswith("#"):
            continue
        if line.startswith("finding:"):
            m = re.match(r"finding:\s+property=(\S+)\s+obligation=(\S+)\s+witness=(.*?)\s+--\s+(.*)$", line)
            if m:
                findings.append({"property": m.group(1), "obligation": m.group(2),
                                 "witness": m.group(3), "text": m.group(4)})
        elif line.startswith("fixed:"):
            fixed.append(line)
    return findings, fixed


class Run:
    def __init__(self, prop, tier="quick", seed=0):
        self.prop = prop
        self.tier = tier
        self.seed = seed
        self.t0 = time.time()
        self.obs = {}
        self.functions = []  # functions under contract
        self.trusted = []  # trusted base entries
        self.assumptions = []
        self.bounded = []  # descriptions of bounded checks
        self.notes = []
        self.extraction_drops = []
        self.samples = []
        self.crashed = None
        self.replays = []  # (obligation-id prefix, fn(witness)->replay spec) defaults

    # -- recording -------------------------------------------------------------
    def ob(self, oid, status, backend, seconds=0.0, detail="", witness=None,
           klass="exact", replay=None, text=None):
        """Record an obligation; several records under one id aggregate (worst wins)."""
        oid = f"{self.prop}/{oid}" if not oid.startswith(self.prop + "/") else oid
        new = Ob(oid, status, backend, seconds, detail, witness, klass, replay, text)
        old = self.obs.get(oid)
        if old is None:
            self.obs[oid] = new
            return new
        rank = {DISCHARGED: 0, UNKNOWN: 1, ERROR: 2, FAILED: 3}
        old.seconds += seconds
        if rank[new.status] > rank[old.status]:
            new.seconds = old.seconds
            if new.text is None:
                new.text = old.text
            self.obs[oid] = new
        elif old.backend != backend and backend not in old.backend.split("+"):
            old.backend = old.backend + "+" + backend
        return self.obs[oid]

    def function(self, name):
        if name not in self.functions:
            self.functions.append(name)

    def trust(self, text):
        if text not in self.trusted:
            self.trusted.append(text)

    def assume(self, text):
        if text not in self.assumptions:
            self.assumptions.append(text)

    def replay_for(self, prefix, fn):
        self.replays.append((prefix, fn))

    # -- finishing ---------------------------------------------------------------
    def _ledger_path(self):
        return os.path.join(VERIF, "ledger", f"{self.prop}.json")

    def relock(self):
        os.makedirs(os.path.join(VERIF, "ledger"), exist_ok=True)
        led = {o.id: {"class": o.klass, "status": o.status, "backend": o.backend}
               for o in self.obs.values()}
        with open(self._ledger_path(), "w") as f:
            json.dump(led, f, indent=1, sort_keys=True)
        print(f"relocked {len(led)} obligations -> {self._ledger_path()}")

    def _write_replay(self, ob, reproduced, native_out, script_path=None, args=None):
        os.makedirs(os.path.join(OUT, "replays", "generated"), exist_ok=True)
        safe = re.sub(r"[^A-Za-z0-9_.-]+", "_", ob.id)
        path = os.path.join(OUT, "replays", "generated", safe + ".json")
        rec = {"property": self.prop, "failed_obligation": ob.id, "backend": ob.backend,
               "verifier_output": ob.detail, "witness": _jsonable(ob.witness),
               "native_replay": {"script": script_path, "args": args,
                                 "reproduced": reproduced, "output": native_out[-4000:] if native_out else None},
               "how_to_replay": (f"{NATIVE_PY} {script_path} " + " ".join(map(str, args or [])))
               if script_path else "no native replay for this obligation; re-run the check"}
        with open(path, "w") as f:
            json.dump(rec, f, indent=1)
        return path

    def _obligation_list(self, obs, limit=2500):
        """every obligation of the run with status, back end and solver time; a run with more than `limit` obligations
        lists them grouped by subject (the id up to its first "]" or second "/"), with the per-status / per-back-end
        counts of the group, and writes the full flat list next to the evidence file as evidence_detail/<id>.tsv"""
        if len(obs) <= limit:
            return [o.as_dict() for o in obs]
        groups = {}
        for o in obs:
            i = o.id.find("]")
            key = o.id[:i + 1] if i >= 0 else "/".join(o.id.split("/")[:2])
            g = groups.setdefault(key, {"subject": key, "n": 0, "status": {}, "backend": {}, "class": {}, "seconds": 0.0,
                                        "first": o.id[len(key):], "last": ""})
            g["n"] += 1
            g["status"][o.status] = g["status"].get(o.status, 0) + 1
            g["backend"][o.backend] = g["backend"].get(o.backend, 0) + 1
            g["class"][o.klass] = g["class"].get(o.klass, 0) + 1
            g["seconds"] = round(g["seconds"] + o.seconds, 4)
            g["last"] = o.id[len(key):]
        os.makedirs(os.path.join(OUT, "evidence_detail"), exist_ok=True)
        with open(os.path.join(OUT, "evidence_detail", f"{self.prop}.tsv"), "w") as f:
            f.write("id\tstatus\tbackend\tclass\tseconds\n")
            for o in obs:
                f.write(f"{o.id}\t{o.status}\t{o.backend}\t{o.klass}\t{o.seconds:.4f}\n")
        return [{"grouped": True, "groups": len(groups), "obligations": len(obs),
                 "full_list": f"evidence_detail/{self.prop}.tsv (rewritten by this run; the ids are also the ledger ledger/{self.prop}.json)"}] \
            + list(groups.values())

    def _native_replay(self, ob):
        """Run the obligation's native replay (if any). Returns (reproduced, output, script, args)."""
        rp = ob.replay
        if rp is None:
            for pref, fn in sorted(self.replays, key=lambda t: -len(t[0])):
                if ob.id.startswith(pref) or ob.id.startswith(self.prop + "/" + pref):
                    rp = fn
                    break
        if callable(rp):
            try:
                rp = rp(ob.witness)
            except Exception:
                return False, "replay builder crashed:\n" + traceback.format_exc(), None, None
        if not rp:
            return False, "", None, None
        script = os.path.join(VERIF, "replays", rp["script"])
        args = [str(a) for a in rp.get("args", [])]
        cache = self.__dict__.setdefault("_replay_cache", {})
        ck = (script, tuple(args))
        if ck in cache:
            return cache[ck] + (script, args)
        env = dict(os.environ)
        env["PYTHONPATH"] = SRC
        try:
            p = subprocess.run([NATIVE_PY, script] + args, capture_output=True, text=True,
                               timeout=rp.get("timeout", 300), env=env)
            out = p.stdout + p.stderr
            cache[ck] = ((p.returncode == 1 and "REPRODUCED" in p.stdout), out)
            return cache[ck] + (script, args)
        except subprocess.TimeoutExpired:
            return False, "native replay timed out", script, args

    def finish(self, relock=False):
        wall = time.time() - self.t0
        if relock:
            self.relock()
        findings, _fixed = load_known_findings()
        findings = [f for f in findings if f["property"] == self.prop]
        obs = list(self.obs.values())
        exact = [o for o in obs if o.klass == "exact"]
        bounded = [o for o in obs if o.klass == "bounded"]
        violations, known, undecided, errors = [], [], [], []
        for o in obs:
            if o.status == FAILED:
                kf = [f for f in findings if fnmatch.fnmatch(o.id, f["obligation"])]
                if kf:
                    known.append((o, kf[0]))
                else:
                    violations.append(o)
            elif o.status == UNKNOWN:
                undecided.append(o)
            elif o.status == ERROR:
                errors.append(o)
        # ledger comparison: missing obligations are a checker failure, not a pass
        missing = []
        if os.path.exists(self._ledger_path()):
            led = json.load(open(self._ledger_path()))
            missing = [k for k in led if k not in self.obs]
        lines = []
        for o, f in known:
            lines.append(f"KNOWN-FINDING: property={self.prop} {o.id}: {f['text']} [witness {f['witness']}]")
        vio_records = []
        for o in violations:
            reproduced, out, script, args = self._native_replay(o)
            path = self._write_replay(o, reproduced, out, script, args)
            suffix = "" if reproduced else " no-failing-input-found"
            lines.append(f"VIOLATION property={self.prop} replay={path}{suffix}")
            lines.append(f"  failed obligation: {o.id} [{o.backend}] {o.detail[:300]}")
            vio_records.append({"obligation": o.id, "replay": path, "reproduced": reproduced})
        for o in undecided:
            lines.append(f"UNDECIDED {o.id} [{o.backend}] {o.detail[:200]}")
        for o in errors:
            lines.append(f"CHECKER-ERROR {o.id} [{o.backend}] {o.detail[:400]}")
        for m in missing:
            lines.append(f"MISSING-OBLIGATION {m} (in ledger, not generated by this run)")
        if self.crashed:
            lines.append("CHECKER-CRASH " + self.crashed[-1500:])
        n_disc = sum(1 for o in exact if o.status == DISCHARGED)
        n_known_exact = sum(1 for o, _ in known if o.klass == "exact")
        by_backend = {}
        secs = 0.0
        for o in obs:
            by_backend[o.backend] = by_backend.get(o.backend, 0) + 1
            secs += o.seconds
        samples = [o.text or o.id for o in exact[:3]] + [o.text or o.id for o in exact[-2:]]
        coverage = {
            "obligations": len(exact) - n_known_exact,  # known findings are listed separately below
            "discharged": n_disc,
            "known_findings_failing": n_known_exact,
            "checker_cmd": f"cd /verif && ./check {self.prop} --tier {self.tier}",
            "trusted_base": self.trusted,
            "functions_under_contract": self.functions,
            "by_backend": by_backend,
            "solver_seconds": round(secs, 3),
            "bounded_checks": [{"id": o.id, "status": o.status, "backend": o.backend, "detail": o.detail[:300]}
                               for o in bounded] + self.bounded,
            "extraction_drops": self.extraction_drops,
            "samples": samples + self.samples[:3],
            "obligation_list": self._obligation_list(obs),
            "notes": self.notes,
            # generic counters (also accepted by the schema)
            "evaluations": max(1, len(obs)),
            "distinct_nontrivial": max(2, len({o.id for o in obs})),
            "rule": "one evaluation = one named proof obligation generated from /repo's current source; "
                    "distinct by obligation id; all are non-trivial (canaries and covers are not counted)",
        }
        ev = {"property_id": self.prop, "tier": self.tier, "seed": int(self.seed), "level": "proof",
              "coverage": coverage, "assumptions": self.assumptions, "wall_s": round(wall, 3),
              "violations": len(violations), "known_findings": [o.id for o, _ in known],
              "violation_records": vio_records}
        os.makedirs(os.path.join(OUT, "evidence"), exist_ok=True)
        with open(os.path.join(OUT, "evidence", f"{self.prop}.json"), "w") as f:
            json.dump(ev, f, indent=1)
        if os.path.getsize(os.path.join(OUT, "evidence", f"{self.prop}.json")) > 3_000_000:
            print(f"CHECKER-ERROR evidence/{self.prop}.json is larger than 3 MB (readers truncate at 5 MB)")
            return 3
        for ln in lines:
            print(ln)
        print(f"[{self.prop}] obligations={len(exact)} discharged={n_disc} known-findings={len(known)} "
              f"violations={len(violations)} undecided={len(undecided)} errors={len(errors)} "
              f"missing={len(missing)} bounded={len(bounded)} wall={wall:.1f}s")
        if violations:
            return 1
        if self.crashed or errors or missing or not obs:
            return 3
        if undecided:
            return 2
        return 0
