"""Abstract arrays for Engine A: vectors as symbolic linear combinations of *words*.

A word is a tuple of linear-operator symbols applied to a vector atom, e.g.
("Minv", "JT", "lam")  ==  M^-1 J^T lam.  A LinVec maps words to real coefficients
(python numbers or z3 Reals).  Equality of two LinVecs is proved coefficient-wise, which
is *sufficient* for equality in every vector space of every dimension (sound for proving
equalities; never used to prove disequalities).  Non-linear functions of vectors
(gradients, constraint functions, norms) are uninterpreted: applying `f` to a LinVec
creates a fresh atom keyed by (f, canonical argument), so equal arguments give equal
results (functionality) and nothing else is assumed.

LinVec objects are *mutable with identity* like numpy arrays: in-place operators
(-=, +=, *=) mutate the object, so aliasing bugs (a missing .copy()) are modelled.
"""
from __future__ import annotations

import z3

from .pyvc import Native, OutsideSubset, PyRaise, is_z3, lift, make_exc, to_real


def _simp(c):
    if is_z3(c):
        c = z3.simplify(c)
        if z3.is_rational_value(c):
            f = c.as_fraction()
            return int(f) if f.denominator == 1 else f
    return c


def _is_zero(c):
    c = _simp(c)
    return (not is_z3(c)) and c == 0


def _key(c):
    c = _simp(c)
    return c.sexpr() if is_z3(c) else repr(c)


class LinOp:
    """Symbolic linear operator (a word of operator symbols with a scalar coefficient)."""

    def __init__(self, space, word, coeff=1):
        self.space = space
        self.word = tuple(word)
        self.coeff = coeff

    # operator application / composition
    def _pv_binop(self, ex, op, other):
        if op == "__matmul__":
            if isinstance(other, LinVec):
                return other.apply(self)
            if isinstance(other, LinOp):
                return LinOp(self.space, self.space.reduce(self.word + other.word), self.coeff * other.coeff)
            return NotImplemented
        if op == "__rmatmul__":
            if isinstance(other, LinVec):  # v @ A == A^T v
                return other.apply(self.T)
            return NotImplemented
        if op in ("__mul__", "__rmul__") and not isinstance(other, (LinVec, LinOp)):
            return LinOp(self.space, self.word, self.coeff * _num(other))
        if op == "__truediv__" and not isinstance(other, (LinVec, LinOp)):
            return LinOp(self.space, self.word, self.coeff / to_real(other))
        return NotImplemented

    @property
    def T(self):
        return LinOp(self.space, self.space.reduce(tuple(self.space.transpose(s) for s in reversed(self.word))), self.coeff)

    @property
    def inv(self):
        return LinOp(self.space, self.space.reduce(tuple(self.space.inverse(s) for s in reversed(self.word))), 1 / to_real(self.coeff) if is_z3(self.coeff) or self.coeff != 1 else 1)

    def _pv_getattr(self, ex, name):
        if name == "T":
            return self.T
        if name == "inv":
            return self.inv
        if name == "shape":
            return (self.space.dim, self.space.dim)
        raise OutsideSubset(f"LinOp.{name}")

    def __neg__(self):
        return LinOp(self.space, self.word, -self.coeff)

    def __repr__(self):
        return f"<LinOp {self.coeff}*{'.'.join(self.word)}>"


def _num(x):
    if isinstance(x, bool):
        return int(x)
    return x


class Space:
    """Registry of operator symbols with transpose / inverse relations."""

    def __init__(self, ctx):
        self.ctx = ctx
        self.tr = {}
        self.iv = {}
        self.fresh_id = 0
        self.dim = z3.Int("dim")
        self.fn_cache = {}

    def op(self, name, symmetric=False, invertible=False):
        if symmetric:
            self.tr[name] = name
        else:
            self.tr[name] = name + "^T"
            self.tr[name + "^T"] = name
        if invertible:
            self.iv[name] = name + "^-1"
            self.iv[name + "^-1"] = name
            if symmetric:
                self.tr[name + "^-1"] = name + "^-1"
            else:
                self.tr[name + "^-1"] = name + "^-T"
                self.tr[name + "^-T"] = name + "^-1"
                self.iv[name + "^T"] = name + "^-T"
                self.iv[name + "^-T"] = name + "^T"
        return LinOp(self, (name,))

    def transpose(self, s):
        if s not in self.tr:
            raise OutsideSubset(f"transpose of {s}")
        return self.tr[s]

    def inverse(self, s):
        if s not in self.iv:
            raise OutsideSubset(f"inverse of non-invertible operator {s}")
        return self.iv[s]

    def reduce(self, word):
        out = []
        for s in word:
            if s == "I":
                continue
            if out and self.iv.get(out[-1]) == s:
                out.pop()
            else:
                out.append(s)
        return tuple(out)

    def atom(self, name):
        return LinVec(self, {(name,): 1})

    def zero(self):
        return LinVec(self, {})

    def apply_fn(self, fname, *args):
        """Uninterpreted (non-linear) vector-valued function: fresh atom per distinct argument tuple."""
        key = (fname,) + tuple(a.canon() if isinstance(a, LinVec) else _key(a) for a in args)
        if key not in self.fn_cache:
            self.fn_cache[key] = f"{fname}#{len(self.fn_cache)}"
        return LinVec(self, {(self.fn_cache[key],): 1})

    def scalar_fn(self, fname, *args):
        """Uninterpreted real-valued function of vectors (norms, densities): z3 Real per distinct arguments."""
        key = (fname,) + tuple(a.canon() if isinstance(a, LinVec) else _key(a) for a in args)
        if key not in self.fn_cache:
            self.fn_cache[key] = z3.Real(f"{fname}#{len(self.fn_cache)}")
        return self.fn_cache[key]


class LinVec:
    def __init__(self, space, terms):
        self.space = space
        self.terms = {w: c for w, c in terms.items() if not _is_zero(c)}

    def copy(self):
        return LinVec(self.space, dict(self.terms))

    def canon(self):
        return tuple(sorted((w, _key(c)) for w, c in self.terms.items()))

    def apply(self, op):
        out = {}
        for w, c in self.terms.items():
            nw = self.space.reduce(op.word + w[:-1]) + (w[-1],)
            out[nw] = _simp(out.get(nw, 0) + c * op.coeff)
        return LinVec(self.space, out)

    def _combine(self, other, sa, sb):
        out = {}
        for w, c in self.terms.items():
            out[w] = sa * c
        for w, c in other.terms.items():
            out[w] = _simp(out.get(w, 0) + sb * c)
        return out

    def scaled(self, k):
        return LinVec(self.space, {w: _simp(c * k) for w, c in self.terms.items()})

    def _pv_binop(self, ex, op, other):
        if isinstance(other, LinOp):
            return NotImplemented
        if isinstance(other, LinVec):
            if op in ("__add__", "__radd__"):
                return LinVec(self.space, self._combine(other, 1, 1))
            if op == "__sub__":
                return LinVec(self.space, self._combine(other, 1, -1))
            if op == "__rsub__":
                return LinVec(self.space, self._combine(other, -1, 1))
            if op in ("__matmul__", "__rmatmul__"):
                a, b = (self, other) if op == "__matmul__" else (other, self)
                return dot(a, b)
            if op in ("__mul__", "__rmul__"):
                raise OutsideSubset("elementwise product of abstract vectors")
            return NotImplemented
        other = _num(other)
        if op in ("__mul__", "__rmul__"):
            return self.scaled(lift_num(other))
        if op == "__truediv__":
            return self.scaled(1 / to_real(other))
        if op in ("__add__", "__radd__", "__sub__", "__rsub__") and not is_z3(other) and other == 0:
            return self.copy() if op != "__rsub__" else self.scaled(-1)
        return NotImplemented

    def _pv_inplace(self, ex, name, val):
        if getattr(self, "read_only", False):
            raise PyRaise(make_exc(ex.interp, "ValueError", "assignment destination is read-only"))
        opname = {"__iadd__": "__add__", "__isub__": "__sub__", "__imul__": "__mul__", "__itruediv__": "__truediv__"}[name]
        r = self._pv_binop(ex, opname, val)
        if r is NotImplemented:
            raise OutsideSubset(f"in-place {name} on LinVec with {val!r}")
        self.terms = r.terms
        return self

    def _pv_getattr(self, ex, name):
        if name == "copy":
            return Native(lambda ex2: self.copy(), "copy")
        if name == "T":
            return self
        if name == "shape":
            return (self.space.dim,)
        if name == "dtype":
            return "float64"
        raise OutsideSubset(f"LinVec.{name}")

    def _pv_truth(self, ex):
        raise OutsideSubset("truth value of an abstract array")

    def neg(self):
        return self.scaled(-1)

    def __neg__(self):
        return self.scaled(-1)

    def __repr__(self):
        return "<LinVec " + " + ".join(f"({c})*{'.'.join(w)}" for w, c in self.terms.items()) + ">"


def lift_num(x):
    return x


def dot(a, b):
    """Bilinear scalar a^T b as a z3 real: sum of coefficient products times word-pair symbols."""
    total = 0
    for wa, ca in a.terms.items():
        for wb, cb in b.terms.items():
            pair = tuple(sorted([wa, wb]))
            sym = z3.Real("dot<" + ".".join(pair[0]) + "|" + ".".join(pair[1]) + ">")
            total = total + ca * cb * sym
    return total


def vec_eq(a, b):
    """z3 condition (conjunction over words) sufficient for a == b."""
    conds = []
    for w in set(a.terms) | set(b.terms):
        ca, cb = a.terms.get(w, 0), b.terms.get(w, 0)
        c = _simp(ca - cb)
        if is_z3(c):
            conds.append(c == 0)
        elif c != 0:
            return z3.BoolVal(False)
    return z3.And(*conds) if conds else z3.BoolVal(True)


def neg_hook(v):
    return v.scaled(-1)
