"""Engine A: symbolic execution of the *real* function ASTs of /repo/src/mici
with z3 path conditions (DESIGN.md section 3).

Values are ordinary Python objects: concrete ints/floats/strs/None/tuples/lists/dicts,
z3 expressions (Int / Real / Bool) for symbolic numbers, `Obj` for instances of classes
interpreted from source, `Func` closures, and harness-supplied `Native` stubs (contracts
of callees).  Branches on symbolic booleans fork via decision-vector re-execution; loops
are cut by sidecar invariants (LoopSpec) or unrolled when the iterable is concrete.
"""
from __future__ import annotations

import ast
import math
import operator
import os
import time
from fractions import Fraction

import z3

from . import core

INF = float("inf")


class OutsideSubset(Exception):
    pass


class Infeasible(Exception):
    pass


class PathEnd(Exception):
    """Path deliberately stopped (e.g. after a loop-preservation obligation)."""


class ReturnEx(Exception):
    def __init__(self, value):
        self.value = value


class BreakEx(Exception):
    pass


class ContinueEx(Exception):
    pass


class CarriedUnknown:
    """value of a variable that is assigned in a loop body but that the loop's contract (LoopSpec.havoc) does not describe: at the start of a generic
    iteration it holds whatever an earlier iteration left there.  Identity / equality tests and truth tests on it are explored both ways; any other use
    is outside the supported subset (undecided)."""

    def __init__(self, name):
        self.name = name

    def __repr__(self):
        return f"<loop-carried {self.name}>"

    def _pv_getattr(self, ex, name):
        raise OutsideSubset(f"attribute {name} of loop-carried variable `{self.name}` that the loop contract does not describe")


class FStr(str):
    """result of an f-string with symbolic fields: the text with `<?>` placeholders plus the field values (`sym_parts`)"""


class PyRaise(Exception):
    """A Python exception propagating in the interpreted program."""

    def __init__(self, exc):
        self.exc = exc  # Obj whose cls is an exception class


# ----------------------------------------------------------------------------------
# values


class Cls:
    def __init__(self, name, bases, ns, module=None, fields=None):
        self.name = name
        self.bases = bases
        self.ns = ns
        self.module = module
        self.fields = fields  # NamedTuple field names
        self.mro = self._mro()

    def _mro(self):
        out = [self]
        for b in self.bases:
            for c in b.mro:
                if c not in out:
                    out.append(c)
        # keep object-like roots last (good enough for the single/diamond inheritance here)
        return out

    def lookup(self, name):
        for c in self.mro:
            if name in c.ns:
                return c.ns[name], c
        return None, None

    def issub(self, other):
        return other in self.mro

    def __repr__(self):
        return f"<class {self.name}>"

    def _pv_binop(self, ex, op, other):
        if op in ("__or__", "__ror__"):
            oth = other.items if isinstance(other, UnionSpec) else [other]
            return UnionSpec([self] + list(oth))
        return NotImplemented


class Obj:
    def __init__(self, cls, attrs=None):
        self.cls = cls
        self.attrs = attrs if attrs is not None else {}

    def __repr__(self):
        return f"<{self.cls.name} {self.attrs}>"


class Func:
    def __init__(self, node, env, module, qualname, defaults=None, kw_defaults=None, owner=None):
        self.node = node
        self.env = env
        self.module = module
        self.qualname = qualname
        self.defaults = defaults or []
        self.kw_defaults = kw_defaults or {}
        self.owner = owner  # defining Cls for methods (super())

    def __repr__(self):
        return f"<func {self.qualname}>"


class Bound:
    def __init__(self, func, self_obj):
        self.func = func
        self.self_obj = self_obj


class Prop:
    def __init__(self, fget, fset=None):
        self.fget = fget
        self.fset = fset


class Native:
    """Harness-supplied callable: fn(ctx, *args, **kwargs)."""

    def __init__(self, fn, name=None):
        self.fn = fn
        self.name = name or getattr(fn, "__name__", "native")

    def __repr__(self):
        return f"<native {self.name}>"


class Namespace:
    """Attribute bag (module stand-ins such as `np`)."""

    def __init__(self, name, **kw):
        self._name = name
        self.__dict__.update(kw)


class Env:
    def __init__(self, parent=None, vars=None):
        self.parent = parent
        self.vars = vars if vars is not None else {}
        self.nonlocals = set()

    def lookup(self, name):
        e = self
        while e is not None:
            if name in e.vars:
                return e.vars[name]
            e = e.parent
        raise KeyError(name)

    def set(self, name, value):
        if name in self.nonlocals:
            e = self.parent
            while e is not None:
                if name in e.vars:
                    e.vars[name] = value
                    return
                e = e.parent
        self.vars[name] = value


def is_z3(x):
    return isinstance(x, z3.ExprRef)


def is_sym_bool(x):
    return isinstance(x, z3.BoolRef)


def to_real(x):
    if is_z3(x):
        return z3.ToReal(x) if x.sort() == z3.IntSort() else x
    if isinstance(x, bool):
        return z3.RealVal(int(x))
    if isinstance(x, int):
        return z3.RealVal(x)
    if isinstance(x, float):
        return z3.RealVal(str(Fraction(x)))
    if isinstance(x, Fraction):
        return z3.RealVal(str(x))
    raise OutsideSubset(f"to_real({x!r})")


def lift(x):
    """Concrete python number -> z3 value of the matching sort."""
    if is_z3(x):
        return x
    if isinstance(x, bool):
        return z3.BoolVal(x)
    if isinstance(x, int):
        return z3.IntVal(x)
    if isinstance(x, (float, Fraction)):
        return to_real(x)
    raise OutsideSubset(f"lift({x!r})")


def is_special_float(x):
    return isinstance(x, float) and (math.isinf(x) or math.isnan(x))


# ----------------------------------------------------------------------------------
# modules interpreted from source


class Module:
    def __init__(self, interp, name, path):
        self.interp = interp
        self.name = name
        self.path = path
        self.src = open(path).read()
        self.tree = ast.parse(self.src)
        self.env = Env(None, {})
        self.defs = {}
        self.imports = {}
        self._index(self.tree.body)
        self._loading = set()

    def _index(self, body):
        for st in body:
            if isinstance(st, (ast.FunctionDef, ast.ClassDef)):
                self.defs[st.name] = st
            elif isinstance(st, ast.Assign):
                for t in st.targets:
                    if isinstance(t, ast.Name):
                        self.defs[t.id] = st
            elif isinstance(st, ast.AnnAssign) and isinstance(st.target, ast.Name) and st.value is not None:
                self.defs[st.target.id] = st
            elif isinstance(st, ast.ImportFrom):
                for a in st.names:
                    self.imports[a.asname or a.name] = (st.module, a.name)
            elif isinstance(st, ast.Import):
                for a in st.names:
                    self.imports[a.asname or a.name.split(".")[0]] = (a.name, None)
            elif isinstance(st, (ast.If, ast.Try)):
                # TYPE_CHECKING blocks / optional imports: index bodies for names only
                if isinstance(st, ast.Try):
                    self._index(st.body)
                    for h in st.handlers:
                        self._index_fallback(h.body)

    def _index_fallback(self, body):
        for st in body:
            if isinstance(st, ast.Assign):
                for t in st.targets:
                    if isinstance(t, ast.Name) and t.id not in self.defs:
                        self.defs[t.id] = st

    def resolve(self, name, ctx):
        # a harness override is looked up on every resolution and never cached in the module environment: harnesses install closures over their
        # per-path state and remove them afterwards (a cached override would keep serving the first path's closure, also after it was removed)
        ov = self.interp.overrides.get((self.name, name))
        if ov is not None:
            return ov
        if name in self.env.vars:
            return self.env.vars[name]
        if ctx is not None and (self.name, name) in ctx.module_consts:
            return ctx.module_consts[(self.name, name)]
        if name in self.defs:
            if name in self._loading:
                raise OutsideSubset(f"cyclic module-level definition {name}")
            self._loading.add(name)
            try:
                st = self.defs[name]
                if isinstance(st, (ast.Assign, ast.AnnAssign)) and ctx is not None:
                    # module-level constants may carry path-local axioms (e.g. LOG_2 = log(2.0)):
                    # evaluate once per path, never cache across paths
                    tmp = Env(self.env, {})
                    ex = Exec(self.interp, ctx, self, tmp, qual="")
                    ex.stmt(st)
                    for k, v in tmp.vars.items():
                        ctx.module_consts[(self.name, k)] = v
                    return ctx.module_consts[(self.name, name)]
                ex = Exec(self.interp, ctx, self, self.env, qual="")
                ex.stmt(st)
            finally:
                self._loading.discard(name)
            return self.env.vars[name]
        if name in self.imports:
            mod, attr = self.imports[name]
            val = self.interp.import_name(mod, attr, ctx)
            self.env.vars[name] = val
            return val
        raise KeyError(name)


# ----------------------------------------------------------------------------------
# contracts for loops


def _assigned_names(loop):
    """names (simple variables) assigned anywhere in the body of a for / while statement"""
    out = set()
    for node in loop.body:
        for n in ast.walk(node):
            tgts = []
            if isinstance(n, ast.Assign):
                tgts = n.targets
            elif isinstance(n, (ast.AugAssign, ast.AnnAssign)):
                tgts = [n.target]
            elif isinstance(n, (ast.For, ast.AsyncFor)):
                tgts = [n.target]
            elif isinstance(n, (ast.With, ast.AsyncWith)):
                tgts = [i.optional_vars for i in n.items if i.optional_vars is not None]
            elif isinstance(n, ast.NamedExpr):
                tgts = [n.target]
            for t in tgts:
                for x in ast.walk(t):
                    if isinstance(x, ast.Name) and isinstance(x.ctx, ast.Store):
                        out.add(x.id)
    return out


def _load_keeps():
    path = os.path.join(os.path.dirname(os.path.abspath(__file__)), "loop_keeps.json")
    try:
        import json
        return {k: set(v) for k, v in json.load(open(path)).items()}
    except Exception:  # noqa: BLE001
        return {}


_LOOP_KEEPS = _load_keeps()
_LOOP_KEEPS_NEW = {}


def dump_recorded_keeps():
    """VF_RECORD_KEEPS=1: merge the names seen in this process into vf/loop_keeps.json"""
    if not _LOOP_KEEPS_NEW:
        return
    import json
    path = os.path.join(os.path.dirname(os.path.abspath(__file__)), "loop_keeps.json")
    cur = {k: set(v) for k, v in _LOOP_KEEPS.items()}
    try:
        cur = {k: set(v) for k, v in json.load(open(path)).items()}
    except Exception:  # noqa: BLE001
        pass
    for k, v in _LOOP_KEEPS_NEW.items():
        cur.setdefault(k, set()).update(v)
    json.dump({k: sorted(v) for k, v in sorted(cur.items())}, open(path, "w"), indent=1)


class LoopSpec:
    """Sidecar loop contract.

    invariant(ex) -> z3 Bool (or list) evaluated in the function's environment
    havoc(ex)     -> replaces loop-modified state by fresh symbols (called before assuming
                     the invariant at an arbitrary iteration)
    variant(ex)   -> optional z3 Int term that must decrease and stay >= 0
    """

    def __init__(self, invariant, havoc, variant=None, name=None, on_exit=None, on_body=None, anchor=None):
        # anchor(ast node) -> bool: what the loop this contract belongs to looks like (kind of loop, what it iterates over).  Contracts are keyed by the
        # loop's ordinal in its function; when code is edited so that the ordinals shift (a loop inserted before), an anchored contract follows its loop and
        # the inserted loop is executed without a contract instead of being paired with a contract written for another loop
        self.anchor = anchor
        self.invariant = invariant
        self.havoc = havoc
        self.variant = variant
        self.name = name
        self.on_exit = on_exit
        self.on_body = on_body


# ----------------------------------------------------------------------------------
# interpreter


class Interp:
    """Holds modules, stubs, contracts; explores all paths of a harness."""

    def __init__(self, run, src_root=None, timeout_ms=20000, ieee=False):
        self.run = run
        self.src_root = src_root or os.path.join(core.SRC, "mici")
        self.modules = {}
        self.overrides = {}  # (module, name) -> value
        self.ext_modules = {}  # 'numpy' -> Namespace, 'math' -> Namespace ...
        self.loop_specs = {}  # (qualname, ordinal) -> LoopSpec
        self.call_contracts = {}  # qualname -> Native (used instead of body when called)
        self.timeout_ms = timeout_ms
        self.ieee = ieee
        self.max_paths = 4000
        self.paths = 0
        self.dropped = set()
        self.call_hook = None  # fn(ex, callee, args, kwargs) -> None, may raise (interrupt modelling)
        self.builtins = make_builtins(self)
        self.solver_seconds = 0.0
        self.depth_limit = 40

    def module(self, name):
        if name not in self.modules:
            rel = name.split(".")
            assert rel[0] == "mici"
            path = os.path.join(self.src_root, *rel[1:]) + ".py"
            if not os.path.exists(path):
                path = os.path.join(self.src_root, *rel[1:], "__init__.py")
            self.modules[name] = Module(self, name, path)
        return self.modules[name]

    def import_name(self, mod, attr, ctx):
        if mod is None:
            raise OutsideSubset("relative import")
        if mod in self.ext_modules:
            ns = self.ext_modules[mod]
            if attr is None:
                return ns
            if hasattr(ns, attr):
                return getattr(ns, attr)
            raise OutsideSubset(f"no stub for {mod}.{attr}")
        if mod.startswith("mici"):
            if attr is None:
                return self.module_ns(mod)
            try:
                return self.module(mod).resolve(attr, ctx)
            except KeyError:
                # submodule import: from mici import matrices
                return self.module_ns(mod + "." + attr)
        # fall back: a few std modules
        if mod == "__future__":
            return None
        raise OutsideSubset(f"import of {mod}.{attr} has no stub")

    def module_ns(self, mod):
        interp = self

        class _ModNS:
            def __getattr__(s, name):
                return interp.module(mod).resolve(name, None)

        return _ModNS()

    # ---- exploration ------------------------------------------------------------------
    def explore(self, harness, label="", roots=None):
        """Run harness(ctx) once per feasible path. harness drives Exec calls.
        roots: optional list of decision prefixes explored in parallel worker processes."""
        if roots and len(roots) > 1 and not os.environ.get("VF_SERIAL"):
            return self._explore_parallel(harness, label, roots)
        pending = [list(r) for r in roots] if roots else [[]]
        n = 0
        while pending:
            prefix = pending.pop()
            ctx = Ctx(self, prefix, pending)
            n += 1
            self.paths += 1
            if n > self.max_paths:
                raise OutsideSubset(f"path explosion in {label} (> {self.max_paths} paths)")
            try:
                harness(ctx)
            except Infeasible:
                pass
            except PathEnd:
                pass
            except OutsideSubset as e:
                # never a violation: the path left the supported subset -> undecided
                self.run.ob(f"{label}/outside-subset", core.UNKNOWN, "pyvc", detail=f"{e} (path {ctx.trace})")
        return n


    def _explore_parallel(self, harness, label, roots):
        import multiprocessing as mp
        global _PAR_JOB
        _PAR_JOB = (self, harness, label)
        ctxm = mp.get_context("fork")
        nproc = min(len(roots), int(os.environ.get("VF_PROCS", "16")))
        limit = int(os.environ.get("VF_POOL_SECONDS", "1500"))
        try:
            with ctxm.Pool(nproc) as pool:
                results = pool.map_async(_par_worker, [list(r) for r in roots], chunksize=1).get(timeout=limit)
        except mp.TimeoutError:
            # forked workers that never report (observed once with a modified tree after solver timeouts in the parent): the verdict must not hang --
            # the roots are explored again in this process, one after the other
            self.run.notes.append(f"{label}: worker pool did not finish within {limit}s; explored serially")
            pending = [list(r) for r in roots]
            os.environ["VF_SERIAL"] = "1"
            try:
                return self.explore(harness, label, roots=pending)
            finally:
                os.environ.pop("VF_SERIAL", None)
        total = 0
        for obs, n, secs, dropped, err in results:
            if err:
                raise OutsideSubset(err) if err.startswith("OutsideSubset") else RuntimeError(err)
            total += n
            self.paths += n
            self.solver_seconds += secs
            self.dropped |= dropped
            for o in obs:
                self.run.ob(o.id, o.status, o.backend, o.seconds, o.detail, o.witness, o.klass, o.replay, o.text)
        return total


_PAR_JOB = None


def _par_worker(root):
    import traceback
    interp, harness, label = _PAR_JOB
    run = core.Run(interp.run.prop, interp.run.tier, interp.run.seed)
    interp.run = run
    interp.paths = 0
    interp.solver_seconds = 0.0
    try:
        n = interp.explore(harness, label, roots=[root])
    except OutsideSubset as e:
        return [], 0, 0.0, set(), "OutsideSubset: " + str(e)
    except Exception:
        return [], 0, 0.0, set(), traceback.format_exc()
    obs = list(run.obs.values())
    for o in obs:
        if callable(o.replay):
            try:
                o.replay = o.replay(o.witness)
            except Exception:
                o.replay = None
    return obs, n, interp.solver_seconds, interp.dropped, None


class Ctx:
    """One path: path condition, decision vector, fresh-symbol counter."""

    def __init__(self, interp, prefix, pending):
        self.interp = interp
        self.run = interp.run
        self.prefix = prefix
        self.pending = pending
        self.trace = []
        self.pc = []
        self.counter = {}
        self.ghost = {}
        self.solver = z3.Solver()
        self.solver.set("timeout", interp.timeout_ms)
        self.notes = []
        self.interrupted = False
        self.module_consts = {}

    # fresh symbols are named deterministically so re-execution reproduces them
    def fresh(self, base, sort="real"):
        k = self.counter.get(base, 0)
        self.counter[base] = k + 1
        name = f"{base}!{k}" if k else base
        if sort == "int":
            return z3.Int(name)
        if sort == "bool":
            return z3.Bool(name)
        return z3.Real(name)

    def assume(self, cond):
        if isinstance(cond, (list, tuple)):
            for c in cond:
                self.assume(c)
            return
        if cond is True:
            return
        if cond is False:
            raise Infeasible()
        self.pc.append(cond)
        self.solver.add(cond)

    def _check(self, extra):
        t0 = time.time()
        self.solver.push()
        self.solver.add(extra)
        r = self.solver.check()
        self.solver.pop()
        self.interp.solver_seconds += time.time() - t0
        return r

    def model(self, extra=None, skip=("EXP", "LOG", "SQRT", "POW")):
        """Witness for the current path (plus extra), as {name: value-string}; {} if none."""
        self.solver.push()
        try:
            if extra is not None:
                self.solver.add(extra)
            if self.solver.check() != z3.sat:
                return {}
            m = self.solver.model()
            return {str(d): str(m[d]) for d in m.decls() if not str(d).startswith(skip)}
        finally:
            self.solver.pop()

    def feasible(self, cond):
        r = self._check(cond)
        if r == z3.unknown:
            # treat as feasible (sound for proving: explores more)
            return True
        return r == z3.sat

    def choose(self, n, label=""):
        """Non-deterministic choice among n alternatives (all explored)."""
        pos = len(self.trace)
        if pos < len(self.prefix):
            c = self.prefix[pos]
        else:
            c = 0
            for i in range(n - 1, 0, -1):
                self.pending.append(self.trace + [i])
        self.trace.append(c)
        return c

    def branch(self, cond):
        """Decide a symbolic boolean; forks when both sides are feasible."""
        if isinstance(cond, bool):
            return cond
        cond = z3.simplify(cond)
        if z3.is_true(cond):
            return True
        if z3.is_false(cond):
            return False
        pos = len(self.trace)
        if pos < len(self.prefix):
            c = self.prefix[pos]
            self.trace.append(c)
            self.assume(cond if c else z3.Not(cond))
            return bool(c)
        t = self.feasible(cond)
        f = self.feasible(z3.Not(cond))
        if t and f:
            self.pending.append(self.trace + [0])
            c = 1
        elif t:
            c = 1
        elif f:
            c = 0
        else:
            raise Infeasible()
        self.trace.append(c)
        self.assume(cond if c else z3.Not(cond))
        return bool(c)

    def prove(self, oid, claim, replay=None, text=None, klass="exact", wit_vars=None, prefer=None):
        """Obligation: pc => claim. Records result; continues assuming the claim."""
        if isinstance(claim, (list, tuple)):
            claim = z3.And(*[lift(c) for c in claim]) if claim else True
        if prefer == "algebra" and is_z3(claim):
            from . import algebra
            t1 = time.time()
            if algebra.prove_by_expansion(claim):
                self.run.ob(oid, core.DISCHARGED, "sympy-expand", time.time() - t1, text=text or f"{oid}: polynomial identity {str(claim)[:800]}", klass=klass)
                self.assume(claim)
                return True
        if claim is True or (is_z3(claim) and z3.is_true(z3.simplify(claim))):
            self.run.ob(oid, core.DISCHARGED, "z3", 0.0, text=text or f"{oid}: trivially true on this path", klass=klass)
            return True
        if claim is False:
            claim = z3.BoolVal(False)
        t0 = time.time()
        r = self._check(z3.Not(claim))
        dt = time.time() - t0
        txt = text or f"{oid}: (and {' '.join(str(c) for c in self.pc[-6:])}) => {claim}"
        if r == z3.unsat:
            self.run.ob(oid, core.DISCHARGED, "z3", dt, text=txt[:1500], klass=klass)
            self.assume(claim)
            return True
        m = None
        if r == z3.sat:
            self.solver.push()
            self.solver.add(z3.Not(claim))
            # the second check can time out where the first did not (non-linear integer / real mixes): then the verdict is `unknown`, not a crash
            m = self.solver.model() if self.solver.check() == z3.sat else None
            self.solver.pop()
        if r == z3.sat and m is not None:
            wit = {str(d): str(m[d]) for d in m.decls()}
            detail = f"counter-model: {wit}; path={self.trace}; claim={claim}"
            self.run.ob(oid, core.FAILED, "z3", dt, detail=detail, witness=wit, replay=replay, text=txt[:1500], klass=klass)
            # a refuted claim is NOT assumed afterwards (it could make the rest of the path vacuous)
            return False
        # unknown: algebraic back ends first (exact), then a second SMT tactic
        from . import algebra
        t1 = time.time()
        if is_z3(claim) and z3.is_and(claim):
            # a conjunction the solver gives up on as a whole: (in)equalities one by one by SMT, the equalities between rational expressions as polynomial
            # identities (exact expansion; holds for all values, so the path condition is not needed)
            parts = claim.children()
            eqs = [c for c in parts if z3.is_eq(c) and c.children()[0].sort() == z3.RealSort()]
            rest = [c for c in parts if not any(c is e for e in eqs)]
            ok = all(self._check(z3.Not(c)) == z3.unsat for c in rest)
            if ok:
                for e in eqs:
                    if not (algebra.prove_by_expansion(e) or self._check(z3.Not(e)) == z3.unsat):
                        ok = False
                        break
            if ok:
                self.run.ob(oid, core.DISCHARGED, "z3+sympy-expand", dt + time.time() - t1, text=txt[:1500], klass=klass)
                self.assume(claim)
                return True
        if algebra.prove_by_expansion(claim):
            self.run.ob(oid, core.DISCHARGED, "sympy-expand", dt + time.time() - t1, text=txt[:1500], klass=klass)
            self.assume(claim)
            return True
        wit = algebra.refute_by_evaluation(self.pc, claim)
        if wit is not None:
            self.run.ob(oid, core.FAILED, "exact-evaluation", dt + time.time() - t1, witness=wit, replay=replay, text=txt[:1500], klass=klass,
                        detail=f"counterexample by exact rational evaluation (satisfies the path condition, falsifies the claim): {wit}")
            return False
        r2, dt2 = _second_opinion(self.pc, claim, self.interp.timeout_ms)
        if r2 == "unsat":
            self.run.ob(oid, core.DISCHARGED, "z3-nlsat", dt + dt2, text=txt[:1500], klass=klass)
            self.assume(claim)
            return True
        self.run.ob(oid, core.UNKNOWN, "z3", dt + dt2, detail=f"solver unknown ({self.solver.reason_unknown()})", text=txt[:1500], klass=klass)
        self.assume(claim)
        return None

    def cover(self, oid, cond=True):
        """Vacuity guard: the current path (and cond) must be reachable."""
        r = self._check(lift(cond) if not is_z3(cond) else cond)
        if r == z3.unsat:
            self.run.ob(oid, core.ERROR, "z3", detail="cover unreachable: contradictory assumptions", klass="exact")
        # sat/unknown: fine; covers are not counted as obligations


def _second_opinion(pc, claim, timeout_ms):
    t0 = time.time()
    try:
        s = z3.Tactic("qfnra-nlsat").solver()
        s.set("timeout", timeout_ms)
        for c in pc:
            s.add(c)
        s.add(z3.Not(claim))
        r = s.check()
        return str(r), time.time() - t0
    except z3.Z3Exception:
        return "unknown", time.time() - t0


# ----------------------------------------------------------------------------------
# builtin exception classes


def make_builtins(interp):
    b = {}

    def exc(name, *bases):
        c = Cls(name, [b[x] for x in bases], {}, module="builtins")
        b[name] = c
        return c

    exc("BaseException")
    exc("Exception", "BaseException")
    exc("KeyboardInterrupt", "BaseException")
    for n in ["ValueError", "TypeError", "RuntimeError", "ArithmeticError", "LookupError",
              "AttributeError", "StopIteration", "AssertionError", "OSError", "ImportError"]:
        exc(n, "Exception")
    for n in ["SystemError", "MemoryError", "EOFError", "BufferError", "ReferenceError", "Warning"]:
        exc(n, "Exception")
    exc("SystemExit", "BaseException")
    exc("GeneratorExit", "BaseException")
    exc("FloatingPointError", "ArithmeticError")
    exc("RecursionError", "RuntimeError")
    exc("TimeoutError", "OSError")
    exc("FileNotFoundError", "OSError")
    exc("DeprecationWarning", "Warning")
    exc("UserWarning", "Warning")
    exc("NameError", "Exception")
    exc("UnboundLocalError", "NameError")
    exc("ZeroDivisionError", "ArithmeticError")
    exc("OverflowError", "ArithmeticError")
    exc("KeyError", "LookupError")
    exc("IndexError", "LookupError")
    exc("NotImplementedError", "RuntimeError")
    exc("PicklingError", "Exception")
    exc("NumpyLinAlgError", "ValueError")
    b["object"] = Cls("object", [], {}, module="builtins")
    return b


def make_exc(interp, name, msg=""):
    return Obj(interp.builtins[name], {"args": (msg,)})


BINOPS = {
    ast.Add: ("__add__", "__radd__", operator.add),
    ast.Sub: ("__sub__", "__rsub__", operator.sub),
    ast.Mult: ("__mul__", "__rmul__", operator.mul),
    ast.Div: ("__truediv__", "__rtruediv__", operator.truediv),
    ast.FloorDiv: ("__floordiv__", "__rfloordiv__", operator.floordiv),
    ast.Mod: ("__mod__", "__rmod__", operator.mod),
    ast.Pow: ("__pow__", "__rpow__", operator.pow),
    ast.MatMult: ("__matmul__", "__rmatmul__", operator.matmul),
    ast.BitOr: ("__or__", "__ror__", operator.or_),
    ast.BitAnd: ("__and__", "__rand__", operator.and_),
}
INPLACE = {
    ast.Add: "__iadd__", ast.Sub: "__isub__", ast.Mult: "__imul__", ast.Div: "__itruediv__",
    ast.MatMult: "__imatmul__",
}
CMPOPS = {
    ast.Eq: ("__eq__", "__eq__", operator.eq), ast.NotEq: ("__ne__", "__ne__", operator.ne),
    ast.Lt: ("__lt__", "__gt__", operator.lt), ast.LtE: ("__le__", "__ge__", operator.le),
    ast.Gt: ("__gt__", "__lt__", operator.gt), ast.GtE: ("__ge__", "__le__", operator.ge),
}


class Exec:
    """Executes statements of one function activation."""

    def __init__(self, interp, ctx, module, env, qual, func=None, depth=0):
        self.interp = interp
        self.ctx = ctx
        self.module = module
        self.env = env
        self.qual = qual
        self.func = func
        self.loop_ordinal = 0
        self.depth = depth

    # ---- names -----------------------------------------------------------------------
    def lookup(self, name):
        try:
            return self.env.lookup(name)
        except KeyError:
            pass
        try:
            return self.module.resolve(name, self.ctx)
        except KeyError:
            pass
        b = self.interp.builtins
        if name in b:
            return b[name]
        if name in BUILTIN_FUNCS:
            return BUILTIN_FUNCS[name]
        if self.func is not None and name in _local_names(self.func.node):
            raise PyRaise(make_exc(self.interp, "UnboundLocalError", f"cannot access local variable '{name}' where it is not associated with a value"))
        raise OutsideSubset(f"unresolved name {name} in {self.qual}")

    # ---- statements ------------------------------------------------------------------
    def block(self, stmts):
        for s in stmts:
            self.stmt(s)

    def stmt(self, s):
        m = getattr(self, "s_" + type(s).__name__, None)
        if m is None:
            raise OutsideSubset(f"statement {type(s).__name__} in {self.qual}")
        return m(s)

    def s_Pass(self, s):
        pass

    def s_Import(self, s):
        for a in s.names:
            self.env.set(a.asname or a.name.split(".")[0], self.interp.import_name(a.name, None, self.ctx))

    def s_ImportFrom(self, s):
        for a in s.names:
            self.env.set(a.asname or a.name, self.interp.import_name(s.module, a.name, self.ctx))

    def s_Expr(self, s):
        if isinstance(s.value, ast.Constant):
            return
        # logger.* calls are dropped (reported in evidence)
        v = s.value
        if isinstance(v, ast.Call) and isinstance(v.func, ast.Attribute) and isinstance(v.func.value, ast.Name) \
                and v.func.value.id == "logger":
            self.interp.dropped.add(f"{self.qual}: logger.{v.func.attr}(...) [the call is dropped; its argument expressions are evaluated]")
            # the logging call itself has no effect on the program state, but evaluating its arguments can raise (an attribute that the object at hand
            # does not have, a failing format): exceptions of the program propagate; what the interpreter cannot evaluate stays dropped
            for a in list(v.args) + [k.value for k in v.keywords]:
                try:
                    self.expr(a)
                except OutsideSubset:
                    pass
            return
        self.expr(s.value)

    def s_Global(self, s):
        raise OutsideSubset("global")

    def s_Nonlocal(self, s):
        self.env.nonlocals.update(s.names)

    def s_Assert(self, s):
        c = self.truth(self.expr(s.test))
        if not c:
            raise PyRaise(make_exc(self.interp, "AssertionError"))

    def s_Return(self, s):
        raise ReturnEx(self.expr(s.value) if s.value is not None else None)

    def s_Break(self, s):
        raise BreakEx()

    def s_Continue(self, s):
        raise ContinueEx()

    def s_Delete(self, s):
        for t in s.targets:
            if isinstance(t, ast.Subscript):
                obj = self.expr(t.value)
                del obj[self.expr(t.slice)]
            else:
                raise OutsideSubset("del target")

    def s_FunctionDef(self, s):
        f = self.make_func(s, s.name)
        for d in reversed(s.decorator_list):
            dec = self.expr(d)
            f = self.call(dec, [f], {})
        self.env.set(s.name, f)

    def make_func(self, node, name, owner=None):
        a = node.args
        defaults = [self.expr(d) for d in a.defaults]
        kw_defaults = {}
        for arg, d in zip(a.kwonlyargs, a.kw_defaults):
            if d is not None:
                kw_defaults[arg.arg] = self.expr(d)
        q = f"{self.qual}.{name}" if self.qual else name
        return Func(node, self.env, self.module, q, defaults, kw_defaults, owner)

    def s_ClassDef(self, s):
        bases = []
        fields = None
        for bn in s.bases:
            bname = ast.unparse(bn)
            if bname in ("NamedTuple",):
                fields = []
                continue
            if bname in ("ABC", "abc.ABC", "Protocol"):
                continue
            bv = self.expr(bn)
            if not isinstance(bv, Cls):
                raise OutsideSubset(f"base class {bname}")
            bases.append(bv)
        if not bases:
            bases = [self.interp.builtins["object"]]
        cls = Cls(s.name, bases, {}, module=self.module.name)
        cenv = Env(self.env, cls.ns)
        sub = Exec(self.interp, self.ctx, self.module, cenv, (self.qual + "." if self.qual else "") + s.name, depth=self.depth)
        for st in s.body:
            if isinstance(st, ast.FunctionDef):
                f = sub.make_func(st, st.name, owner=cls)
                f.env = self.env  # class scope is not visible from method bodies
                val = f
                for d in reversed(st.decorator_list):
                    dn = ast.unparse(d)
                    if dn == "property":
                        val = Prop(val)
                    elif dn.endswith(".setter"):
                        old = cls.ns[dn.split(".")[0]]
                        val = Prop(old.fget, val)
                    elif dn in ("abstractmethod", "abc.abstractmethod", "staticmethod", "classmethod"):
                        if dn in ("staticmethod", "classmethod"):
                            raise OutsideSubset(dn)
                    elif dn in ("abstractproperty",):
                        val = Prop(val)
                    else:
                        dec = sub.expr(d)
                        val = sub.call(dec, [val], {})
                cls.ns[st.name] = val
            elif isinstance(st, ast.AnnAssign):
                if fields is not None and st.value is None:
                    fields.append(st.target.id)
                elif st.value is not None:
                    cls.ns[st.target.id] = sub.expr(st.value)
            elif isinstance(st, ast.Assign):
                v = sub.expr(st.value)
                for t in st.targets:
                    cls.ns[t.id] = v
            elif isinstance(st, (ast.Expr, ast.Pass)):
                pass
            else:
                raise OutsideSubset(f"class body statement {type(st).__name__}")
        cls.fields = fields if fields is not None else next((b.fields for b in bases if b.fields), None)
        self.env.set(s.name, cls)

    def s_Assign(self, s):
        v = self.expr(s.value)
        for t in s.targets:
            self.assign(t, v)

    def s_AnnAssign(self, s):
        if s.value is not None:
            self.assign(s.target, self.expr(s.value))

    def assign(self, t, v):
        if isinstance(t, ast.Name):
            self.env.set(t.id, v)
        elif isinstance(t, (ast.Tuple, ast.List)):
            items = self.iterate_concrete(v)
            star = [i for i, e in enumerate(t.elts) if isinstance(e, ast.Starred)]
            if star:
                i = star[0]
                n_after = len(t.elts) - i - 1
                if len(items) < len(t.elts) - 1:
                    raise PyRaise(make_exc(self.interp, "ValueError", "not enough values to unpack"))
                for e, x in zip(t.elts[:i], items[:i]):
                    self.assign(e, x)
                self.assign(t.elts[i].value, list(items[i:len(items) - n_after]))
                for e, x in zip(t.elts[i + 1:], items[len(items) - n_after:]):
                    self.assign(e, x)
            else:
                if len(items) != len(t.elts):
                    raise PyRaise(make_exc(self.interp, "ValueError", "unpack length mismatch"))
                for e, x in zip(t.elts, items):
                    self.assign(e, x)
        elif isinstance(t, ast.Attribute):
            self.setattr(self.expr(t.value), t.attr, v)
        elif isinstance(t, ast.Subscript):
            obj = self.expr(t.value)
            self.setitem(obj, self.expr(t.slice), v)
        else:
            raise OutsideSubset(f"assign target {type(t).__name__}")

    def s_AugAssign(self, s):
        t = s.target
        if isinstance(t, ast.Name):
            cur = self.lookup(t.id)
            self.env.set(t.id, self.inplace(type(s.op), cur, self.expr(s.value)))
        elif isinstance(t, ast.Attribute):
            obj = self.expr(t.value)
            cur = self.getattr(obj, t.attr)
            self.setattr(obj, t.attr, self.inplace(type(s.op), cur, self.expr(s.value)))
        elif isinstance(t, ast.Subscript):
            obj = self.expr(t.value)
            key = self.expr(t.slice)
            cur = self.getitem(obj, key)
            self.setitem(obj, key, self.inplace(type(s.op), cur, self.expr(s.value)))
        else:
            raise OutsideSubset("augassign target")

    def inplace(self, op, cur, val):
        name = INPLACE.get(op)
        if name is not None:
            if isinstance(cur, Obj):
                f, _ = cur.cls.lookup(name)
                if f is not None:
                    return self.call(Bound(f, cur), [val], {})
            elif hasattr(cur, "_pv_inplace"):
                return cur._pv_inplace(self, name, val)
        return self.binop(op, cur, val)

    def s_If(self, s):
        if self.truth(self.expr(s.test)):
            self.block(s.body)
        else:
            self.block(s.orelse)

    def s_Raise(self, s):
        if s.exc is None:
            raise OutsideSubset("bare raise")
        e = self.expr(s.exc)
        if isinstance(e, Cls):
            e = self.call(e, [], {})
        if s.cause is not None:
            self.expr(s.cause)
        raise PyRaise(e)

    def s_Try(self, s):
        try:
            try:
                self.block(s.body)
            except PyRaise as pr:
                handled = False
                for h in s.handlers:
                    if h.type is None or self.exc_matches(pr.exc, self.expr(h.type)):
                        if h.name:
                            self.env.set(h.name, pr.exc)
                        handled = True
                        self.block(h.body)
                        break
                if not handled:
                    raise
            else:
                self.block(s.orelse)
        finally:
            # NB: python `finally` semantics: runs on every exit incl. interpreter control flow
            import sys as _sys
            et = _sys.exc_info()[0]
            if et is None or issubclass(et, (PyRaise, ReturnEx, BreakEx, ContinueEx)):
                self.block(s.finalbody)

    def exc_matches(self, exc, spec):
        if isinstance(spec, tuple):
            return any(self.exc_matches(exc, x) for x in spec)
        if isinstance(spec, Cls):
            return isinstance(exc, Obj) and exc.cls.issub(spec)
        if hasattr(spec, "_pv_exc_matches"):
            return spec._pv_exc_matches(exc)
        raise OutsideSubset(f"except spec {spec!r}")

    def s_With(self, s):
        mgrs = []
        try:
            for item in s.items:
                m = self.expr(item.context_expr)
                v = self.call(self.getattr(m, "__enter__"), [], {})
                mgrs.append(m)
                if item.optional_vars is not None:
                    self.assign(item.optional_vars, v)
            self.block(s.body)
        except PyRaise as pr:
            suppressed = False
            for m in reversed(mgrs):
                r = self.call(self.getattr(m, "__exit__"), [pr.exc.cls, pr.exc, None], {})
                if r is True:
                    suppressed = True
            mgrs = []
            if not suppressed:
                raise
        finally:
            import sys as _sys
            et = _sys.exc_info()[0]
            if et is None or issubclass(et, (ReturnEx, BreakEx, ContinueEx)):
                for m in reversed(mgrs):
                    self.call(self.getattr(m, "__exit__"), [None, None, None], {})

    # ---- loops -----------------------------------------------------------------------
    def next_loop_spec(self, node=None):
        """loops are numbered by their syntactic position in the enclosing function (source order), never by line number"""
        if node is not None and self.func is not None:
            k = _loop_ordinals(self.func.node).get(id(node))
            if k is not None:
                return self._anchored(k, node)
        k = self.loop_ordinal
        self.loop_ordinal += 1
        return self._anchored(k, node)

    def _anchored(self, k, node):
        spec = self.interp.loop_specs.get((self.qual, k))
        if node is None:
            return k, spec
        if spec is not None and (getattr(spec, "anchor", None) is None or spec.anchor(node)):
            return k, spec
        for (q, kk), sp_ in self.interp.loop_specs.items():
            if q == self.qual and getattr(sp_, "anchor", None) is not None and sp_.anchor(node):
                return kk, sp_
        if spec is not None and getattr(spec, "anchor", None) is not None:
            return 1000 + k, None  # a loop none of this function's contracts was written for
        return k, spec

    def s_While(self, s):
        k, spec = self.next_loop_spec(s)
        if spec is None:
            # concrete unrolling when the condition stays concrete
            n = 0
            while True:
                c = self.expr(s.test)
                if is_z3(c) and not (z3.is_true(z3.simplify(c)) or z3.is_false(z3.simplify(c))):
                    raise OutsideSubset(f"while loop #{k} in {self.qual} has a symbolic condition and no invariant")
                if not self.truth(c):
                    break
                n += 1
                if n > 200:
                    raise OutsideSubset("unbounded concrete while")
                try:
                    self.block(s.body)
                except BreakEx:
                    return
                except ContinueEx:
                    continue
            self.block(s.orelse)
            return
        self.cut_loop(k, spec, s, lambda: self.truth(self.expr(s.test)), None)

    def cut_loop(self, k, spec, s, cond_fn, bind_fn, exit_bind_fn=None):
        """Invariant-based loop cut. cond_fn() decides loop continuation in the havoc'd state;
        bind_fn() binds the loop target for a generic iteration."""
        ctx = self.ctx
        tag = f"{self.qual}/loop{k}"
        ctx.prove(f"{tag}.init", spec.invariant(self))
        which = ctx.choose(2, tag)
        assigned = _assigned_names(s)
        before = {}
        for nm in assigned:
            try:
                before[nm] = self.env.lookup(nm)
            except Exception:  # noqa: BLE001  (not bound before the loop: a body-local temporary)
                pass
        spec.havoc(self)
        if os.environ.get("VF_RECORD_KEEPS"):
            _LOOP_KEEPS_NEW.setdefault(tag, set())
        for nm, old in before.items():
            try:
                cur = self.env.lookup(nm)
            except Exception:  # noqa: BLE001
                continue
            # bound before the loop, re-assigned in the body, and left untouched by the contract's havoc: loop-carried state the contract is silent about.
            # The names each contract deliberately leaves bound (they are described through ghost state or re-bound by on_body) were recorded when the
            # contracts were written (vf/loop_keeps.json, regenerated by hand with VF_RECORD_KEEPS=1 on a green tree); any OTHER such name is new
            # loop-carried state introduced by the code under verification, about which the contract says nothing
            if cur is old:
                keeps = _LOOP_KEEPS.get(tag)
                if os.environ.get("VF_RECORD_KEEPS"):
                    _LOOP_KEEPS_NEW.setdefault(tag, set()).add(nm)
                elif keeps is not None and nm not in keeps:
                    self.env.set(nm, CarriedUnknown(nm))
        ctx.assume(spec.invariant(self))
        if which == 0:
            # exit path: invariant and not cond
            if cond_fn():
                raise Infeasible()
            ctx.cover(f"{tag}.exit-reachable")
            if exit_bind_fn is not None:
                exit_bind_fn()
            if spec.on_exit:
                spec.on_exit(self)
            self.block(s.orelse)
            return
        # preservation path: generic iteration
        if not cond_fn():
            raise Infeasible()
        if bind_fn is not None:
            bind_fn()
        v0 = spec.variant(self) if spec.variant else None
        ctx.cover(f"{tag}.body-reachable")
        if spec.on_body:
            spec.on_body(self)
        try:
            self.block(s.body)
        except BreakEx:
            return  # continue after the loop with the break-state
        except ContinueEx:
            pass
        if bind_fn is not None and is_z3(ctx.ghost.get("loop_index")):
            ctx.ghost["loop_index"] = ctx.ghost["loop_index"] + 1  # the generic index advances
        ctx.prove(f"{tag}.preserve", spec.invariant(self))
        if v0 is not None:
            v1 = spec.variant(self)
            ctx.prove(f"{tag}.progress", z3.And(v1 < v0, v0 >= 0) if not isinstance(v1, bool) else v1)
        raise PathEnd()

    def s_For(self, s):
        k, spec = self.next_loop_spec(s)
        it = self.expr(s.iter)
        if spec is not None:
            if not hasattr(it, "_pv_generic"):
                raise OutsideSubset(f"loop spec on non-generic iterable in {self.qual}")
            # at loop entry the ghost index is the start value; the spec's havoc makes it generic
            outer_index = self.ctx.ghost.get("loop_index")
            self.ctx.ghost["loop_index"] = getattr(it, "lo", 0)
            holder = {}

            def cond():
                holder["gen"] = it._pv_generic(self)  # (cond_fn, bind_fn) built after the havoc
                return holder["gen"][0]()
            def exit_bind():
                # after normal exhaustion of range(lo, hi) the target keeps the last value (unbound if no iteration ran)
                idx, lo = self.ctx.ghost.get("loop_index"), getattr(it, "lo", None)
                if isinstance(it, SymRange) and is_z3(idx) and self.ctx.branch(lift(idx) > lift(lo)):
                    self.assign(s.target, idx - 1)
            self.cut_loop(k, spec, s, cond, lambda: self.assign(s.target, holder["gen"][1]()), exit_bind)
            # leaving the loop (exit path or break): the enclosing loop's ghost index is current again
            self.ctx.ghost["loop_index"] = outer_index
            return
        items = self.iterate_concrete(it, what=f"for loop #{k} in {self.qual}")
        broke = False
        for x in items:
            self.assign(s.target, x)
            try:
                self.block(s.body)
            except BreakEx:
                broke = True
                break
            except ContinueEx:
                continue
        if not broke:
            self.block(s.orelse)

    def iterate_concrete(self, it, what="iteration"):
        if isinstance(it, (list, tuple, range, set, frozenset)):
            return list(it)
        if isinstance(it, dict):
            return list(it.keys())
        if isinstance(it, (type({}.items()), type({}.keys()), type({}.values()), zip, enumerate, reversed, map)):
            return list(it)
        if isinstance(it, Obj):
            if it.cls.fields is not None:
                return [it.attrs[f] for f in it.cls.fields]
            f, _ = it.cls.lookup("__iter__")
            if f is not None:
                r = self.call(Bound(f, it), [], {})
                return self.iterate_concrete(r, what)
            g, _ = it.cls.lookup("__getitem__")
            if g is None:
                # an instance of an interpreted class (incl. the builtin exception classes) without __iter__ / __getitem__: Python raises TypeError
                raise PyRaise(make_exc(self.interp, "TypeError", f"cannot unpack non-iterable {it.cls.name} object"))
        if it is None or isinstance(it, (bool, int, float)):
            raise PyRaise(make_exc(self.interp, "TypeError", f"cannot unpack non-iterable {type(it).__name__} object"))
        if hasattr(it, "_pv_iter"):
            return list(it._pv_iter(self))
        if hasattr(it, "__iter__") and not is_z3(it) and not isinstance(it, str):
            return list(it)
        if isinstance(it, str):
            return list(it)
        if isinstance(it, SymRange):
            # a loop over a symbolic range that has no contract (e.g. code moved into a new helper): explored for 0, 1 and 2 iterations only.  Violations found
            # on these paths are real (the iteration counts are feasible under the path condition); the loop is NOT proved -- an UNDECIDED obligation records that.
            lo, hi = lift(it.lo), lift(it.hi)
            k = self.ctx.choose(4, f"unrolled iterations of {what}")
            self.ctx.run.ob(f"{self.qual}/loop-without-contract-explored-by-bounded-unrolling", core.UNKNOWN, "pyvc",
                            detail=f"{what}: no loop contract (invariant) applies to this loop over a symbolic range; explored for up to 2 iterations only")
            if k == 3:
                raise Infeasible()  # longer runs: not explored
            n_it = hi - lo if not isinstance(hi - lo, int) else z3.IntVal(hi - lo)
            self.ctx.assume(z3.If(n_it < 0, 0, n_it) == k)
            return [lo + j for j in range(k)]
        raise OutsideSubset(f"{what}: cannot iterate {it!r} concretely")

    # ---- expressions -----------------------------------------------------------------
    def expr(self, e):
        m = getattr(self, "e_" + type(e).__name__, None)
        if m is None:
            raise OutsideSubset(f"expression {type(e).__name__} in {self.qual}")
        return m(e)

    def e_Constant(self, e):
        v = e.value
        if isinstance(v, float) and not self.interp.ieee and math.isfinite(v):
            return Fraction(v)  # floats are mathematical reals outside the IEEE mode (A1)
        return v

    def e_Name(self, e):
        return self.lookup(e.id)

    def e_Tuple(self, e):
        out = []
        for x in e.elts:
            if isinstance(x, ast.Starred):
                out.extend(self.iterate_concrete(self.expr(x.value)))
            else:
                out.append(self.expr(x))
        return tuple(out)

    def e_List(self, e):
        return list(self.e_Tuple(e))

    def e_Set(self, e):
        return set(self.e_Tuple(e))

    def e_Dict(self, e):
        d = {}
        for k, v in zip(e.keys, e.values):
            if k is None:
                d.update(self.expr(v))
            else:
                d[self.expr(k)] = self.expr(v)
        return d

    def e_JoinedStr(self, e):
        parts = []
        sym_parts = []
        for v in e.values:
            if isinstance(v, ast.Constant):
                parts.append(str(v.value))
            else:
                x = self.expr(v.value)  # evaluated faithfully: NameError etc. propagate
                if v.format_spec is not None:
                    self.expr(v.format_spec)
                if isinstance(x, (int, str)) and not isinstance(x, bool) and v.format_spec is None:
                    parts.append(str(x))
                else:
                    if x is None and v.format_spec is not None:
                        raise PyRaise(make_exc(self.interp, "TypeError", "unsupported format string passed to NoneType.__format__"))
                    parts.append("<?>")  # formatting itself is opaque
                    sym_parts.append(x)
        out = "".join(parts)
        if sym_parts:
            out = FStr(out)
            out.sym_parts = sym_parts  # the formatted (symbolic) values in order: two such strings are equal iff all of these are
        return out

    def e_Lambda(self, e):
        return Func(e, self.env, self.module, self.qual + ".<lambda>",
                    [self.expr(d) for d in e.args.defaults], {})

    def e_IfExp(self, e):
        return self.expr(e.body) if self.truth(self.expr(e.test)) else self.expr(e.orelse)

    def e_Starred(self, e):
        raise OutsideSubset("starred")

    def e_BoolOp(self, e):
        if isinstance(e.op, ast.And):
            v = True
            for x in e.values:
                v = self.expr(x)
                if not self.truth(v):
                    return v if not is_z3(v) else False
            return v if not is_z3(v) else True
        v = False
        for x in e.values:
            v = self.expr(x)
            if self.truth(v):
                return v if not is_z3(v) else True
        return v if not is_z3(v) else False

    def e_UnaryOp(self, e):
        v = self.expr(e.operand)
        if isinstance(e.op, ast.Not):
            return not self.truth(v)
        if isinstance(e.op, ast.USub):
            if isinstance(v, Obj):
                f, _ = v.cls.lookup("__neg__")
                if f is None:
                    raise PyRaise(make_exc(self.interp, "TypeError", "bad operand for unary -"))
                return self.call(Bound(f, v), [], {})
            if isinstance(v, bool) or is_sym_bool(v):
                v = self.as_num(v)
            return -v
        if isinstance(e.op, ast.UAdd):
            return v
        raise OutsideSubset("unary op")

    def as_num(self, v):
        if isinstance(v, bool):
            return int(v)
        if is_sym_bool(v):
            return z3.If(v, z3.IntVal(1), z3.IntVal(0))
        return v

    def e_BinOp(self, e):
        return self.binop(type(e.op), self.expr(e.left), self.expr(e.right))

    def binop(self, op, a, b):
        names = BINOPS.get(op)
        if names is None:
            raise OutsideSubset(f"binop {op.__name__}")
        fwd, rev, pyop = names
        if isinstance(a, Obj):
            f, _ = a.cls.lookup(fwd)
            if f is not None:
                r = self.call(Bound(f, a), [b], {})
                if r is not NotImplemented:
                    return r
        if isinstance(b, Obj):
            f, _ = b.cls.lookup(rev)
            if f is not None:
                r = self.call(Bound(f, b), [a], {})
                if r is not NotImplemented:
                    return r
        if isinstance(a, Obj) or isinstance(b, Obj):
            raise PyRaise(make_exc(self.interp, "TypeError", f"unsupported operand types for {op.__name__}"))
        if hasattr(a, "_pv_binop"):
            r = a._pv_binop(self, fwd, b)
            if r is not NotImplemented:
                return r
        if hasattr(b, "_pv_binop"):
            r = b._pv_binop(self, rev, a)
            if r is not NotImplemented:
                return r
        return self.num_binop(op, pyop, a, b)

    def num_binop(self, op, pyop, a, b):
        a, b = self.as_num(a), self.as_num(b)
        za, zb = is_z3(a), is_z3(b)
        if not za and not zb:
            try:
                if a is None or b is None:
                    raise TypeError("NoneType operand")
                if op is ast.Pow and isinstance(b, Fraction) and b.denominator != 1 and isinstance(a, (int, Fraction)):
                    return self.sym_pow(a, float(b) if b == Fraction(1, 2) else b)
                return pyop(a, b)
            except TypeError as ex:
                raise PyRaise(make_exc(self.interp, "TypeError", str(ex)))
            except ZeroDivisionError as ex:
                raise PyRaise(make_exc(self.interp, "ZeroDivisionError", str(ex)))
            except OverflowError as ex:
                raise PyRaise(make_exc(self.interp, "OverflowError", str(ex)))
        # at least one symbolic
        for x in (a, b):
            if not is_z3(x) and not isinstance(x, (int, float, Fraction)):
                raise PyRaise(make_exc(self.interp, "TypeError", f"unsupported operand {type(x).__name__}"))
        if is_special_float(a) or is_special_float(b):
            return self.special_arith(op, a, b)
        isint = all((is_z3(x) and x.sort() == z3.IntSort()) or (isinstance(x, int)) for x in (a, b))
        if op is ast.Div:
            a, b = to_real(a), to_real(b)
            self.div_guard(b)
            return self.fl(a / b)
        if op is ast.FloorDiv:
            if not isint:
                raise OutsideSubset("float floordiv")
            self.div_guard(lift(b))
            return lift(a) / lift(b)
        if op is ast.Mod:
            if not isint:
                raise OutsideSubset("float mod")
            self.div_guard(lift(b))
            return lift(a) % lift(b)
        if op is ast.Pow:
            return self.sym_pow(a, b)
        if isint:
            return pyop(lift(a), lift(b))
        r = pyop(to_real(a), to_real(b))
        return self.fl(r) if op in (ast.Add, ast.Sub, ast.Mult) else r

    def special_arith(self, op, a, b):
        # exactly one side is +-inf / nan, the other is a finite symbolic real
        s = a if is_special_float(a) else b
        if math.isnan(s):
            return float("nan")
        if op in (ast.Add,):
            return s
        if op is ast.Sub:
            return s if s is a else -s
        raise OutsideSubset("inf arithmetic other than +/-")

    def div_guard(self, b):
        """Division by a possibly-zero symbolic divisor forks into ZeroDivisionError."""
        if is_z3(b):
            if self.ctx.branch(b == 0):
                raise PyRaise(make_exc(self.interp, "ZeroDivisionError", "division by zero"))

    def fl(self, r):
        """Rounding model hook (identity unless the interpreter runs with ieee=True)."""
        if not self.interp.ieee or not is_z3(r):
            return r
        return self.interp.ieee_round(self, r)

    def sym_pow(self, a, b):
        if isinstance(b, int) and not isinstance(b, bool) and 0 <= b <= 4:
            r = lift(a) if b else 1
            out = 1
            for _ in range(b):
                out = out * lift(a)
            return out
        if isinstance(b, (float, Fraction)) and b == 0.5:
            return self.interp.math_fn(self, "sqrt", to_real(a))
        if isinstance(b, int) and b < 0:
            base = self.sym_pow(a, -b)
            self.div_guard(base)
            return 1 / to_real(base)
        return self.interp.math_fn(self, "pow", to_real(a), to_real(b))

    def e_Compare(self, e):
        left = self.expr(e.left)
        result = True
        for op, rn in zip(e.ops, e.comparators):
            right = self.expr(rn)
            r = self.compare(type(op), left, right)
            if len(e.ops) == 1:
                return r
            if not self.truth(r):
                return False
            left = right
        return result

    def compare(self, op, a, b):
        if isinstance(a, CarriedUnknown) or isinstance(b, CarriedUnknown):
            u = a if isinstance(a, CarriedUnknown) else b
            if op in (ast.Is, ast.IsNot, ast.Eq, ast.NotEq):
                # a loop-carried variable the loop contract says nothing about: it may or may not be (equal to) the other operand
                return bool(self.ctx.choose(2, f"{u.name} {op.__name__} <other>"))
            raise OutsideSubset(f"loop-carried variable `{u.name}` is not described by the loop contract")
        if op is ast.Is:
            return self.identical(a, b)
        if op is ast.IsNot:
            return not self.identical(a, b)
        if op is ast.In:
            return self.contains(b, a)
        if op is ast.NotIn:
            return not self.truth(self.contains(b, a))
        fwd, rev, pyop = CMPOPS[op]
        if isinstance(a, Obj):
            f, _ = a.cls.lookup(fwd)
            if f is not None:
                r = self.call(Bound(f, a), [b], {})
                if r is not NotImplemented:
                    return r
            if a.cls.fields is not None and op in (ast.Eq, ast.NotEq):
                eq = isinstance(b, Obj) and b.cls is a.cls and all(
                    self.truth(self.compare(ast.Eq, a.attrs[f], b.attrs[f])) for f in a.cls.fields)
                return eq if op is ast.Eq else not eq
        if isinstance(b, Obj):
            f, _ = b.cls.lookup(rev)
            if f is not None:
                r = self.call(Bound(f, b), [a], {})
                if r is not NotImplemented:
                    return r
        if isinstance(a, Obj) or isinstance(b, Obj):
            if op is ast.Eq:
                return a is b
            if op is ast.NotEq:
                return a is not b
            raise PyRaise(make_exc(self.interp, "TypeError", "unorderable types"))
        if hasattr(a, "_pv_compare"):
            r = a._pv_compare(self, fwd, b)
            if r is not NotImplemented:
                return r
        if hasattr(b, "_pv_compare"):
            r = b._pv_compare(self, rev, a)
            if r is not NotImplemented:
                return r
        a, b = self.as_num(a), self.as_num(b)
        if is_z3(a) or is_z3(b):
            other = b if is_z3(a) else a
            if other is None or isinstance(other, (str, tuple, list, dict)):
                if op is ast.Eq:
                    return False
                if op is ast.NotEq:
                    return True
                raise PyRaise(make_exc(self.interp, "TypeError", f"'{op.__name__}' not supported with {type(other).__name__}"))
            if is_special_float(other):
                return self.special_compare(pyop, a, b)
            if not is_z3(other) and not isinstance(other, (int, float, Fraction)):
                raise OutsideSubset(f"compare symbolic with {other!r}")
            la, lb = lift(a), lift(b)
            if la.sort() != lb.sort():
                la, lb = to_real(la), to_real(lb)
            return pyop(la, lb)
        try:
            return pyop(a, b)
        except TypeError as ex:
            raise PyRaise(make_exc(self.interp, "TypeError", str(ex)))

    def special_compare(self, pyop, a, b):
        # finite symbolic vs inf/nan constant: decide concretely with a finite stand-in
        fa = 0.0 if is_z3(a) else a
        fb = 0.0 if is_z3(b) else b
        return pyop(fa, fb)

    def identical(self, a, b):
        if a is None or b is None:
            return a is b
        if isinstance(a, (bool,)) and isinstance(b, (bool,)):
            return a is b
        if is_z3(a) or is_z3(b):
            if is_z3(a) and is_z3(b):
                return a.eq(b)
            return False
        return a is b

    def contains(self, container, item):
        if isinstance(container, Obj):
            f, _ = container.cls.lookup("__contains__")
            if f is not None:
                return self.call(Bound(f, container), [item], {})
            if container.cls.fields is not None:
                return any(self.truth(self.compare(ast.Eq, container.attrs[f], item)) for f in container.cls.fields)
            raise PyRaise(make_exc(self.interp, "TypeError", "argument is not iterable"))
        if hasattr(container, "_pv_contains"):
            return container._pv_contains(self, item)
        if isinstance(container, (list, tuple)) and (is_z3(item) or any(is_z3(x) for x in container)):
            for x in container:
                if self.truth(self.compare(ast.Eq, x, item)):
                    return True
            return False
        try:
            return item in container
        except TypeError as ex:
            raise PyRaise(make_exc(self.interp, "TypeError", str(ex)))

    def truth(self, v):
        if isinstance(v, bool):
            return v
        if isinstance(v, CarriedUnknown):
            return bool(self.ctx.choose(2, f"truth of {v.name}"))
        if is_sym_bool(v):
            return self.ctx.branch(v)
        if is_z3(v):
            return self.ctx.branch(v != 0)
        if v is None:
            return False
        if isinstance(v, Obj):
            f, _ = v.cls.lookup("__bool__")
            if f is not None:
                return self.truth(self.call(Bound(f, v), [], {}))
            f, _ = v.cls.lookup("__len__")
            if f is not None:
                return self.truth(self.compare(ast.NotEq, self.call(Bound(f, v), [], {}), 0))
            return True
        if hasattr(v, "_pv_truth"):
            return v._pv_truth(self)
        if isinstance(v, float) and math.isnan(v):
            return True
        return bool(v)

    def e_Attribute(self, e):
        return self.getattr(self.expr(e.value), e.attr)

    def getattr(self, obj, name):
        if isinstance(obj, Obj):
            if name in obj.attrs:
                return obj.attrs[name]
            if name == "__dict__":
                return obj.attrs
            if name == "__class__":
                return obj.cls
            v, owner = obj.cls.lookup(name)
            if v is None and owner is None:
                ga, _ = obj.cls.lookup("__getattr__")
                if ga is not None:
                    return self.call(Bound(ga, obj), [name], {})
                if name == "__class__":
                    return obj.cls
                if name == "__dict__":
                    return obj.attrs
                if name == "args" and obj.cls.issub(self.interp.builtins["BaseException"]):
                    return ()
                raise PyRaise(make_exc(self.interp, "AttributeError", f"{obj.cls.name} has no attribute {name}"))
            if isinstance(v, Func):
                return Bound(v, obj)
            if isinstance(v, Prop):
                return self.call(Bound(v.fget, obj), [], {})
            if isinstance(v, Native) and getattr(v, "is_method", False):
                return Bound(v, obj)
            return v
        if isinstance(obj, Cls):
            if name in ("__name__", "__qualname__"):
                return obj.name
            if name == "__module__":
                return getattr(obj.module, "name", None) or str(obj.module or "harness")
            v, _ = obj.lookup(name)
            if v is None:
                raise PyRaise(make_exc(self.interp, "AttributeError", f"class {obj.name} has no attribute {name}"))
            return v
        if isinstance(obj, Func) and name == "__name__":
            return obj.node.name if hasattr(obj.node, "name") else "<lambda>"
        if isinstance(obj, Native) and name == "__name__":
            return obj.name
        if hasattr(obj, "_pv_getattr"):
            return obj._pv_getattr(self, name)
        if isinstance(obj, (list, dict, set, tuple, str)):
            return NativeMethod(obj, name)
        if obj is None:
            raise PyRaise(make_exc(self.interp, "AttributeError", f"'NoneType' object has no attribute '{name}'"))
        if isinstance(obj, Namespace) and not hasattr(obj, name):
            # a module stand-in without a contract for this member: the real module may well have it -> undecided, never an AttributeError of the program
            raise OutsideSubset(f"no stub for {obj._name}.{name}")
        try:
            return getattr(obj, name)
        except AttributeError:
            raise PyRaise(make_exc(self.interp, "AttributeError", f"{type(obj).__name__} has no attribute {name}"))

    def hasattr(self, obj, name):
        self._probing_hasattr = getattr(self, "_probing_hasattr", 0) + 1
        try:
            self.getattr(obj, name)
            return True
        except PyRaise as pr:
            if pr.exc.cls.issub(self.interp.builtins["AttributeError"]):
                return False
            raise
        finally:
            self._probing_hasattr -= 1

    def setattr(self, obj, name, v):
        if isinstance(obj, Obj):
            sa, _ = obj.cls.lookup("__setattr__")
            if sa is not None:
                return self.call(Bound(sa, obj), [name, v], {})
            p, _ = obj.cls.lookup(name)
            if isinstance(p, Prop):
                if p.fset is None:
                    raise PyRaise(make_exc(self.interp, "AttributeError", "can't set attribute"))
                return self.call(Bound(p.fset, obj), [v], {})
            if obj.cls.fields is not None:
                raise PyRaise(make_exc(self.interp, "AttributeError", "can't set attribute"))
            obj.attrs[name] = v
            return
        if hasattr(obj, "_pv_setattr"):
            return obj._pv_setattr(self, name, v)
        if isinstance(obj, Namespace):
            setattr(obj, name, v)
            return
        raise OutsideSubset(f"setattr on {obj!r}.{name}")

    def e_Subscript(self, e):
        return self.getitem(self.expr(e.value), self.expr(e.slice))

    def e_Slice(self, e):
        return slice(self.expr(e.lower) if e.lower else None, self.expr(e.upper) if e.upper else None,
                     self.expr(e.step) if e.step else None)

    def getitem(self, obj, key):
        if isinstance(obj, Obj):
            if obj.cls.fields is not None and isinstance(key, int):
                return obj.attrs[obj.cls.fields[key]]
            f, _ = obj.cls.lookup("__getitem__")
            if f is not None:
                return self.call(Bound(f, obj), [key], {})
            raise PyRaise(make_exc(self.interp, "TypeError", "not subscriptable"))
        if hasattr(obj, "_pv_getitem"):
            return obj._pv_getitem(self, key)
        try:
            return obj[key]
        except KeyError:
            raise PyRaise(make_exc(self.interp, "KeyError", repr(key)))
        except IndexError:
            raise PyRaise(make_exc(self.interp, "IndexError", repr(key)))
        except TypeError as ex:
            raise PyRaise(make_exc(self.interp, "TypeError", str(ex)))

    def setitem(self, obj, key, v):
        if isinstance(obj, Obj):
            f, _ = obj.cls.lookup("__setitem__")
            if f is not None:
                return self.call(Bound(f, obj), [key, v], {})
            raise PyRaise(make_exc(self.interp, "TypeError", "no item assignment"))
        if hasattr(obj, "_pv_setitem"):
            return obj._pv_setitem(self, key, v)
        try:
            obj[key] = v
        except (TypeError, IndexError) as ex:
            raise PyRaise(make_exc(self.interp, type(ex).__name__, str(ex)))

    # comprehensions -----------------------------------------------------------------
    def comp(self, generators, emit):
        def rec(i, env):
            if i == len(generators):
                sub = Exec(self.interp, self.ctx, self.module, env, self.qual, depth=self.depth)
                emit(sub)
                return
            g = generators[i]
            sub = Exec(self.interp, self.ctx, self.module, env, self.qual, depth=self.depth)
            for x in sub.iterate_concrete(sub.expr(g.iter), what=f"comprehension in {self.qual}"):
                e2 = Env(env, {})
                s2 = Exec(self.interp, self.ctx, self.module, e2, self.qual, depth=self.depth)
                s2.assign(g.target, x)
                if all(s2.truth(s2.expr(c)) for c in g.ifs):
                    rec(i + 1, e2)
        rec(0, self.env)

    def e_ListComp(self, e):
        out = []
        self.comp(e.generators, lambda sub: out.append(sub.expr(e.elt)))
        return out

    e_GeneratorExp = e_ListComp

    def e_SetComp(self, e):
        out = set()
        self.comp(e.generators, lambda sub: out.add(sub.expr(e.elt)))
        return out

    def e_DictComp(self, e):
        out = {}

        def emit(sub):
            k = sub.expr(e.key)
            out[k] = sub.expr(e.value)
        self.comp(e.generators, emit)
        return out

    # calls ----------------------------------------------------------------------------
    def e_Call(self, e):
        # super() support
        if isinstance(e.func, ast.Attribute) and isinstance(e.func.value, ast.Call) and \
                isinstance(e.func.value.func, ast.Name) and e.func.value.func.id == "super":
            selfobj = self.env.lookup(self.func.node.args.args[0].arg)
            mro = selfobj.cls.mro
            start = mro.index(self.func.owner) + 1
            target = None
            for c in mro[start:]:
                if e.func.attr in c.ns:
                    target = c.ns[e.func.attr]
                    break
            args, kwargs = self.eval_args(e)
            if target is None:
                if e.func.attr in ("__init__",):
                    return None
                if e.func.attr == "__setattr__":
                    selfobj.attrs[args[0]] = args[1]
                    return None
                raise OutsideSubset(f"super().{e.func.attr} not found")
            return self.call(Bound(target, selfobj), args, kwargs)
        f = self.expr(e.func)
        args, kwargs = self.eval_args(e)
        return self.call(f, args, kwargs)

    def eval_args(self, e):
        args = []
        for a in e.args:
            if isinstance(a, ast.Starred):
                args.extend(self.iterate_concrete(self.expr(a.value)))
            else:
                args.append(self.expr(a))
        kwargs = {}
        for k in e.keywords:
            if k.arg is None:
                d = self.expr(k.value)
                if not isinstance(d, dict):
                    d = dict(self.iterate_concrete_items(d))
                kwargs.update(d)
            else:
                kwargs[k.arg] = self.expr(k.value)
        return args, kwargs

    def iterate_concrete_items(self, d):
        if hasattr(d, "_pv_items"):
            return d._pv_items(self)
        raise OutsideSubset("** of non-dict")

    def call(self, f, args, kwargs):
        hook = self.interp.call_hook
        if hook is not None:
            hook(self, f, args, kwargs)
        if isinstance(f, Bound):
            return self.call_inner(f.func, [f.self_obj] + list(args), kwargs)
        return self.call_inner(f, list(args), kwargs)

    def call_inner(self, f, args, kwargs):
        if isinstance(f, Func):
            c = self.interp.call_contracts.get(f.qualname)
            if c is not None and not (self.func is not None and False):
                try:
                    import inspect
                    inspect.signature(c.fn).bind(self, *args, **kwargs)
                except TypeError as e:
                    # the call site no longer matches the signature the sidecar contract was written for: undecided, never a crash
                    raise OutsideSubset(f"call of {f.qualname} does not match its sidecar contract's signature ({e})")
                return c.fn(self, *args, **kwargs)
            return self.invoke(f, args, kwargs)
        if isinstance(f, Native):
            return f.fn(self, *args, **kwargs)
        if isinstance(f, Cls):
            return self.instantiate(f, args, kwargs)
        if isinstance(f, NativeMethod):
            return f(self, *args, **kwargs)
        if isinstance(f, Obj):
            c, _ = f.cls.lookup("__call__")
            if c is not None:
                return self.call_inner(c, [f] + args, kwargs)
            raise PyRaise(make_exc(self.interp, "TypeError", "object not callable"))
        if hasattr(f, "_pv_call"):
            return f._pv_call(self, *args, **kwargs)
        if f is None:
            raise PyRaise(make_exc(self.interp, "TypeError", "'NoneType' object is not callable"))
        owner = getattr(f, "__self__", None)
        if owner is not None and (is_z3(owner) or isinstance(owner, (int, float))) and f.__name__.startswith("__"):
            # dunder method of a plain number, e.g. (-x).__radd__(y)
            return self.binop({"__radd__": ast.Add, "__add__": ast.Add, "__rsub__": ast.Sub, "__rmul__": ast.Mult,
                               "__mul__": ast.Mult}[f.__name__], *((args[0], owner) if f.__name__.startswith("__r") else (owner, args[0])))
        raise OutsideSubset(f"call of {f!r} in {self.qual}")

    def instantiate(self, cls, args, kwargs):
        if cls.fields is not None and cls.lookup("__init__")[0] is None:
            attrs = {}
            defaults = cls.ns
            for i, fn in enumerate(cls.fields):
                if i < len(args):
                    attrs[fn] = args[i]
                elif fn in kwargs:
                    attrs[fn] = kwargs[fn]
                elif fn in defaults:
                    attrs[fn] = defaults[fn]
                else:
                    raise PyRaise(make_exc(self.interp, "TypeError", f"missing field {fn}"))
            return Obj(cls, attrs)
        o = Obj(cls, {})
        init, owner = cls.lookup("__init__")
        if init is not None:
            self.call_inner(init, [o] + list(args), kwargs)
        elif cls.issub(self.interp.builtins["BaseException"]):
            o.attrs["args"] = tuple(args)
        elif args or kwargs:
            raise PyRaise(make_exc(self.interp, "TypeError", f"{cls.name}() takes no arguments"))
        return o

    def invoke(self, f, args, kwargs):
        if self.depth > self.interp.depth_limit:
            raise OutsideSubset(f"call depth limit in {f.qualname}")
        node = f.node
        a = node.args
        env = Env(f.env, {})
        params = [p.arg for p in a.posonlyargs + a.args]
        nd = len(f.defaults)
        args = list(args)
        kwargs = dict(kwargs)
        if len(args) > len(params) and a.vararg is None:
            raise PyRaise(make_exc(self.interp, "TypeError", f"{f.qualname}() too many positional arguments"))
        for i, p in enumerate(params):
            if i < len(args):
                if p in kwargs:
                    raise PyRaise(make_exc(self.interp, "TypeError", f"multiple values for {p}"))
                env.vars[p] = args[i]
            elif p in kwargs:
                env.vars[p] = kwargs.pop(p)
            elif i >= len(params) - nd:
                env.vars[p] = f.defaults[i - (len(params) - nd)]
            else:
                raise PyRaise(make_exc(self.interp, "TypeError", f"{f.qualname}() missing argument {p}"))
        if a.vararg is not None:
            env.vars[a.vararg.arg] = tuple(args[len(params):])
        for p in a.kwonlyargs:
            if p.arg in kwargs:
                env.vars[p.arg] = kwargs.pop(p.arg)
            elif p.arg in f.kw_defaults:
                env.vars[p.arg] = f.kw_defaults[p.arg]
            else:
                raise PyRaise(make_exc(self.interp, "TypeError", f"missing keyword-only argument {p.arg}"))
        if a.kwarg is not None:
            env.vars[a.kwarg.arg] = kwargs
        elif kwargs:
            raise PyRaise(make_exc(self.interp, "TypeError", f"{f.qualname}() unexpected keyword {sorted(kwargs)}"))
        sub = Exec(self.interp, self.ctx, f.module, env, f.qualname, func=f, depth=self.depth + 1)
        if isinstance(node, ast.Lambda):
            return sub.expr(node.body)
        is_gen = getattr(node, "_vf_is_generator", None)
        if is_gen is None:  # decided once per function definition
            is_gen = node._vf_is_generator = any(isinstance(n, (ast.Yield, ast.YieldFrom)) for n in ast.walk(node))
        if is_gen:
            raise OutsideSubset(f"generator function {f.qualname}")
        try:
            sub.block(node.body)
        except ReturnEx as r:
            return r.value
        return None


_LOCALS_CACHE = {}
_LOOPS_CACHE = {}


def _loop_ordinals(fnode):
    k = id(fnode)
    if k not in _LOOPS_CACHE:
        loops = []

        def visit(n):
            for c in ast.iter_child_nodes(n):
                if isinstance(c, (ast.FunctionDef, ast.Lambda, ast.ClassDef)):
                    continue
                if isinstance(c, (ast.For, ast.While)):
                    loops.append(c)
                visit(c)
        visit(fnode)
        loops.sort(key=lambda n: (n.lineno, n.col_offset))
        _LOOPS_CACHE[k] = {id(n): i for i, n in enumerate(loops)}
    return _LOOPS_CACHE[k]


def _local_names(node):
    k = id(node)
    if k not in _LOCALS_CACHE:
        names = set()
        for n in ast.walk(node):
            if isinstance(n, ast.Name) and isinstance(n.ctx, ast.Store):
                names.add(n.id)
            elif isinstance(n, ast.ExceptHandler) and n.name:
                names.add(n.name)
        _LOCALS_CACHE[k] = names
    return _LOCALS_CACHE[k]


class NativeMethod:
    """Method of a native python container (list.append, dict.items, ...)."""

    def __init__(self, obj, name):
        self.obj = obj
        self.name = name

    def __call__(self, ex, *args, **kwargs):
        if self.name == "pop" and isinstance(self.obj, dict):
            if args[0] not in self.obj:
                if len(args) > 1:
                    return args[1]
                raise PyRaise(make_exc(ex.interp, "KeyError", repr(args[0])))
        if self.name == "get" and isinstance(self.obj, dict):
            return self.obj.get(*args)
        if self.name == "join":
            return self.obj.join(str(x) for x in ex.iterate_concrete(args[0]))
        try:
            return getattr(self.obj, self.name)(*args, **kwargs)
        except AttributeError:
            raise PyRaise(make_exc(ex.interp, "AttributeError", self.name))
        except (KeyError, IndexError, TypeError, ValueError) as e:
            raise PyRaise(make_exc(ex.interp, type(e).__name__, str(e)))


# ----------------------------------------------------------------------------------
# builtin functions (Native)


def _b_isinstance(ex, obj, spec):
    if isinstance(spec, tuple):
        return any(_b_isinstance(ex, obj, s) for s in spec)
    if isinstance(spec, UnionSpec):
        return any(_b_isinstance(ex, obj, s) for s in spec.items)
    if isinstance(spec, Cls):
        if isinstance(obj, Obj):
            return obj.cls.issub(spec)
        if hasattr(obj, "_pv_isinstance"):
            return obj._pv_isinstance(ex, spec)
        return False
    if isinstance(spec, TypeTag):
        return spec.check(obj)
    if hasattr(spec, "_pv_instancecheck"):
        return spec._pv_instancecheck(ex, obj)
    raise OutsideSubset(f"isinstance spec {spec!r}")


class UnionSpec:
    def __init__(self, items):
        self.items = items


class TypeTag:
    def __init__(self, name, check, conv=None):
        self.name = name
        self.check = check
        self.conv = conv

    def _pv_call(self, ex, *args, **kwargs):
        if self.conv is None:
            raise OutsideSubset(f"construction of a {self.name} object is not modelled")
        return self.conv(ex, *args, **kwargs)

    def _pv_binop(self, ex, op, other):
        if op in ("__or__", "__ror__"):
            mine = [self]
            oth = other.items if isinstance(other, UnionSpec) else [other]
            return UnionSpec(mine + list(oth))
        return NotImplemented

    def _pv_getattr(self, ex, name):
        if self.name == "dict" and name == "fromkeys":
            # dict.fromkeys(iterable, value=None): every key maps to the SAME value object
            def fromkeys(ex2, keys, value=None):
                return {k: value for k in ex2.iterate_concrete(keys)}
            return Native(fromkeys, "dict.fromkeys")
        if name in ("__name__", "__qualname__"):
            return self.name
        # a member of a builtin type this interpreter has no model of: undecided, never an AttributeError of the program
        raise OutsideSubset(f"no stub for {self.name}.{name}")

    def __repr__(self):
        return f"<type {self.name}>"


def _cls_or(self, ex, op, other):
    return NotImplemented


def _b_next(ex, itr, *default):
    import itertools as _it
    if isinstance(itr, _it.count) or hasattr(itr, "__next__"):
        try:
            return next(itr)
        except StopIteration:
            if default:
                return default[0]
            raise PyRaise(make_exc(ex.interp, "StopIteration", ""))
    raise OutsideSubset(f"next() of {type(itr).__name__}")


def _b_int(ex, x=0):
    if is_z3(x):
        if x.sort() == z3.IntSort():
            return x
        if is_sym_bool(x):
            return ex.as_num(x)
        # truncation toward zero
        return z3.If(x >= 0, z3.ToInt(x), -z3.ToInt(-x))
    if x is None:
        raise PyRaise(make_exc(ex.interp, "TypeError", "int() argument must be a number, not 'NoneType'"))
    try:
        return int(x)
    except (TypeError, ValueError, OverflowError) as e:
        raise PyRaise(make_exc(ex.interp, type(e).__name__, str(e)))


def _b_float(ex, x=0.0):
    if is_z3(x):
        return to_real(ex.as_num(x))
    try:
        return float(x)
    except (TypeError, ValueError) as e:
        raise PyRaise(make_exc(ex.interp, type(e).__name__, str(e)))


def _b_abs(ex, x):
    if isinstance(x, Obj):
        f, _ = x.cls.lookup("__abs__")
        return ex.call(Bound(f, x), [], {})
    if hasattr(x, "_pv_abs"):
        return x._pv_abs(ex)
    if is_z3(x):
        return z3.If(x >= 0, x, -x)
    try:
        return abs(x)
    except TypeError as e:
        raise PyRaise(make_exc(ex.interp, "TypeError", str(e)))


def _b_minmax(is_min):
    def f(ex, *args, **kw):
        items = list(args) if len(args) > 1 else ex.iterate_concrete(args[0])
        if not items:
            raise PyRaise(make_exc(ex.interp, "ValueError", "empty sequence"))
        best = items[0]
        for x in items[1:]:
            c = ex.compare(ast.Lt if is_min else ast.Gt, x, best)
            if ex.truth(c):
                best = x
        return best
    return f


def _b_sum(ex, it, start=0):
    acc = start
    for x in ex.iterate_concrete(it):
        acc = ex.binop(ast.Add, acc, x)
    return acc


def _b_len(ex, x):
    if isinstance(x, Obj):
        if x.cls.fields is not None:
            return len(x.cls.fields)
        f, _ = x.cls.lookup("__len__")
        if f is None:
            raise PyRaise(make_exc(ex.interp, "TypeError", "object has no len()"))
        return ex.call(Bound(f, x), [], {})
    if hasattr(x, "_pv_len"):
        return x._pv_len(ex)
    try:
        return len(x)
    except TypeError as e:
        raise PyRaise(make_exc(ex.interp, "TypeError", str(e)))


def _b_range(ex, *args):
    if any(is_z3(a) for a in args):
        return SymRange(ex, *args)
    try:
        return range(*args)
    except TypeError as e:
        raise PyRaise(make_exc(ex.interp, "TypeError", str(e)))


class SymRange:
    """range(n) with symbolic bound: only iterable through a LoopSpec (generic index)."""

    def __init__(self, ex, *args):
        if len(args) == 1:
            self.lo, self.hi = 0, args[0]
        elif len(args) == 2:
            self.lo, self.hi = args
        else:
            raise OutsideSubset("symbolic range with step")
        self.index = None

    def _pv_generic(self, ex):
        # the LoopSpec.havoc is expected to set ex.ctx.ghost['loop_index'] (a z3 Int) or we make one
        idx = ex.ctx.ghost.get("loop_index")
        if idx is None or not is_z3(idx):
            idx = ex.ctx.fresh("loop_i", "int")
            ex.ctx.ghost["loop_index"] = idx
        self.index = idx
        lo, hi = lift(self.lo), lift(self.hi)

        def cond():
            # "another iteration happens": index in range
            return ex.ctx.branch(z3.And(idx >= lo, idx < hi))

        def bind():
            return idx
        return cond, bind

    def _pv_len(self, ex):
        n = lift(self.hi) - lift(self.lo)
        return z3.If(n >= 0, n, 0)


def _b_enumerate(ex, it, start=0):
    if hasattr(it, "_pv_enumerate"):
        return it._pv_enumerate(ex, start)
    return list(enumerate(ex.iterate_concrete(it), start))


def _b_zip(ex, *its, strict=False):
    lists = [ex.iterate_concrete(i) for i in its]
    if strict and len({len(l) for l in lists}) > 1:
        raise PyRaise(make_exc(ex.interp, "ValueError", "zip() arguments have different lengths"))
    return list(zip(*lists))


def _b_reversed(ex, it):
    return list(reversed(ex.iterate_concrete(it)))


def _b_sorted(ex, it, key=None, reverse=False):
    items = ex.iterate_concrete(it)
    if any(is_z3(x) for x in items):
        raise OutsideSubset("sorted over symbolic values")
    try:
        return sorted(items, reverse=reverse) if key is None else sorted(items, key=lambda x: ex.call(key, [x], {}), reverse=reverse)
    except TypeError as e:
        raise PyRaise(make_exc(ex.interp, "TypeError", str(e)))


def _b_any(ex, it):
    for x in ex.iterate_concrete(it):
        if ex.truth(x):
            return True
    return False


def _b_all(ex, it):
    for x in ex.iterate_concrete(it):
        if not ex.truth(x):
            return False
    return True


def _b_type(ex, x):
    if isinstance(x, Obj):
        return x.cls
    if hasattr(x, "_pv_type"):
        return x._pv_type(ex)
    return TypeTag(type(x).__name__, lambda o: isinstance(o, type(x)))


def _b_callable(ex, x):
    if isinstance(x, (Func, Bound, Native, Cls, NativeMethod)):
        return True
    if isinstance(x, Obj):
        return x.cls.lookup("__call__")[0] is not None
    if hasattr(x, "_pv_call"):
        return True
    return False


def _b_tuple(ex, it=()):
    return tuple(ex.iterate_concrete(it))


def _b_list(ex, it=()):
    return list(ex.iterate_concrete(it))


def _b_dict(ex, *args, **kw):
    d = {}
    if args:
        src = args[0]
        if isinstance(src, dict):
            d.update(src)
        else:
            for k, v in ex.iterate_concrete(src):
                d[k] = v
    d.update(kw)
    return d


def _b_set(ex, it=()):
    return set(ex.iterate_concrete(it))


def _b_str(ex, x=""):
    if is_z3(x) or isinstance(x, Obj):
        return "<?>"
    return str(x)


def _b_hasattr(ex, o, n):
    return ex.hasattr(o, n)


def _b_getattr(ex, o, n, *d):
    if d:
        ex._probing_hasattr = getattr(ex, "_probing_hasattr", 0) + 1  # getattr with a default probes like hasattr
    try:
        return ex.getattr(o, n)
    except PyRaise as pr:
        if d and pr.exc.cls.issub(ex.interp.builtins["AttributeError"]):
            return d[0]
        raise
    finally:
        if d:
            ex._probing_hasattr -= 1


def _b_id(ex, o):
    return ("id", id(o))


def _b_bool(ex, x=False):
    return ex.truth(x)


def _b_round(ex, x, n=None):
    raise OutsideSubset("round")


def _b_print(ex, *a, **k):
    return None


def _b_iter(ex, x):
    return ex.iterate_concrete(x)


def _b_isinstance_wrap(ex, o, s):
    return _b_isinstance(ex, o, s)


def _is_intlike(o):
    return (isinstance(o, int) and not isinstance(o, bool)) or (is_z3(o) and o.sort() == z3.IntSort()) or isinstance(o, bool)


BUILTIN_FUNCS = {
    "isinstance": Native(_b_isinstance_wrap, "isinstance"),
    "int": TypeTag("int", _is_intlike, _b_int),
    "float": TypeTag("float", lambda o: isinstance(o, (float, Fraction)) or (is_z3(o) and o.sort() == z3.RealSort()), _b_float),
    "bool": TypeTag("bool", lambda o: isinstance(o, bool) or is_sym_bool(o), _b_bool),
    "str": TypeTag("str", lambda o: isinstance(o, str), _b_str),
    "dict": TypeTag("dict", lambda o: isinstance(o, dict), _b_dict),
    "tuple": TypeTag("tuple", lambda o: isinstance(o, tuple) or (isinstance(o, Obj) and o.cls.fields is not None), _b_tuple),
    "list": TypeTag("list", lambda o: isinstance(o, list), _b_list),
    "set": TypeTag("set", lambda o: isinstance(o, set), _b_set),
    "abs": Native(_b_abs, "abs"), "min": Native(_b_minmax(True), "min"), "max": Native(_b_minmax(False), "max"),
    "sum": Native(_b_sum, "sum"), "len": Native(_b_len, "len"), "range": Native(_b_range, "range"),
    "enumerate": Native(_b_enumerate, "enumerate"), "zip": Native(_b_zip, "zip"),
    "reversed": Native(_b_reversed, "reversed"), "sorted": Native(_b_sorted, "sorted"),
    "any": Native(_b_any, "any"), "all": Native(_b_all, "all"), "type": Native(_b_type, "type"),
    "callable": Native(_b_callable, "callable"), "hasattr": Native(_b_hasattr, "hasattr"),
    "getattr": Native(_b_getattr, "getattr"), "id": Native(_b_id, "id"), "print": Native(_b_print, "print"),
    "iter": Native(_b_iter, "iter"), "next": Native(lambda ex, itr, *d: _b_next(ex, itr, *d), "next"), "NotImplemented": NotImplemented,
}


# ----------------------------------------------------------------------------------
# helpers for harnesses


def run_function(interp, ctx, module_name, qualname, args=(), kwargs=None, self_obj=None):
    """Execute module.qualname (function or Class.method) on the given arguments.
    Returns ('return', value) or ('raise', exc Obj)."""
    mod = interp.module(module_name)
    ex = Exec(interp, ctx, mod, mod.env, "")
    parts = qualname.split(".")
    target = mod.resolve(parts[0], ctx)
    for p in parts[1:]:
        target = target.lookup(p)[0]
        if isinstance(target, Prop):
            target = target.fget
    try:
        if self_obj is not None:
            v = ex.call(Bound(target, self_obj), list(args), dict(kwargs or {}))
        else:
            v = ex.call(target, list(args), dict(kwargs or {}))
        return "return", v
    except PyRaise as pr:
        return "raise", pr.exc


def get_func(interp, ctx, module_name, qualname):
    mod = interp.module(module_name)
    parts = qualname.split(".")
    target = mod.resolve(parts[0], ctx)
    for p in parts[1:]:
        target = target.lookup(p)[0]
    return target


def exc_name(e):
    return e.cls.name if isinstance(e, Obj) else repr(e)
