"""CLI: ./check <Cxx> [--tier quick|thorough] [--relock]"""
from __future__ import annotations

import argparse
import importlib
import os
import sys
import traceback

sys.setrecursionlimit(20000)


def main():
    import faulthandler, signal
    faulthandler.register(signal.SIGUSR1, all_threads=True)  # kill -USR1 <pid> prints the Python stack of a stuck check
    ap = argparse.ArgumentParser()
    ap.add_argument("prop")
    ap.add_argument("--tier", default=os.environ.get("VERIF_TIER", "quick"))
    ap.add_argument("--relock", action="store_true")
    a = ap.parse_args()
    from . import core
    seed = int(os.environ.get("VERIF_SEED", "0") or 0)
    run = core.Run(a.prop.upper(), a.tier if a.tier in ("quick", "thorough") else "quick", seed)
    try:
        mod = importlib.import_module(f"vf.props.{a.prop.lower()}")
        mod.run(run, run.tier)
    except Exception:
        run.crashed = traceback.format_exc()
    if os.environ.get("VF_RECORD_KEEPS"):
        from . import pyvc
        pyvc.dump_recorded_keeps()
    rc = run.finish(relock=a.relock)
    sys.exit(rc)


if __name__ == "__main__":
    main()
