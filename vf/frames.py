"""Engine C: static frame analysis of the real source (reads / writes / may-alias), AST based.

For every method of every class in mici/systems.py (resolved per concrete class through the MRO):
  reads(m)    = state variables read through `state.<var>` in m or, transitively, in self.<n>(state...) callees
  declared(m) = depends_on of the cache_in_state / cache_in_state_with_aux decorator (and auxiliary outputs)
  returns_alias(m) = the return value may be the very object held by a state variable
"""
from __future__ import annotations

import ast
import os

from . import core

STATE_VARS = ("pos", "mom", "dir")


def parse_module(name):
    path = os.path.join(core.SRC, "mici", name + ".py")
    return ast.parse(open(path).read()), path


class ClassInfo:
    def __init__(self, node):
        self.node = node
        self.name = node.name
        self.bases = [ast.unparse(b) for b in node.bases]
        self.methods = {n.name: n for n in node.body if isinstance(n, ast.FunctionDef)}


def class_table(tree):
    return {n.name: ClassInfo(n) for n in tree.body if isinstance(n, ast.ClassDef)}


def mro(table, name):
    """C3-free approximation sufficient here: depth-first left-to-right with later duplicates kept last."""
    out = []

    def lin(n):
        if n not in table:
            return [n]
        seqs = [lin(b) for b in table[n].bases if b in table]
        res = [n]
        # C3 merge
        seqs = [s[:] for s in seqs] + [[b for b in table[n].bases if b in table]]
        while any(seqs):
            for s in seqs:
                if not s:
                    continue
                cand = s[0]
                if not any(cand in t[1:] for t in seqs):
                    break
            else:
                raise ValueError("inconsistent hierarchy")
            res.append(cand)
            for s in seqs:
                if s and s[0] == cand:
                    del s[0]
        return res
    return lin(name)


def resolve(table, cls, meth, start_after=None):
    order = mro(table, cls)
    if start_after is not None:
        order = order[order.index(start_after) + 1:]
    for c in order:
        if c in table and meth in table[c].methods:
            return c, table[c].methods[meth]
    return None, None


def decorator_info(fn):
    """-> (kind, depends_on tuple, aux tuple) or None"""
    for d in fn.decorator_list:
        if isinstance(d, ast.Call) and isinstance(d.func, ast.Name) and d.func.id in ("cache_in_state", "cache_in_state_with_aux"):
            vals = []
            for a in d.args:
                v = ast.literal_eval(a)
                vals.append((v,) if isinstance(v, str) else tuple(v))
            if d.func.id == "cache_in_state":
                return "plain", tuple(x for v in vals for x in v), ()
            return "aux", vals[0], vals[1] if len(vals) > 1 else ()
    return None


def state_param(fn):
    for a in fn.args.args:
        if a.arg == "state":
            return "state"
    return None


class Reads:
    """Transitive read-set computation for (concrete class, method)."""

    def __init__(self, table):
        self.table = table
        self.memo = {}

    def reads(self, cls, meth, owner=None, stack=()):
        key = (cls, meth, owner)
        if key in self.memo:
            return self.memo[key]
        if key in stack:
            return set()
        if owner is None:
            owner, fn = resolve(self.table, cls, meth)
        else:
            fn = self.table[owner].methods[meth]
        if fn is None:
            return set()
        out = set()
        sp = state_param(fn)
        state_names = {sp} if sp else set()
        # local aliases of state objects (state_prev = state.copy()) are treated as states too
        for n in ast.walk(fn):
            if isinstance(n, ast.Attribute) and isinstance(n.value, ast.Name) and n.value.id in state_names and n.attr in STATE_VARS \
                    and isinstance(n.ctx, ast.Load):
                out.add(n.attr)
            if isinstance(n, ast.Call) and isinstance(n.func, ast.Attribute):
                f = n.func
                passes_state = any(isinstance(a, ast.Name) and a.id in state_names for a in n.args)
                if isinstance(f.value, ast.Name) and f.value.id == "self" and passes_state:
                    out |= self.reads(cls, f.attr, None, stack + (key,))
                elif isinstance(f.value, ast.Call) and isinstance(f.value.func, ast.Name) and f.value.func.id == "super" and passes_state:
                    o2, _ = resolve(self.table, cls, f.attr, start_after=owner)
                    if o2:
                        out |= self.reads(cls, f.attr, o2, stack + (key,))
        self.memo[key] = out
        return out


def returns_state_var(fn):
    """method body returns `state.<var>` itself (the cached value would be the variable's own array object)"""
    out = []
    for n in ast.walk(fn):
        if isinstance(n, ast.Return) and isinstance(n.value, ast.Attribute) and isinstance(n.value.value, ast.Name) \
                and n.value.value.id == "state" and n.value.attr in STATE_VARS:
            out.append(n.value.attr)
    return out


def identity_passthrough_classes():
    """matrix classes whose _left/_right_matrix_multiply return their argument object unchanged"""
    tree, _ = parse_module("matrices")
    out = []
    for c in tree.body:
        if isinstance(c, ast.ClassDef):
            for m in c.body:
                if isinstance(m, ast.FunctionDef) and m.name in ("_left_matrix_multiply", "_right_matrix_multiply"):
                    rets = [n for n in ast.walk(m) if isinstance(n, ast.Return)]
                    if len(rets) == 1 and isinstance(rets[0].value, ast.Name) and rets[0].value.id == "other" and len([b for b in m.body if not isinstance(b, ast.Expr)]) == 1:
                        out.append((c.name, m.name))
    return out


def returns_matmul_of_state_var(fn):
    """`return <matrix expr> @ state.<var>`: aliases the variable if the matrix's multiply passes its argument through"""
    out = []
    for n in ast.walk(fn):
        if isinstance(n, ast.Return) and isinstance(n.value, ast.BinOp) and isinstance(n.value.op, ast.MatMult):
            r = n.value.right
            if isinstance(r, ast.Attribute) and isinstance(r.value, ast.Name) and r.value.id == "state" and r.attr in STATE_VARS:
                out.append((ast.unparse(n.value.left), r.attr))
    return out


def inplace_state_updates():
    """(module, function, var) for every in-place augmented assignment to a state variable array in the library"""
    out = []
    for mod in ("systems", "integrators", "solvers", "transitions", "adapters", "samplers"):
        tree, _ = parse_module(mod)
        for fn in ast.walk(tree):
            if isinstance(fn, ast.FunctionDef):
                for n in ast.walk(fn):
                    if isinstance(n, ast.AugAssign) and isinstance(n.target, ast.Attribute) and n.target.attr in ("pos", "mom") \
                            and isinstance(n.target.value, ast.Name) and n.target.value.id.startswith("state"):
                        out.append((mod, fn.name, n.target.attr, ast.unparse(n)))
    return out


def alias_inplace_updates():
    """(module, function, code) for every in-place mutation of a local name that was bound to `<obj>.pos` / `<obj>.mom`
    (an alias of a state variable's array) which is not written back through attribute assignment afterwards:
    such an update changes the variable without ChainState.__setattr__ running, so no cache entry is invalidated."""
    out = []
    for mod in ("systems", "integrators", "solvers", "transitions", "adapters", "samplers"):
        tree, _ = parse_module(mod)
        for fn in ast.walk(tree):
            if not isinstance(fn, ast.FunctionDef):
                continue
            aliases = {}
            for n in ast.walk(fn):
                if isinstance(n, ast.Assign) and len(n.targets) == 1 and isinstance(n.targets[0], ast.Name) and isinstance(n.value, ast.Attribute) \
                        and n.value.attr in ("pos", "mom") and isinstance(n.value.value, ast.Name):
                    aliases[n.targets[0].id] = (n.value.value.id, n.value.attr, n.lineno)
            if not aliases:
                continue
            for n in ast.walk(fn):
                hit = None
                if isinstance(n, ast.AugAssign) and isinstance(n.target, ast.Name) and n.target.id in aliases:
                    hit = n.target.id
                elif isinstance(n, ast.AugAssign) and isinstance(n.target, ast.Subscript) and isinstance(n.target.value, ast.Name) and n.target.value.id in aliases:
                    hit = n.target.value.id
                elif isinstance(n, ast.Assign) and any(isinstance(t, ast.Subscript) and isinstance(t.value, ast.Name) and t.value.id in aliases for t in n.targets):
                    hit = [t.value.id for t in n.targets if isinstance(t, ast.Subscript) and isinstance(t.value, ast.Name) and t.value.id in aliases][0]
                if hit is None or n.lineno < aliases[hit][2]:
                    continue
                obj, var, _ = aliases[hit]
                # written back later through the attribute? (obj.var = alias)
                back = any(isinstance(m, ast.Assign) and m.lineno > n.lineno and any(isinstance(t, ast.Attribute) and t.attr == var and isinstance(t.value, ast.Name)
                           and t.value.id == obj for t in m.targets) for m in ast.walk(fn))
                if not back:
                    out.append((mod, fn.name, f"{hit} = {obj}.{var}; {ast.unparse(n)}"))
    return out
