"""Contracts (axiomatised stubs) for math / numpy scalar functions used by Engine A.

Real mode: exp/log are uninterpreted real functions EXP/LOG with axioms instantiated on
the terms that occur (positivity, strict monotonicity, EXP(0)=1, 1+x<=EXP(x),
homomorphism on syntactic sums, LOG as inverse of EXP).  IEEE mode (interp.ieee=True):
every float operation result is a fresh real constrained by a *monotone relative-error
rounding model* (trusted assumption A3), and libm calls raise the exceptions CPython
raises (OverflowError for exp above 709.78, ValueError outside log's domain).
"""
from __future__ import annotations

import math
from fractions import Fraction

import z3

from .pyvc import (INF, Namespace, Native, OutsideSubset, PyRaise, is_special_float, is_z3, lift,
                   make_exc, to_real)

EXP = z3.Function("EXP", z3.RealSort(), z3.RealSort())
LOG = z3.Function("LOG", z3.RealSort(), z3.RealSort())
SQRT = z3.Function("SQRT", z3.RealSort(), z3.RealSort())
POW = z3.Function("POW", z3.RealSort(), z3.RealSort(), z3.RealSort())

U = Fraction(1, 2 ** 52)  # one ulp relative (generous: 2 * unit roundoff)
UR = z3.RealVal(str(U))

# rigorous numeric anchors (decimal enclosures of transcendental constants)
ANCHORS_EXP = [
    # (x, lower bound of exp(x), upper bound of exp(x))
    ("-0.693147180559945", "0.5", "0.5000000000000002"),
    ("-0.693147180559946", "0.4999999999999996", "0.5"),
    ("0", "1", "1"),
]
LOG2_LO, LOG2_HI = "0.69314718055994530", "0.69314718055994531"


def rv(s):
    return z3.RealVal(s)


def _terms(ctx, key):
    return ctx.ghost.setdefault(key, [])


def exp_term(ctx, x, depth=0):
    """EXP(x) with axioms instantiated for this occurrence."""
    x = z3.simplify(to_real(x))
    t = EXP(x)
    seen = _terms(ctx, "exp_terms")
    if any(x.eq(y) for y in seen):
        return t
    if not ctx.ghost.get("exp_anchors"):
        # anchors are added once per path
        ctx.ghost["exp_anchors"] = True
        for a, lo, hi in ANCHORS_EXP:
            ax = rv(a)
            ctx.assume(EXP(ax) >= rv(lo))
            ctx.assume(EXP(ax) <= rv(hi))
            for y in seen:
                ctx.assume(z3.And(z3.Implies(ax < y, EXP(ax) < EXP(y)), z3.Implies(ax > y, EXP(ax) > EXP(y))))
            seen.append(z3.simplify(ax))
        for i, (a, _, _) in enumerate(ANCHORS_EXP):
            for (b, _, _) in ANCHORS_EXP[i + 1:]:
                pass
    ctx.assume(t > 0)
    ctx.assume(t >= 1 + x)
    for y in seen:
        ty = EXP(y)
        ctx.assume(z3.And(z3.Implies(x < y, t < ty), z3.Implies(x > y, t > ty), z3.Implies(x == y, t == ty)))
    seen.append(x)
    if depth < 2:
        # homomorphism on syntactic structure
        if z3.is_add(x) and x.num_args() == 2:
            a, b = x.arg(0), x.arg(1)
            ctx.assume(t == exp_term(ctx, a, depth + 1) * exp_term(ctx, b, depth + 1))
        elif z3.is_sub(x) and x.num_args() == 2:
            a, b = x.arg(0), x.arg(1)
            ctx.assume(t * exp_term(ctx, b, depth + 1) == exp_term(ctx, a, depth + 1))
        elif z3.is_mul(x) and x.num_args() == 2 and z3.is_rational_value(x.arg(0)) and x.arg(0).as_fraction() == -1:
            ctx.assume(t * exp_term(ctx, x.arg(1), depth + 1) == 1)
        elif z3.is_app_of(x, z3.Z3_OP_UMINUS):
            ctx.assume(t * exp_term(ctx, x.arg(0), depth + 1) == 1)
    return t


def exp_hom(ctx, a, b):
    """instance of the homomorphism axiom EXP(a) * EXP(b) == EXP(a + b); returns the term EXP(simplify(a + b))"""
    a, b = to_real(a), to_real(b)
    ta, tb = exp_term(ctx, a), exp_term(ctx, b)
    tc = exp_term(ctx, z3.simplify(a + b))
    ctx.assume(ta * tb == tc)
    return tc


def log_term(ctx, y):
    """LOG(y) for y > 0 (caller established the domain), axiom EXP(LOG(y)) == y."""
    y = z3.simplify(to_real(y))
    t = LOG(y)
    seen = _terms(ctx, "log_terms")
    if any(y.eq(z) for z in seen):
        return t
    seen.append(y)
    ctx.assume(exp_term(ctx, t, depth=1) == y)
    ctx.assume(z3.Implies(y == 1, t == 0))
    if z3.is_rational_value(y) and y.as_fraction() == 2:
        ctx.assume(t >= rv(LOG2_LO))
        ctx.assume(t <= rv(LOG2_HI))
    # monotone w.r.t. other log terms follows from EXP monotonicity + inverse axiom
    return t


def sqrt_term(ctx, y):
    y = z3.simplify(to_real(y))
    t = SQRT(y)
    seen = _terms(ctx, "sqrt_terms")
    if not any(y.eq(z) for z in seen):
        seen.append(y)
        ctx.assume(z3.Implies(y >= 0, z3.And(t >= 0, t * t == y)))
    return t


# ---- rounding model -----------------------------------------------------------------


def ieee_round(ex, r):
    """fl(r): fresh real within relative error U of r, monotone w.r.t. integers
    (integers below 2^53 are representable, rounding is monotone)."""
    ctx = ex.ctx
    if z3.is_rational_value(z3.simplify(r)):
        return r
    f = ctx.fresh("fl", "real")
    ctx.assume(z3.If(r >= 0, z3.And(f >= r * (1 - UR), f <= r * (1 + UR)),
                     z3.And(f <= r * (1 - UR), f >= r * (1 + UR))))
    # monotone exactness at integers: floor(r) <= f <= ceil(r)
    fl_ = z3.ToReal(z3.ToInt(r))
    ctx.assume(f >= fl_)
    ctx.assume(z3.Implies(r == fl_, f == fl_))
    ctx.assume(f <= fl_ + 1)
    return f


# ---- math namespace -------------------------------------------------------------------


def _domain_error(ex):
    raise PyRaise(make_exc(ex.interp, "ValueError", "math domain error"))


def m_exp(ex, x):
    if not is_z3(x):
        if isinstance(x, float) and x == -INF:
            return 0.0
        if isinstance(x, float) and x == INF:
            return INF
        if isinstance(x, float) and math.isnan(x):
            return x
        if x == 0:
            return 1.0
        x = to_real(x)
    x = to_real(x)
    ctx = ex.ctx
    if ex.interp.ieee:
        if ctx.branch(x > rv("709.78")):
            raise PyRaise(make_exc(ex.interp, "OverflowError", "math range error"))
        e = exp_term(ctx, x)
        f = ctx.fresh("fl_exp", "real")
        ctx.assume(f >= 0)
        ctx.assume(z3.Implies(x >= -700, z3.And(f >= e * (1 - UR), f <= e * (1 + UR))))
        ctx.assume(z3.Implies(x < -700, f <= e * (1 + UR)))
        ctx.assume(z3.Implies(x <= 0, f <= 1))
        ctx.assume(z3.Implies(x >= 0, f >= 1))
        ctx.assume(z3.Implies(x == 0, f == 1))
        ctx.ghost.setdefault("fl_exp", []).append((x, f))
        return f
    return exp_term(ctx, x)


def m_expm1(ex, x):
    if not is_z3(x):
        if isinstance(x, float) and x == -INF:
            return -1.0
        x = to_real(x)
    x = to_real(x)
    ctx = ex.ctx
    e = exp_term(ctx, x) - 1
    if ex.interp.ieee:
        if ctx.branch(x > rv("709.78")):
            raise PyRaise(make_exc(ex.interp, "OverflowError", "math range error"))
        f = ctx.fresh("fl_expm1", "real")
        ctx.assume(z3.If(e >= 0, z3.And(f >= e * (1 - UR), f <= e * (1 + UR)),
                         z3.And(f <= e * (1 - UR), f >= e * (1 + UR))))
        # expm1 is accurate near 0: sign exact, never rounds to 0 for x != 0, stays >= -1
        ctx.assume(z3.Implies(x < 0, z3.And(f < 0, f >= -1)))
        ctx.assume(z3.Implies(x > 0, f > 0))
        ctx.assume(z3.Implies(x == 0, f == 0))
        return f
    return e


def m_log(ex, y):
    if not is_z3(y):
        if isinstance(y, float) and y == INF:
            return INF
        if isinstance(y, float) and math.isnan(y):
            return y
        if y is None or isinstance(y, str):
            raise PyRaise(make_exc(ex.interp, "TypeError", "must be real number"))
        if y <= 0:
            _domain_error(ex)
        if y == 1:
            return 0.0
        y = to_real(y)
    y = to_real(y)
    ctx = ex.ctx
    if ctx.branch(y <= 0):
        _domain_error(ex)
    t = log_term(ctx, y)
    if ex.interp.ieee:
        f = ctx.fresh("fl_log", "real")
        ctx.assume(z3.If(t >= 0, z3.And(f >= t * (1 - UR), f <= t * (1 + UR)),
                         z3.And(f <= t * (1 - UR), f >= t * (1 + UR))))
        ctx.assume(z3.Implies(y == 1, f == 0))
        return f
    return t


def m_log1p(ex, y):
    if not is_z3(y):
        if isinstance(y, float) and y == INF:
            return INF
        if y <= -1:
            _domain_error(ex)
        if y == 0:
            return 0.0
        y = to_real(y)
    y = to_real(y)
    ctx = ex.ctx
    if ctx.branch(y <= -1):
        _domain_error(ex)
    t = log_term(ctx, 1 + y)
    if ex.interp.ieee:
        f = ctx.fresh("fl_log1p", "real")
        ctx.assume(z3.If(t >= 0, z3.And(f >= t * (1 - UR), f <= t * (1 + UR)),
                         z3.And(f <= t * (1 - UR), f >= t * (1 + UR))))
        ctx.assume(z3.Implies(y == 0, f == 0))
        return f
    return t


def m_sqrt(ex, y):
    if not is_z3(y):
        return math.sqrt(y)
    if ex.ctx.branch(y < 0):
        _domain_error(ex)
    return sqrt_term(ex.ctx, y)


def math_fn(ex, name, *args):
    if name == "sqrt":
        return sqrt_term(ex.ctx, args[0])
    if name == "pow":
        return POW(*[to_real(a) for a in args])
    raise OutsideSubset(f"math function {name}")


def np_isnan(ex, x):
    if is_z3(x):
        return False  # symbolic reals are finite numbers
    if isinstance(x, float):
        return math.isnan(x)
    if hasattr(x, "_pv_isnan"):
        return x._pv_isnan(ex)
    if isinstance(x, (int,)):
        return False
    raise OutsideSubset(f"isnan({x!r})")


def np_exp(ex, x):
    return m_exp(ex, x)


def m_isclose(ex, a, b, rel_tol=1e-09, abs_tol=0.0):
    """math.isclose: abs(a-b) <= max(rel_tol * max(abs(a), abs(b)), abs_tol); equal infinities are close, an infinity and anything else are not, NaN never"""
    def special(v):
        return isinstance(v, float) and (math.isinf(v) or math.isnan(v))
    if special(a) or special(b):
        if not is_z3(a) and not is_z3(b):
            return math.isclose(a, b, rel_tol=rel_tol, abs_tol=abs_tol)
        return False  # a finite symbolic real against an infinity / NaN
    if not is_z3(a) and not is_z3(b):
        return math.isclose(a, b, rel_tol=rel_tol, abs_tol=abs_tol)
    ra, rb = to_real(a), to_real(b)
    from fractions import Fraction
    rt, at = (z3.RealVal(str(Fraction(float(t)))) if not is_z3(t) else to_real(t) for t in (rel_tol, abs_tol))
    ab = lambda x: z3.If(x >= 0, x, -x)  # noqa: E731
    mx = z3.If(ab(ra) >= ab(rb), ab(ra), ab(rb))
    bound = z3.If(rt * mx >= at, rt * mx, at)
    return ab(ra - rb) <= bound


def install(interp):
    interp.ieee_round = ieee_round
    interp.math_fn = math_fn
    interp.ext_modules["math"] = Namespace(
        "math", exp=Native(m_exp, "exp"), expm1=Native(m_expm1, "expm1"), log=Native(m_log, "log"),
        log1p=Native(m_log1p, "log1p"), sqrt=Native(m_sqrt, "sqrt"), inf=INF, nan=float("nan"),
        isnan=Native(np_isnan, "isnan"), isclose=Native(m_isclose, "isclose"))
    import itertools as _it

    def zip_longest(ex, *its, fillvalue=None):
        return list(_it.zip_longest(*[list(ex.iterate_concrete(i)) for i in its], fillvalue=fillvalue))

    def chain(ex, *its):
        return [x for i in its for x in ex.iterate_concrete(i)]
    interp.ext_modules.setdefault("itertools", Namespace("itertools", zip_longest=Native(zip_longest, "zip_longest"), chain=Native(chain, "chain"),
                                                     count=Native(lambda ex, start=0, step=1: _it.count(start, step), "count")))
    for m in ("typing", "typing_extensions", "abc", "collections.abc", "logging", "warnings"):
        interp.ext_modules.setdefault(m, Namespace(m, TYPE_CHECKING=False, NamedTuple=None, Protocol=None,
                                                   ABC=None, abstractmethod=None, abstractproperty=None))
