"""Abstract values shared by several contract modules (Engine A).

SymList   -- list of unknown length summarised by ghost (len, sum, all-elements predicate);
             produced when a loop that appends to a list is cut by an invariant.
Opaque    -- named opaque object with optional attributes (adapters, trace functions, ...).
"""
from __future__ import annotations

import z3

from .pyvc import Native, OutsideSubset, PyRaise, is_z3, lift, make_exc


class Opaque:
    def __init__(self, name, **attrs):
        self._name = name
        self._attrs = attrs

    def _pv_getattr(self, ex, name):
        if name in self._attrs:
            return self._attrs[name]
        if getattr(ex, "_probing_hasattr", 0):
            # hasattr(stub, name): the stub's attribute set is its contract (e.g. which generator interface is present)
            raise PyRaise(make_exc(ex.interp, "AttributeError", f"{self._name} has no attribute {name}"))
        # the real object may well have this member: an access the contract stub does not model is undecided, never an AttributeError of the program
        raise OutsideSubset(f"contract stub {self._name} has no member {name}")

    def _pv_setattr(self, ex, name, v):
        self._attrs[name] = v

    def _pv_binop(self, ex, op, other):
        """a binary operator is part of the stub's contract only if declared (Opaque(..., __matmul__=Native(...)))"""
        f = self._attrs.get(op)
        if f is None:
            return NotImplemented
        return ex.call(f, [other], {})

    def _pv_type(self, ex):
        """type(stub): calling it builds another object of the stub's kind from the given arguments (e.g. type(bit_generator)(seed))"""
        from .pyvc import TypeTag
        name = self._name
        return TypeTag(name, lambda o: isinstance(o, Opaque) and o._name == name,
                       lambda ex2, *a, **k: Opaque(name, constructed_from=a, source=(a[0] if a else None), **{kk: vv for kk, vv in self._attrs.items() if isinstance(vv, Native)}))

    def _pv_isinstance(self, ex, spec):
        """a contract stub stands for ANY object satisfying the contract: whether it is an instance of a given library class is
        not determined by the contract, so code that dispatches on it is explored both ways (consistently per class)"""
        if not self._attrs.get("__any_class__", False):
            return False
        memo = self.__dict__.setdefault("_isinst", {})
        key = (id(ex.ctx), spec.name)
        if key not in memo:
            memo[key] = bool(ex.ctx.choose(2, f"isinstance({self._name}, {spec.name})"))
        return memo[key]

    def __repr__(self):
        return f"<opaque {self._name}>"


class SymList:
    """List of ints of symbolic length: ghost length, ghost sum, and an element predicate
    `elem_ok(x)` known to hold for every element (e.g. x >= 1)."""

    def __init__(self, ctx, base, elem_ok):
        self.length = ctx.fresh(base + "_len", "int")
        self.total = ctx.fresh(base + "_sum", "int")
        self.elem_ok = elem_ok
        self.elem = z3.Function(base + "_elem", z3.IntSort(), z3.IntSort())
        self.base = base
        self.appended_bad = []  # obligations that appended elements satisfy elem_ok

    def facts(self):
        return [self.length >= 0]

    def _pv_getattr(self, ex, name):
        if name == "append":
            def append(ex2, x):
                x = lift(x)
                ok = self.elem_ok(x)
                ex2.ctx.prove(f"{ex2.qual}/{self.base}.append-elem-ok", ok)
                self.total = self.total + x
                self.length = self.length + 1
                return None
            return Native(append, "append")
        raise OutsideSubset(f"SymList.{name}")

    def _pv_len(self, ex):
        return self.length

    def _pv_enumerate(self, ex, start=0):
        return SymEnum(self, start)

    def _pv_generic(self, ex):
        """direct iteration `for x in lst` through a LoopSpec: the generic element"""
        cond, bind = SymEnum(self, 0)._pv_generic(ex)
        return cond, (lambda: bind()[1])

    def _pv_truth(self, ex):
        return ex.ctx.branch(self.length > 0)


class SymEnum:
    def __init__(self, lst, start):
        self.lst = lst
        self.start = start

    def _pv_generic(self, ex):
        idx = ex.ctx.ghost.get("loop_index")
        if idx is None or not is_z3(idx):
            idx = ex.ctx.fresh("loop_i", "int")
            ex.ctx.ghost["loop_index"] = idx
        lst = self.lst

        def cond():
            return ex.ctx.branch(z3.And(idx >= 0, idx < lst.length))

        def bind():
            e = lst.elem(idx)
            ex.ctx.assume(lst.elem_ok(e))
            return (idx + self.start, e)
        return cond, bind
