"""Engine D: the real classes of mici.matrices executed on *dimension-generic* symbolic arrays.

Where Engine B (symla) runs the real code entrywise at fixed small shapes, this engine runs the same real code with arrays
that are elements of the free typed non-commutative algebra over named matrix atoms of *symbolic* dimensions (n, k, ...):

    NCArr  = finite sum of  coefficient * atom_1 atom_2 ... atom_m        (coefficients: sympy scalars, commutative)
    atom   = (base matrix, transposed?, inverted?)   with declared structure (symmetric, orthogonal, triangular, diagonal, ...)

`@`, `+`, `-`, scalar `*` and `/`, `.T`, `np.identity`, `np.outer` are the ring / involution operations; the LAPACK-level
primitives are contract shims that introduce *defined atoms* together with their defining relation, e.g.
    cholesky(P)  -> fresh lower-triangular invertible L   with   L L^T = P
    sqrtm(P)     -> fresh symmetric invertible S          with   S S   = P
    lu_factor(P) / lu_solve  -> P^{-1} b ;  inverse of a non-monomial P -> fresh D^{-1} with D^{-1} P = P D^{-1} = 1
An equality obligation `got == want` is decided by rewriting `got - want` to normal form with (i) the group-like rules
a a^{-1} = 1, q q^T = 1 (orthogonal), a^T = a (symmetric) and (ii) the oriented defining relations.  Every rewrite step
is an identity valid in any ring with involution in which the declared hypotheses hold, in particular for real matrices of
ALL dimensions -- so a discharged obligation is a proof for every n, k (not for a listed shape).  Rewriting is sound but
not complete: a non-zero normal form is evaluated numerically with random structured matrices at two concrete dimension
assignments; a reproducible non-zero value is a refutation (with that witness), otherwise the obligation is UNDECIDED.

Scalars such as log|det| live in a second, commutative layer: linear combinations of opaque symbols lad(<atom>) with the
rules  lad(ab) = lad a + lad b,  lad(a^{-1}) = -lad a,  lad(a^T) = lad a,  lad(c a) = n log|c| + lad a,  lad(orthogonal) = 0,
2 lad(chol P) = lad P, 2 lad(sqrtm P) = lad P, sum(log|diag T|) = lad T (T triangular), sum(log|diag lu(P)|) = lad P,
plus explicitly instantiated lemmas (matrix determinant lemma).  The rule table is `RULES` below; each entry names the
Mathlib statement it instantiates and is re-proved for arbitrary dimension in lean/MatrixLemmas.lean.
"""
from __future__ import annotations

import itertools
import random

import numpy as _np
import sympy as sp


class Undecided(Exception):
    pass


class DomainError(Exception):
    """the traced code applies a real function outside its domain for admissible inputs (a genuine failure, not a limit of the stand-ins)"""


ONE = sp.Integer(1)

RULES = {
    "ring": "typed associativity / distributivity of matrix +, *, scalar multiples (Mathlib: Matrix.mul_assoc, Matrix.mul_add, Matrix.add_mul, Matrix.smul_mul, Matrix.mul_smul)",
    "transpose": "(AB)^T = B^T A^T, (A+B)^T = A^T + B^T, (A^T)^T = A, (A^{-1})^T = (A^T)^{-1} (Matrix.transpose_mul, transpose_add, transpose_transpose, transpose_nonsing_inv)",
    "inverse": "A A^{-1} = A^{-1} A = 1 for invertible square A; (A^{-1})^{-1} = A; (AB)^{-1} = B^{-1} A^{-1}; (cA)^{-1} = c^{-1} A^{-1}; M X = 1 => X = M^{-1} (Matrix.mul_nonsing_inv, nonsing_inv_mul, nonsing_inv_nonsing_inv, mul_inv_rev, inv_eq_right_inv)",
    "orthogonal": "Q Q^T = Q^T Q = 1, Q^{-1} = Q^T for square orthogonal Q",
    "symmetric": "A^T = A; the inverse and the principal square root of a symmetric matrix are symmetric",
    "defined-inverse": "D := P (a sum) assumed invertible (recorded hypothesis): D^{-1} P = P D^{-1} = 1",
    "cholesky": "contract of numpy.linalg.cholesky: L lower triangular, invertible, L L^T = P (P symmetric positive definite: recorded hypothesis)",
    "sqrtm": "contract of scipy.linalg.sqrtm on a symmetric positive definite argument: S symmetric, invertible, S S = P",
    "eigh": "contract of numpy.linalg.eigh: Q orthogonal, Lambda diagonal, Q Lambda Q^T = P",
    "lu": "contract of scipy.linalg.lu_factor / lu_solve: lu_solve(lu_factor(P), b, trans) = P^{-1} b or P^{-T} b; prod |diag lu| = |det P|",
    "triangular-solve": "contract of scipy.linalg.solve_triangular(T, b, lower, trans): T^{-1} b / T^{-T} b using only the named triangle",
    "lad-mul": "log|det(AB)| = log|det A| + log|det B| (Matrix.det_mul); log|det A^T| = log|det A| (Matrix.det_transpose); log|det A^{-1}| = -log|det A| (Matrix.det_nonsing_inv); log|det(cA)| = n log|c| + log|det A| (Matrix.det_smul); |det Q| = 1",
    "lad-triangular": "det of a triangular matrix is the product of its diagonal (Matrix.det_of_lowerTriangular / det_of_upperTriangular)",
    "det-lemma": "matrix determinant lemma det(A + U C V) = det A det C det(C^{-1} + V A^{-1} U) (from Matrix.det_one_add_mul_comm)",
}


# ---------------------------------------------------------------------------------------
# atoms


class Base:
    """a named matrix of symbolic shape with declared structure"""
    _count = itertools.count()

    def __init__(self, name, rows, cols, *, sym=False, orth=False, inv=False, tri=None, diag=False, pd=False,
                 kind="param", definition=None, fn=None):
        self.id = next(Base._count)
        self.name = name
        self.rows, self.cols = rows, cols
        self.sym = sym or diag
        self.orth = orth
        self.inv = inv or orth  # invertible
        self.tri = tri  # None | 'lower' | 'upper'
        self.diag = diag
        self.pd = pd
        self.kind = kind  # param | defined
        self.definition = definition  # Poly (for kind == 'defined')
        self.fn = fn  # None (value = definition) | 'chol' | 'sqrtm' | 'eigvec' | 'eigval' | 'tril' | 'triu' | 'sqrt-of'
        self.lad = sp.Symbol(f"lad_{name}", real=True)

    def __repr__(self):
        return self.name


def occ(base, t=False, i=False):
    if base.sym:
        t = False
    if base.orth and i:
        t, i = (not t), False
    return (base, bool(t), bool(i))


def occ_shape(o):
    b, t, _ = o
    return (b.cols, b.rows) if t else (b.rows, b.cols)


def occ_str(o):
    b, t, i = o
    return b.name + ("^-T" if (t and i) else "^T" if t else "^-1" if i else "")


def occ_T(o):
    b, t, i = o
    return occ(b, not t, i)


def occ_inv(o):
    b, t, i = o
    if not b.inv:
        raise Undecided(f"inverse of non-invertible atom {b.name}")
    return occ(b, t, not i)


def occ_tri(o):
    """'lower' / 'upper' / 'diag' / None : triangular structure of the occurrence"""
    b, t, _ = o
    if b.diag:
        return "diag"
    if b.tri is None:
        return None
    return b.tri if not t else ("upper" if b.tri == "lower" else "lower")


# ---------------------------------------------------------------------------------------
# context: rewrite rules, defined atoms, hypotheses, log-abs-det equations


class Context:
    def __init__(self):
        self.rules = []  # (lhs tuple of occurrences, rhs Poly)
        self.defined = []  # (key Poly, Base) inverse-defined atoms
        self.hyps = []  # recorded hypotheses (strings)
        self.lad_eqs = []  # sympy expressions == 0
        self.lad_defs = []  # (Poly, symbol)
        self.fresh = itertools.count()
        self.steps = 0

    def hyp(self, text):
        if text not in self.hyps:
            self.hyps.append(text)


CTX = Context()


def reset():
    global CTX
    CTX = Context()
    return CTX


def _c(x):
    """coefficient normal form"""
    x = sp.sympify(x)
    if x.has(sp.Float):
        x = sp.nsimplify(x, rational=True)
    if x.is_Number:
        return x
    return sp.cancel(sp.together(sp.powsimp(sp.powdenest(x, force=True), force=True)))


class Poly:
    """typed non-commutative polynomial"""
    __slots__ = ("terms", "rows", "cols")

    def __init__(self, terms, rows, cols):
        self.terms = {m: c for m, c in terms.items() if c != 0}
        self.rows, self.cols = rows, cols

    # constructors
    @staticmethod
    def atom(base, t=False, i=False):
        o = occ(base, t, i)
        r, c = occ_shape(o)
        return Poly({(o,): sp.Integer(1)}, r, c)

    @staticmethod
    def identity(n):
        return Poly({(): sp.Integer(1)}, n, n)

    @staticmethod
    def zero(r, c):
        return Poly({}, r, c)

    # ring operations
    def __add__(self, o):
        if (self.rows, self.cols) != (o.rows, o.cols):
            raise ValueError(f"operands could not be broadcast together with shapes ({self.rows},{self.cols}) ({o.rows},{o.cols})")
        t = dict(self.terms)
        for m, c in o.terms.items():
            t[m] = _c(t.get(m, 0) + c)
        return Poly(t, self.rows, self.cols)

    def scale(self, s):
        s = _c(s.e if isinstance(s, Scal) else s)
        return Poly({m: _c(c * s) for m, c in self.terms.items()}, self.rows, self.cols)

    def __neg__(self):
        return self.scale(-1)

    def __sub__(self, o):
        return self + (-o)

    def __mul__(self, o):
        if self.cols != o.rows:
            raise ValueError(f"matmul: Input operand 1 has a mismatch in its core dimension 0 (size {o.rows} is different from {self.cols})")
        t = {}
        for m1, c1 in self.terms.items():
            for m2, c2 in o.terms.items():
                m = _mono_reduce(m1 + m2)
                t[m] = _c(t.get(m, 0) + c1 * c2)
        return Poly(t, self.rows, o.cols)

    def T(self):
        return Poly({tuple(occ_T(o) for o in reversed(m)): c for m, c in self.terms.items()}, self.cols, self.rows)

    def is_zero(self):
        return not self.terms

    def single(self):
        """(monomial, coeff) if exactly one term else None"""
        if len(self.terms) == 1:
            return next(iter(self.terms.items()))
        return None

    def key(self):
        return tuple(sorted(((tuple((o[0].id, o[1], o[2]) for o in m), sp.srepr(c)) for m, c in self.terms.items())))

    def __eq__(self, o):
        return isinstance(o, Poly) and (self.rows, self.cols) == (o.rows, o.cols) and (self - o).is_zero()

    def __hash__(self):
        return hash(self.key())

    def __repr__(self):
        if not self.terms:
            return "0"
        out = []
        for m, c in sorted(self.terms.items(), key=lambda kv: (len(kv[0]), str(kv[0]))):
            ms = " ".join(occ_str(o) for o in m) or "I"
            out.append(ms if c == 1 else f"({c}) {ms}")
        return " + ".join(out)


def _mono_reduce(m):
    """built-in cancellations between adjacent occurrences: a a^-1 = 1, q q^T = 1"""
    out = []
    for o in m:
        if out:
            p = out[-1]
            if p[0] is o[0]:
                b = o[0]
                if b.inv and p[1] == o[1] and p[2] != o[2] and not b.orth:
                    out.pop()
                    continue
                if b.orth and p[1] != o[1]:
                    out.pop()
                    continue
        out.append(o)
    return tuple(out)


def _weight(m):
    return sum(getattr(o[0], "weight", 2) for o in m)


def leading(p):
    """leading term: heaviest, then longest, then lexicographic by atom ids"""
    return max(p.terms.items(), key=lambda kv: (_weight(kv[0]), len(kv[0]), tuple((o[0].id, o[1], o[2]) for o in kv[0])))


def add_rule(lhs, rhs, _depth=0):
    """lhs (monomial) -> rhs (Poly); also registered for the transposed relation.  Afterwards older rules whose left-hand
    side has become reducible are replaced by the (re-oriented) relation between the normal forms of their two sides, so that
    one quantity does not end up with two normal forms (simple inter-reduction; soundness does not depend on it)."""
    new = []
    for lh, rh in ((tuple(lhs), rhs), (tuple(occ_T(o) for o in reversed(lhs)), rhs.T())):
        if not any(l2 == lh for l2, _ in CTX.rules):
            CTX.rules.append((lh, rh))
            new.append(lh)
    if not new or _depth > 3:
        return
    for (l2, r2) in list(CTX.rules):
        if l2 in new or (l2, r2) not in CTX.rules:
            continue
        if any(_find(l2, lh) >= 0 for lh in new):
            CTX.rules.remove((l2, r2))
            rows, cols = occ_shape(l2[0])[0], occ_shape(l2[-1])[1]
            rel = nf(Poly({l2: sp.Integer(1)}, rows, cols) - r2)
            if rel.is_zero():
                continue
            lm, c = leading(rel)
            if lm:
                add_rule(lm, (Poly({lm: c}, rows, cols) - rel).scale(1 / c), _depth + 1)


def _find(m, lhs):
    n, k = len(m), len(lhs)
    for s in range(n - k + 1):
        if all(m[s + j] == lhs[j] for j in range(k)):
            return s
    return -1


def nf(p, max_steps=4000):
    """normal form under the context's oriented relations"""
    work = dict(p.terms)
    done = {}
    steps = 0
    while work:
        m, c = work.popitem()
        m2 = _mono_reduce(m)
        hit = None
        for lhs, rhs in CTX.rules:
            s = _find(m2, lhs)
            if s >= 0:
                hit = (s, lhs, rhs)
                break
        if hit is None:
            v = _c(done.get(m2, 0) + c)
            if v == 0:
                done.pop(m2, None)
            else:
                done[m2] = v
            continue
        steps += 1
        if steps > max_steps:
            raise Undecided("rewriting did not terminate within the step budget")
        s, lhs, rhs = hit
        pre, post = m2[:s], m2[s + len(lhs):]
        for rm, rc in rhs.terms.items():
            mm = pre + rm + post
            v = _c(work.get(mm, 0) + c * rc)
            if v == 0:
                work.pop(mm, None)
            else:
                work[mm] = v
    CTX.steps += steps
    if p.rows == ONE and p.cols == ONE and done:
        # a 1 x 1 polynomial equals its transpose: each monomial is replaced by the smaller of itself and its transpose
        canon = {}
        for m, c in done.items():
            mt = tuple(occ_T(o) for o in reversed(m))
            key_m = tuple((o[0].id, o[1], o[2]) for o in m)
            key_t = tuple((o[0].id, o[1], o[2]) for o in mt)
            mm = m if key_m <= key_t else mt
            v = _c(canon.get(mm, 0) + c)
            if v == 0:
                canon.pop(mm, None)
            else:
                canon[mm] = v
        done = canon
    return Poly(done, p.rows, p.cols)


# ---------------------------------------------------------------------------------------
# inverses, factorisations (contract shims at the polynomial level)


def _structure(p):
    """triangular structure of a polynomial: every term a product of atoms of one orientation"""
    kinds = set()
    for m in p.terms:
        ks = {occ_tri(o) for o in m} - {"diag"}
        if None in ks or len(ks) > 1:
            return None
        kinds |= ks or {"diag"}
    kinds -= {"diag"} if len(kinds) > 1 else set()
    return kinds.pop() if len(kinds) == 1 else None


def is_symmetric(p):
    return nf(p.T() - p).is_zero()


def inverse(p, why="matrix is non-singular"):
    """inverse of a square polynomial"""
    if p.rows != p.cols:
        raise ValueError("Last 2 dimensions of the array must be square")
    p = nf(p)
    s = p.single()
    if s is not None and all(o[0].inv for o in s[0]):
        m, c = s
        return Poly({tuple(occ_inv(o) for o in reversed(m)): _c(1 / c)}, p.rows, p.cols)
    if p.is_zero():
        raise Undecided("inverse of zero")
    lc, p = _monic(p)
    return _defined_inverse(p, why).scale(1 / lc)


def _same(q, p):
    """q == p under the *current* rules (stored polynomials were normalised under the rules of their time)"""
    return (q.rows, q.cols) == (p.rows, p.cols) and nf(q - p).is_zero()


def _monic(p):
    """p = lc * p_hat with the leading coefficient of p_hat equal to 1 (lc is a non-zero scalar: signs and non-zero symbols)"""
    lm, lc = leading(p)
    if lc == 1:
        return sp.Integer(1), p
    if not (lc.is_nonzero or lc.is_positive or lc.is_negative):
        CTX.hyp(f"scalar {lc} is non-zero")
    return lc, p.scale(1 / lc)


def _defined_inverse(p, why):
    for key, base, tr in CTX.defined:
        if _same(key, p):
            return Poly.atom(base, False, True)
        if tr is not None and _same(tr, p):
            return Poly.atom(base, True, True)
    k = next(CTX.fresh)
    symm = is_symmetric(p)
    base = Base(f"D{k}", p.rows, p.cols, sym=symm, inv=True, kind="defined", definition=p, tri=_structure(p) if _structure(p) in ("lower", "upper") else None)
    base.weight = 1
    CTX.defined.append((p, base, None if symm else _monic(nf(p.T()))[1]))
    if not symm and _monic(nf(p.T()))[0] != 1:
        raise Undecided("transpose of a monic polynomial is not monic")
    CTX.hyp(f"{base.name} := {p} is invertible ({why})")
    lp = lad_of(p)  # before the defining relation is added
    lm, c = leading(p)
    rest = p - Poly({lm: c}, p.rows, p.cols)
    one = Poly.identity(p.rows)
    di = Poly.atom(base, False, True)
    # D^-1 lm -> (1 - D^-1 rest)/c ; lm D^-1 -> (1 - rest D^-1)/c   (and transposes via add_rule)
    if lm:
        add_rule((occ(base, False, True),) + lm, (one - di * rest).scale(1 / c))
        add_rule(lm + (occ(base, False, True),), (one - rest * di).scale(1 / c))
    add_rule((occ(base),), p)
    if lp.is_Symbol:  # one lad symbol per polynomial (up to transposition)
        LAD_BASES.pop(base.lad, None)
        base.lad = lp
    else:
        CTX.lad_eqs.append(base.lad - lp)
    return di


def lad_of(p):
    """log|det p| as an expression in lad symbols"""
    p = nf(p)
    s = p.single()
    if s is not None:
        m, c = s
        if all(occ_shape(o)[0] == occ_shape(o)[1] for o in m):
            tot = p.rows * sp.log(sp.Abs(c)) if c not in (1, -1) else sp.Integer(0)
            for b, _t, i in m:
                if b.orth:
                    continue
                tot += -b.lad if i else b.lad
            return sp.expand(sp.expand_log(tot, force=True))
    lc, ph = _monic(p)
    pre = sp.expand(sp.expand_log(p.rows * sp.log(sp.Abs(lc)), force=True)) if lc not in (1, -1) else sp.Integer(0)
    for q, symb in CTX.lad_defs:
        if _same(q, ph) or _same(q.T(), ph):
            return pre + symb
    symb = sp.Symbol(f"lad_P{next(CTX.fresh)}", real=True)
    CTX.lad_defs.append((ph, symb))
    return pre + symb


def lad_equal(a, b):
    """a == b modulo the linear span of the recorded lad equations"""
    d = sp.expand(sp.expand_log(sp.sympify(a) - sp.sympify(b), force=True))
    if sp.simplify(d) == 0:
        return True
    eqs = [sp.expand(e) for e in CTX.lad_eqs]
    syms = sorted({s for e in eqs + [d] for s in e.free_symbols if s.name.startswith("lad_")}, key=lambda s: s.name)
    if not syms:
        return False

    def row(e):
        e = sp.expand(e)
        coeffs = [e.coeff(s) for s in syms]
        rest = sp.simplify(e - sum(c * s for c, s in zip(coeffs, syms)))
        return coeffs + [rest]
    rows = [row(e) for e in eqs]
    m0 = sp.Matrix(rows) if rows else sp.zeros(0, len(syms) + 1)
    m1 = sp.Matrix(rows + [row(d)])
    return m0.rank(simplify=True) == m1.rank(simplify=True)


def cholesky(p):
    p = nf(p)
    if p.rows != p.cols:
        raise ValueError("Last 2 dimensions of the array must be square")
    if not is_symmetric(p):
        raise Undecided(f"cholesky of a matrix not known to be symmetric: {p}")
    sc, p = _scale_split(p)
    if sc != 1:
        return cholesky(p).scale(sp.sqrt(sc))
    for q, r in CTX.__dict__.setdefault("chols", []):
        if _same(q, p):
            return r
    r = _new_cholesky(p)
    CTX.chols.append((p, r))
    return r


def split_square(p):
    """if p is a single term c * m m^T (c > 0) return sqrt(c) * m, else None"""
    s = p.single()
    if s is None:
        return None
    mono, c = s
    if not c.is_positive:
        return None
    if len(mono) == 0:
        return Poly.identity(p.rows).scale(sp.sqrt(c))
    if len(mono) % 2:
        return None
    j = len(mono) // 2
    left = mono[:j]
    if tuple(occ_T(o) for o in reversed(left)) != mono[j:]:
        return None
    return Poly({left: sp.sqrt(c)}, p.rows, occ_shape(left[-1])[1])


def _scale_split(p):
    """p = sc * p_hat with sc a positive scalar (absolute value of the leading coefficient when its sign is known)"""
    if p.is_zero():
        return sp.Integer(1), p
    _lm, lc = leading(p)
    if lc.is_positive:
        sc = lc
    elif lc.is_negative:
        sc = -lc
    else:
        return sp.Integer(1), p
    if sc == 1:
        return sp.Integer(1), p
    return sc, p.scale(1 / sc)


def _new_cholesky(p):
    k = next(CTX.fresh)
    L = Base(f"L{k}", p.rows, p.cols, inv=True, tri="lower", kind="defined", definition=p, fn="chol")
    L.weight = 1
    L.posdiag = True
    CTX.hyp(f"cholesky argument {p} is positive definite")
    CTX.lad_eqs.append(2 * L.lad - lad_of(p))  # before the defining relation rewrites p itself
    Lp = Poly.atom(L)
    prod = Lp * Lp.T()
    lm, c = leading(p)
    rest = p - Poly({lm: c}, p.rows, p.cols)
    if lm:
        add_rule(lm, (prod - rest).scale(1 / c))
        # the inverse of an eliminated invertible monomial
        if rest.is_zero() and all(o[0].inv for o in lm):
            add_rule(tuple(occ_inv(o) for o in reversed(lm)), inverse(prod).scale(c))
    else:  # p = c * identity
        add_rule((occ(L), occ(L, True)), p)
    return Lp


def sqrtm(p):
    p = nf(p)
    if not is_symmetric(p):
        raise Undecided(f"sqrtm of a matrix not known to be symmetric: {p}")
    sc, p = _scale_split(p)
    if sc != 1:
        return sqrtm(p).scale(sp.sqrt(sc))
    for q, r in CTX.__dict__.setdefault("sqrtms", []):
        if _same(q, p):
            return r
    r = _new_sqrtm(p)
    CTX.sqrtms.append((p, r))
    return r


def _new_sqrtm(p):
    k = next(CTX.fresh)
    S = Base(f"S{k}", p.rows, p.cols, sym=True, inv=True, kind="defined", definition=p, fn="sqrtm")
    S.weight = max(_weight(m) for m in p.terms) if p.terms else 1
    S.weight = S.weight // 2 + 1
    CTX.hyp(f"sqrtm argument {p} is symmetric positive definite (principal root is symmetric)")
    Sp = Poly.atom(S)
    CTX.lad_eqs.append(2 * S.lad - lad_of(p))
    add_rule((occ(S), occ(S)), p)
    return Sp


# ---------------------------------------------------------------------------------------
# numpy-like wrapper


class _Flags:
    def __init__(self):
        self.writeable = True


class NCArr:
    """symbolic array: ndim 2 (matrix) or 1 (vector, stored as a column)"""
    __array_ufunc__ = None
    __array_priority__ = 0.5

    def __init__(self, poly, ndim=2):
        self.p = poly
        self.ndim = ndim
        self.flags = _Flags()

    @property
    def shape(self):
        if self.ndim == 0:
            return ()
        return (self.p.rows, self.p.cols) if self.ndim == 2 else (self.p.rows,)

    @property
    def size(self):
        return self.p.rows * self.p.cols

    @property
    def T(self):
        return NCArr(self.p.T(), 2) if self.ndim == 2 else self

    def __float__(self):
        raise Undecided("float() of a symbolic scalar polynomial")

    def transpose(self):
        return self.T

    def copy(self):
        return NCArr(self.p, self.ndim)

    def _is_matrix_obj(self, o):
        return hasattr(o, "_left_matrix_multiply")

    def __matmul__(self, o):
        if self._is_matrix_obj(o):
            return NotImplemented
        if not isinstance(o, NCArr):
            raise Undecided(f"@ with {type(o).__name__}")
        if self.ndim == 2 and o.ndim == 2:
            return NCArr(self.p * o.p, 2)
        if self.ndim == 2 and o.ndim == 1:
            return NCArr(self.p * o.p, 1)
        if self.ndim == 1 and o.ndim == 2:
            return NCArr(o.p.T() * self.p, 1)
        if self.ndim == 1 and o.ndim == 1:
            return NCArr(self.p.T() * o.p, 0)  # inner product: a 1 x 1 polynomial (a scalar; equal to its own transpose)
        raise Undecided("product with a symbolic scalar polynomial")

    def __rmatmul__(self, o):
        if isinstance(o, NCArr):
            return o.__matmul__(self)
        return NotImplemented

    def _lin(self, o, sgn):
        if isinstance(o, NCArr):
            if o.ndim != self.ndim:
                raise Undecided("broadcast between vector and matrix")
            return NCArr(self.p + (o.p if sgn > 0 else -o.p), self.ndim)
        if isinstance(o, DiagVec):
            raise Undecided("broadcast add with a diagonal vector")
        return NotImplemented

    def __add__(self, o):
        return self._lin(o, 1)
    __radd__ = __add__

    def __sub__(self, o):
        return self._lin(o, -1)

    def __rsub__(self, o):
        r = self._lin(o, -1)
        return r if r is NotImplemented else -r

    def __neg__(self):
        return NCArr(-self.p, self.ndim)

    def __pos__(self):
        return self

    def __mul__(self, o):
        if isinstance(o, DiagVec):  # X * d : column scaling (broadcast over the last axis); x * d for vectors
            return NCArr(self.p * o.mat(), 2) if self.ndim == 2 else NCArr(o.mat() * self.p, 1)
        s = as_scalar(o)
        if s is None:
            if isinstance(o, NCArr):
                raise Undecided("elementwise product of symbolic arrays")
            return NotImplemented
        return NCArr(self.p.scale(s), self.ndim)
    __rmul__ = __mul__

    def __truediv__(self, o):
        if isinstance(o, DiagVec):
            return self * (1 / o)
        s = as_scalar(o)
        if s is None:
            if isinstance(o, NCArr):
                raise Undecided("elementwise division of symbolic arrays")
            return NotImplemented
        return NCArr(self.p.scale(1 / sp.sympify(s)), self.ndim)

    def diagonal(self):
        return DiagOf(self.p)

    def sum(self, *a, **k):
        raise Undecided("sum over entries of a symbolic array")

    def __getitem__(self, k):
        raise Undecided("indexing into a symbolic array")

    def __setitem__(self, k, v):
        raise Undecided("item assignment into a symbolic array")

    def __array__(self, *a, **k):
        raise Undecided("conversion of a symbolic array to a numpy array")

    def __repr__(self):
        return f"NCArr[{self.shape}]({self.p})"


class Scal:
    """symbolic real scalar (wraps a sympy expression); a numbers.Number so that the library's `_is_scalar` accepts it"""
    __array_ufunc__ = None
    __slots__ = ("e",)

    def __init__(self, e):
        e = sp.sympify(e)
        self.e = sp.nsimplify(e, rational=True) if e.has(sp.Float) else e

    @staticmethod
    def _x(o):
        if isinstance(o, Scal):
            return o.e
        if isinstance(o, (NCArr, DiagVec, DiagOf, LUToken, _LUUpper)) or hasattr(o, "_left_matrix_multiply"):
            return None
        return as_scalar(o)

    def _bin(self, o, f):
        x = self._x(o)
        return NotImplemented if x is None else Scal(f(self.e, x))

    def __add__(self, o):
        return self._bin(o, lambda a, b: a + b)
    __radd__ = __add__

    def __sub__(self, o):
        return self._bin(o, lambda a, b: a - b)

    def __rsub__(self, o):
        return self._bin(o, lambda a, b: b - a)

    def __mul__(self, o):
        return self._bin(o, lambda a, b: a * b)
    __rmul__ = __mul__

    def __truediv__(self, o):
        return self._bin(o, lambda a, b: a / b)

    def __rtruediv__(self, o):
        return self._bin(o, lambda a, b: b / a)

    def __pow__(self, o):
        return self._bin(o, lambda a, b: sp.sqrt(a) if b == sp.Rational(1, 2) else a ** b)

    def __neg__(self):
        return Scal(-self.e)

    def __pos__(self):
        return self

    def __abs__(self):
        if self.e.is_positive:
            return self
        if self.e.is_negative:
            return Scal(-self.e)
        return Scal(sp.Abs(self.e))

    def _cmp(self, o, op):
        x = self._x(o)
        if x is None:
            return NotImplemented
        d = sp.simplify(self.e - x)
        if d.is_positive:
            sgn = 1
        elif d.is_negative:
            sgn = -1
        elif d.is_zero:
            sgn = 0
        else:
            raise Undecided(f"sign of {d}")
        return {"lt": sgn < 0, "le": sgn <= 0, "gt": sgn > 0, "ge": sgn >= 0}[op]

    def __lt__(self, o):
        return self._cmp(o, "lt")

    def __le__(self, o):
        return self._cmp(o, "le")

    def __gt__(self, o):
        return self._cmp(o, "gt")

    def __ge__(self, o):
        return self._cmp(o, "ge")

    def __eq__(self, o):
        x = self._x(o)
        if x is None:
            return False
        d = sp.simplify(self.e - x)
        if d == 0:
            return True
        if d.is_nonzero or d.is_positive or d.is_negative:
            return False
        raise Undecided(f"whether {d} is zero")

    def __ne__(self, o):
        return not self.__eq__(o)

    def __hash__(self):
        return hash(self.e)

    def __repr__(self):
        return f"Scal({self.e})"


import numbers as _numbers

_numbers.Number.register(Scal)


def as_scalar(o):
    if isinstance(o, Scal):
        return o.e
    if isinstance(o, (bool, _np.bool_)):
        return sp.Integer(int(o))
    if isinstance(o, (int, _np.integer)):
        return sp.Integer(int(o))
    if isinstance(o, (float, _np.floating)):
        return sp.nsimplify(float(o), rational=True)
    if isinstance(o, sp.Expr):
        return o
    if isinstance(o, _np.ndarray) and o.ndim == 0:
        return as_scalar(o.item())
    return None


class DiagVec:
    """1-D array standing for the diagonal of a diagonal matrix atom (eigenvalues, diagonal parameters):
    elementwise arithmetic between such vectors is arithmetic of the (commuting) diagonal matrices"""
    __array_ufunc__ = None
    ndim = 1

    def __init__(self, poly, positive=False):
        self._p = poly  # polynomial over diagonal atoms
        self.positive = positive
        self.flags = _Flags()

    def mat(self):
        return self._p

    @property
    def shape(self):
        return (self._p.rows,)

    @property
    def size(self):
        return self._p.rows

    def __mul__(self, o):
        if isinstance(o, DiagVec):
            return DiagVec(self._p * o._p, self.positive and o.positive)
        if isinstance(o, NCArr):
            if o.ndim == 1:
                return NCArr(self._p * o.p, 1)
            return NCArr(o.p * self._p, 2)  # d * X broadcasts over the last axis: column scaling
        s = as_scalar(o)
        if s is None:
            return NotImplemented
        return DiagVec(self._p.scale(s), self.positive and bool(s.is_positive))
    __rmul__ = __mul__

    def __truediv__(self, o):
        if isinstance(o, DiagVec):
            return self * (1 / o)
        s = as_scalar(o)
        if s is None:
            return NotImplemented
        return DiagVec(self._p.scale(1 / s), self.positive and bool(s.is_positive))

    def __rtruediv__(self, o):
        s = as_scalar(o)
        if s is None:
            if isinstance(o, NCArr):
                return o * (1 / self)
            return NotImplemented
        return DiagVec(inverse(self._p, "diagonal entries are non-zero").scale(s), self.positive and bool(s.is_positive))

    def __neg__(self):
        return DiagVec(-self._p, False)

    def __add__(self, o):
        if isinstance(o, DiagVec):
            return DiagVec(self._p + o._p, self.positive and o.positive)
        s = as_scalar(o)  # elementwise d + s is the diagonal of diag(d) + s I
        if s is None:
            return NotImplemented
        return DiagVec(self._p + Poly.identity(self._p.rows).scale(s), self.positive and bool(s.is_nonnegative))
    __radd__ = __add__

    def __sub__(self, o):
        return self + (-o if isinstance(o, DiagVec) else -as_scalar(o) if as_scalar(o) is not None else NotImplemented)

    def __rsub__(self, o):
        return (-self) + o

    def __pow__(self, e):
        e = as_scalar(e)
        if e == sp.Rational(1, 2):
            if not self.positive:
                raise Undecided("square root of a diagonal not known to be positive")
            p = nf(self._p)
            for q, r in getattr(CTX, "diag_sqrts", []):
                if q == p:
                    return DiagVec(r, True)
            k = next(CTX.fresh)
            R = Base(f"R{k}", p.rows, p.cols, diag=True, inv=True, kind="defined", definition=p, fn="sqrt-of")
            R.weight = 1
            R.posdiag = True
            Rp = Poly.atom(R)
            s = p.single()
            if s is not None and len(s[0]) == 1:
                add_rule(s[0], (Rp * Rp).scale(1 / s[1]))
                add_rule((occ_inv(s[0][0]),), (inverse(Rp) * inverse(Rp)).scale(s[1]))
            else:
                add_rule((occ(R), occ(R)), p)
            CTX.lad_eqs.append(2 * R.lad - lad_of(p))
            CTX.__dict__.setdefault("diag_sqrts", []).append((p, Rp))
            return DiagVec(Rp, True)
        if e == 2:
            return self * self
        if e == -1:
            return 1 / self
        raise Undecided(f"power {e} of a diagonal vector")

    def __gt__(self, o):
        if as_scalar(o) == 0:
            return _np.bool_(self.positive) if self.positive else _undecided("sign of a diagonal vector")
        raise Undecided("comparison of a diagonal vector")

    def __getitem__(self, k):
        if k == (slice(None), None):
            return _ColDiag(self)
        raise Undecided("indexing into a diagonal vector")

    def sum(self):
        raise Undecided("sum of a diagonal vector")

    def __repr__(self):
        return f"DiagVec({self._p})"


def _undecided(msg):
    raise Undecided(msg)


class _ColDiag:
    """d[:, None]: broadcasting over rows -- (d[:, None] * X) = diag(d) @ X"""
    __array_ufunc__ = None

    def __init__(self, d):
        self.d = d

    def __mul__(self, o):
        if isinstance(o, NCArr) and o.ndim == 2:
            return NCArr(self.d.mat() * o.p, 2)
        raise Undecided("broadcast of d[:, None]")
    __rmul__ = __mul__


class DiagOf:
    """the diagonal of a symbolic matrix, usable only through log|.|-sums (and as a DiagVec for diagonal matrices)"""
    __array_ufunc__ = None
    ndim = 1

    def __init__(self, poly, ops=(), kind="array"):
        self.poly, self.ops, self.kind = poly, tuple(ops), kind

    @property
    def shape(self):
        return (self.poly.rows,)

    def _with(self, op):
        return DiagOf(self.poly, self.ops + (op,), self.kind)

    def sum(self):
        if self.ops == ("abs", "log"):
            p = nf(self.poly)
            if self.kind == "lu":
                return lad_of(p)
            st = _structure(p)
            if st in ("lower", "upper", "diag"):
                return lad_of(p)
            raise Undecided(f"sum(log|diag|) of a matrix not known to be triangular: {p}")
        if self.ops == ("log",):
            # log without abs: defined only where every diagonal entry is positive -- true for Cholesky factors and positive diagonal parameters,
            # not for an arbitrary triangular / LU factor (whose diagonal may carry any signs: log|det| is still an ordinary number there)
            p = nf(self.poly)
            positive = self.kind != "lu" and bool(p.terms) and all(c.is_positive and all(getattr(o[0], "posdiag", False) for o in m) for m, c in p.terms.items()) \
                and len(p.terms) == 1
            if positive:
                return lad_of(p)
            raise DomainError(f"log of the diagonal of {p} without abs(): the diagonal of this factor is not known to be positive (nan for a negative entry, "
                              "although log|det| is finite)")
        raise Undecided(f"sum of the diagonal of a symbolic matrix after {self.ops}")

    def __rtruediv__(self, o):
        raise Undecided("reciprocal of the diagonal of a symbolic matrix")

    def __mul__(self, o):
        raise Undecided("arithmetic with the diagonal of a symbolic matrix")
    __rmul__ = __mul__
    __add__ = __radd__ = __mul__


# ---------------------------------------------------------------------------------------
# numpy / scipy.linalg stand-ins bound to the module globals of mici.matrices during a trace


class _NdarrayMeta(type):
    def __instancecheck__(cls, x):
        return isinstance(x, (_np.ndarray, NCArr, DiagVec))


class _Ndarray(metaclass=_NdarrayMeta):
    pass


class LinAlgError(ValueError):
    pass


class LUToken:
    """packed LU factors of `poly` (scipy.linalg.lu_factor): strictly lower part = L (unit diagonal implicit), upper part
    including the diagonal = U, P L U = poly.  The only arithmetic modelled is the library's rescaling idiom
    `lu + (s - 1) * np.triu(lu)`, which multiplies U, hence the factored matrix, by s."""
    __array_ufunc__ = None

    def __init__(self, poly):
        self.poly = poly
        self.shape = (poly.rows, poly.cols)
        self.flags = _Flags()

    def diagonal(self):
        return DiagOf(self.poly, kind="lu")

    def __add__(self, o):
        if isinstance(o, _LUUpper) and o.tok is self:
            f = _c(1 + o.coef)
            if f == 0:
                raise Undecided("LU factors scaled by zero")
            return LUToken(self.poly.scale(f))
        raise Undecided("arithmetic on packed LU factors other than the upper-triangle rescaling idiom")
    __radd__ = __add__

    def __sub__(self, o):
        if isinstance(o, _LUUpper):
            return self + _LUUpper(o.tok, -o.coef)
        raise Undecided("arithmetic on packed LU factors other than the upper-triangle rescaling idiom")

    def __mul__(self, o):
        raise Undecided("arithmetic on packed LU factors other than the upper-triangle rescaling idiom")
    __rmul__ = __rsub__ = __truediv__ = __mul__


class _LUUpper:
    """coef * np.triu(lu): the U factor (with its diagonal) of a packed LU token"""
    __array_ufunc__ = None

    def __init__(self, tok, coef=1):
        self.tok, self.coef = tok, sp.sympify(coef)

    def __mul__(self, o):
        x = as_scalar(o)
        if x is None:
            return NotImplemented
        return _LUUpper(self.tok, _c(self.coef * x))
    __rmul__ = __mul__

    def __truediv__(self, o):
        x = as_scalar(o)
        if x is None:
            return NotImplemented
        return _LUUpper(self.tok, _c(self.coef / x))

    def __neg__(self):
        return _LUUpper(self.tok, -self.coef)


class NPShim:
    ndarray = _Ndarray

    def __getattr__(self, name):
        real = getattr(_np, name)
        if callable(real) and not isinstance(real, type):
            def guarded(*a, **k):
                if any(isinstance(x, (NCArr, DiagVec, DiagOf, LUToken, _LUUpper, Scal, sp.Basic)) for x in a):
                    raise Undecided(f"numpy.{name} on symbolic operands is not modelled")
                return real(*a, **k)
            return guarded
        return real

    @staticmethod
    def identity(n, *a, **k):
        if isinstance(n, sp.Basic) and not n.is_Integer:
            return NCArr(Poly.identity(n), 2)
        return _np.identity(int(n), *a, **k)

    @staticmethod
    def asarray_chkfinite(x, *a, **k):
        if hasattr(x, "_left_matrix_multiply"):  # a Matrix object converts through __array__
            x = x.__array__()
        return x if isinstance(x, (NCArr, DiagVec)) else _np.asarray_chkfinite(x, *a, **k)

    @staticmethod
    def asarray(x, *a, **k):
        if hasattr(x, "_left_matrix_multiply"):
            x = x.__array__()
        return x if isinstance(x, (NCArr, DiagVec)) else _np.asarray(x, *a, **k)

    @staticmethod
    def ndim(x):
        if isinstance(x, (NCArr, DiagVec, DiagOf)):
            return x.ndim
        if isinstance(x, (sp.Basic, Scal)):
            return 0
        return _np.ndim(x)

    @staticmethod
    def outer(a, b):
        if isinstance(a, NCArr) and isinstance(b, NCArr) and a.ndim == b.ndim == 1:
            return NCArr(a.p * b.p.T(), 2)
        raise Undecided("outer of non-vector symbolic operands")

    @staticmethod
    def _tri(x, lower):
        if not isinstance(x, NCArr):
            return _np.tril(x) if lower else _np.triu(x)
        p = nf(x.p)
        st = _structure(p)
        want = "lower" if lower else "upper"
        if st == want or st == "diag":
            return NCArr(p, 2)
        s = p.single()
        key = ("tri", want, p)
        for k2, r in CTX.__dict__.setdefault("tri_parts", []):
            if k2 == key:
                return NCArr(r, 2)
        k = next(CTX.fresh)
        B = Base(f"{'tril' if lower else 'triu'}{k}", p.rows, p.cols, tri=want, inv=True, kind="defined", definition=p, fn="tril" if lower else "triu")
        B.weight = 1
        CTX.hyp(f"{B.name} := {'lower' if lower else 'upper'} triangle of {p} has a non-zero diagonal")
        r = Poly.atom(B)
        CTX.tri_parts.append((key, r))
        del s
        return NCArr(r, 2)

    def tril(self, x, k=0):
        if k != 0:
            raise Undecided("tril with offset")
        if isinstance(x, LUToken):
            raise Undecided("lower part of packed LU factors")
        return self._tri(x, True)

    def triu(self, x, k=0):
        if k != 0:
            raise Undecided("triu with offset")
        if isinstance(x, LUToken):
            return _LUUpper(x)
        return self._tri(x, False)

    @staticmethod
    def diag(d):
        if isinstance(d, DiagVec):
            return NCArr(d.mat(), 2)
        if isinstance(d, (NCArr, DiagOf)):
            raise Undecided("np.diag of a symbolic non-diagonal operand")
        return _np.diag(d)

    @staticmethod
    def abs(x):
        if isinstance(x, DiagOf):
            return x._with("abs")
        if isinstance(x, DiagVec):
            return DiagOf(x.mat())._with("abs")
        if isinstance(x, Scal):
            return abs(x)
        if isinstance(x, sp.Basic):
            return sp.Abs(x)
        return _np.abs(x)

    @staticmethod
    def log(x):
        if isinstance(x, DiagOf):
            return x._with("log")
        if isinstance(x, DiagVec):
            d = DiagOf(x.mat())
            if x.positive:
                return d._with("abs")._with("log")
            return d._with("log")
        if isinstance(x, Scal):
            return Scal(sp.log(x.e))
        if isinstance(x, sp.Basic):
            return sp.log(x)
        return _np.log(x)

    @staticmethod
    def sign(x):
        if isinstance(x, Scal):
            x = x.e
        if isinstance(x, sp.Basic):
            s = sp.sign(x)
            if s in (1, -1):
                return int(s)
            raise Undecided(f"sign of {x}")
        return _np.sign(x)

    @staticmethod
    def all(x, *a, **k):
        if isinstance(x, (bool, _np.bool_)):
            return bool(x)
        return _np.all(x, *a, **k)

    @staticmethod
    def zeros_like(x, *a, **k):
        if isinstance(x, NCArr):
            return NCArr(Poly.zero(x.p.rows, x.p.cols), x.ndim)
        return _np.zeros_like(x, *a, **k)

    @staticmethod
    def ones(n, *a, **k):
        if isinstance(n, sp.Basic) and not n.is_Integer:
            raise Undecided("np.ones of symbolic size (entry-level)")
        return _np.ones(n, *a, **k)

    @staticmethod
    def array_equal(a, b):
        if isinstance(a, NCArr) and isinstance(b, NCArr):
            return nf(a.p - b.p).is_zero()
        if isinstance(a, DiagVec) and isinstance(b, DiagVec):
            return nf(a.mat() - b.mat()).is_zero()
        return _np.array_equal(a, b)


class NLAShim:
    LinAlgError = LinAlgError

    def __getattr__(self, name):
        raise Undecided(f"numpy.linalg.{name} is not modelled in the dimension-generic engine")

    @staticmethod
    def cholesky(x):
        if not isinstance(x, NCArr):
            return _np.linalg.cholesky(x)
        return NCArr(cholesky(x.p), 2)

    @staticmethod
    def eigh(x):
        if not isinstance(x, NCArr):
            return _np.linalg.eigh(x)
        p = nf(x.p)
        if not is_symmetric(p):
            raise Undecided("eigh of a matrix not known to be symmetric")
        lc, p = _monic(p)
        for q, (Ep, Qp) in CTX.__dict__.setdefault("eighs", []):
            if _same(q, p):
                return DiagVec(Ep.scale(lc)), NCArr(Qp, 2)
        Ep, Qp = NLAShim._new_eigh(p)
        CTX.eighs.append((p, (Ep, Qp)))
        return DiagVec(Ep.scale(lc)), NCArr(Qp, 2)

    @staticmethod
    def _new_eigh(p):
        k = next(CTX.fresh)
        Q = Base(f"Q{k}", p.rows, p.cols, orth=True, kind="defined", definition=p, fn="eigvec")
        E = Base(f"E{k}", p.rows, p.cols, diag=True, inv=True, kind="defined", definition=p, fn="eigval")
        Q.weight = E.weight = 1
        CTX.hyp(f"eigh argument {p} is symmetric and non-singular")
        Qp, Ep = Poly.atom(Q), Poly.atom(E)
        CTX.lad_eqs.append(E.lad - lad_of(p))
        lm, c = leading(p)
        rest = p - Poly({lm: c}, p.rows, p.cols)
        if lm:
            add_rule(lm, (Qp * Ep * Qp.T() - rest).scale(1 / c))
            if rest.is_zero() and all(o[0].inv for o in lm):
                add_rule(tuple(occ_inv(o) for o in reversed(lm)), (Qp * inverse(Ep) * Qp.T()).scale(c))
        return Ep, Qp


class SLAShim:
    @staticmethod
    def solve_triangular(a, b, trans=0, lower=False, unit_diagonal=False, overwrite_b=False, check_finite=True):
        if not isinstance(a, NCArr):
            raise Undecided("solve_triangular with a numeric matrix and symbolic right-hand side")
        if unit_diagonal:
            raise Undecided("unit_diagonal")
        p = nf(a.p)
        st = _structure(p)
        want = "lower" if lower else "upper"
        if st not in (want, "diag"):
            # only the named triangle is read
            p = NPShim._tri(NCArr(p, 2), lower).p
        if trans in (1, "T", 2, "C"):
            p = p.T()
        elif trans not in (0, "N"):
            raise Undecided(f"trans={trans}")
        pinv = inverse(p, "triangular matrix has a non-zero diagonal")
        if not isinstance(b, NCArr):
            raise Undecided("solve_triangular with a numeric right-hand side")
        return NCArr(pinv * b.p, b.ndim)

    @staticmethod
    def lu_factor(a, overwrite_a=False, check_finite=True):
        if not isinstance(a, NCArr):
            raise Undecided("lu_factor of a numeric array in a symbolic trace")
        return LUToken(nf(a.p)), "piv"

    @staticmethod
    def lu_solve(lu_and_piv, b, trans=0, overwrite_b=False, check_finite=True):
        lu, _piv = lu_and_piv
        if not isinstance(lu, LUToken) or not isinstance(b, NCArr):
            raise Undecided("lu_solve with non-symbolic factors")
        p = lu.poly
        if trans in (1, 2, True):
            p = p.T()
        elif trans not in (0, False):
            raise Undecided(f"trans={trans}")
        return NCArr(inverse(p, "LU-factored matrix is non-singular") * b.p, b.ndim)

    @staticmethod
    def sqrtm(a, *args, **k):
        if not isinstance(a, NCArr):
            raise Undecided("sqrtm of a numeric array in a symbolic trace")
        return NCArr(sqrtm(a.p), 2)

    @staticmethod
    def block_diag(*a):
        raise Undecided("block_diag on symbolic blocks (block classes are decided by Engine B at fixed shapes)")

    @staticmethod
    def cho_solve(c_and_lower, b, overwrite_b=False, check_finite=True):
        """scipy's convention: solves (c c^T) x = b for lower=True and (c^T c) x = b for lower=False, reading only the named triangle of c"""
        c, lower = c_and_lower
        if not isinstance(c, NCArr) or not isinstance(b, NCArr):
            raise Undecided("cho_solve with non-symbolic operands")
        p = nf(c.p)
        if _structure(p) not in ("lower" if lower else "upper", "diag"):
            p = NPShim._tri(NCArr(p, 2), bool(lower)).p
        a = p * p.T() if lower else p.T() * p
        return NCArr(inverse(a, "Cholesky-factored matrix is non-singular") * b.p, b.ndim)

    def __getattr__(self, name):
        # a scipy.linalg routine this engine has no model of: the obligation is undecided, never a violation
        raise Undecided(f"scipy.linalg.{name} is not modelled in the dimension-generic engine")


import contextlib


@contextlib.contextmanager
def shimmed(module):
    saved = {k: getattr(module, k) for k in ("np", "nla", "sla") if hasattr(module, k)}
    module.np, module.nla, module.sla = NPShim(), NLAShim(), SLAShim()
    try:
        yield
    finally:
        for k, v in saved.items():
            setattr(module, k, v)


# ---------------------------------------------------------------------------------------
# numeric evaluation (refutation search and witnesses)


class Numeric:
    """assigns concrete random structured matrices to the atoms for a concrete dimension assignment"""

    def __init__(self, dims, seed):
        self.dims = dims  # {symbol: int}
        self.rnd = _np.random.default_rng(seed)
        self.seed = seed
        self.vals = {}

    def dim(self, d):
        if d == ONE:
            return 1
        return int(sp.sympify(d).subs(self.dims))

    def base(self, b):
        if b.id in self.vals:
            return self.vals[b.id]
        r, c = self.dim(b.rows), self.dim(b.cols)
        if b.kind == "defined":
            a = self.poly(b.definition)
            if b.fn is None:
                v = a
            elif b.fn == "chol":
                v = _np.linalg.cholesky(a)
            elif b.fn == "sqrtm":
                w, q = _np.linalg.eigh(a)
                if w.min() <= 0:
                    raise FloatingPointError("sqrtm argument not positive definite at the sample")
                v = (q * _np.sqrt(w)) @ q.T
            elif b.fn in ("eigvec", "eigval"):
                w, q = _np.linalg.eigh((a + a.T) / 2)
                v = q if b.fn == "eigvec" else _np.diag(w)
                other = [x for x in self._siblings(b)]
                del other
            elif b.fn == "tril":
                v = _np.tril(a)
            elif b.fn == "triu":
                v = _np.triu(a)
            elif b.fn == "sqrt-of":
                v = _np.diag(_np.sqrt(_np.diag(a)))
            else:
                raise Undecided(b.fn)
        elif b.orth:
            v = _np.linalg.qr(self.rnd.standard_normal((r, r)))[0]
        elif b.diag:
            v = _np.diag(self.rnd.uniform(0.5, 2.0, r) * (1 if b.pd else self.rnd.choice([-1.0, 1.0], r)))
        elif b.tri:
            m = self.rnd.standard_normal((r, r))
            m = _np.tril(m) if b.tri == "lower" else _np.triu(m)
            m[_np.diag_indices(r)] = self.rnd.uniform(0.5, 2.0, r)
            v = m
        elif b.pd:
            m = self.rnd.standard_normal((r, r))
            v = m @ m.T + r * _np.identity(r)
        elif b.sym:
            m = self.rnd.standard_normal((r, r))
            v = (m + m.T) / 2 + (r * _np.identity(r) if b.inv else 0)
        elif b.inv:
            v = self.rnd.standard_normal((r, r)) + 2 * r * _np.identity(r)
        else:
            v = self.rnd.standard_normal((r, c))
        self.vals[b.id] = v
        return v

    def _siblings(self, b):
        return []

    def occ(self, o):
        b, t, i = o
        v = self.base(b)
        if i:
            v = _np.linalg.inv(v)
        if t:
            v = v.T
        return v

    def scalar(self, c):
        c = sp.sympify(c)
        subs = {}
        for s in sorted(c.free_symbols, key=lambda s_: s_.name):
            if s in self.dims:
                subs[s] = self.dims[s]
                continue
            key = ("scalar", s.name)
            if key not in self.vals:
                self.vals[key] = float(self.rnd.uniform(0.5, 2.0)) * (1.0 if s.is_positive else (-1.0 if s.is_negative else float(self.rnd.choice([-1.0, 1.0]))))
            subs[s] = self.vals[key]
        return float(c.subs(subs))

    def poly(self, p):
        out = _np.zeros((self.dim(p.rows), self.dim(p.cols)))
        for m, c in p.terms.items():
            v = _np.identity(self.dim(p.rows)) if not m else None
            for o in m:
                v = self.occ(o) if v is None else v @ self.occ(o)
            out = out + self.scalar(c) * v
        return out


def numeric_refute(p, dims_list, seeds=(11, 23)):
    """-> (refuted?, witness) : refuted only if non-zero at every (dims, seed) tried"""
    results = []
    for dims in dims_list:
        for seed in seeds:
            try:
                num = Numeric(dims, seed)
                v = num.poly(p)
            except (FloatingPointError, _np.linalg.LinAlgError):
                continue
            scale = 1.0 + max((float(_np.abs(num.poly(Poly({m: c}, p.rows, p.cols))).max()) for m, c in p.terms.items()), default=0.0)
            err = float(_np.abs(v).max()) / scale
            results.append((err > 1e-8, {"dims": {str(k): v2 for k, v2 in dims.items()}, "seed": seed, "relative_residual": err}))
    if not results:
        raise Undecided("no admissible numeric sample")
    if all(r for r, _ in results):
        return True, results[0][1]
    if not any(r for r, _ in results):
        return False, None
    raise Undecided("numeric samples disagree")


def decide_equal(got, want, dims_list):
    """-> (status, backend, detail, witness); status in discharged | failed | unknown"""
    if (got.rows, got.cols) != (want.rows, want.cols):
        return "failed", "nc-shape", f"shape ({got.rows},{got.cols}) != ({want.rows},{want.cols})", None
    try:
        d = nf(got - want)
    except Undecided as e:
        return "unknown", "nc-rewrite", str(e), None
    if d.is_zero():
        return "discharged", "nc-rewrite", "", None
    try:
        ref, wit = numeric_refute(got - want, dims_list)
    except Undecided as e:
        return "unknown", "nc-rewrite", f"normal form not zero ({str(d)[:200]}); {e}", None
    if ref:
        return "failed", "nc-rewrite+numeric-witness", f"normal form of got - want is {str(d)[:300]}", wit
    return "unknown", "nc-rewrite", f"normal form not zero but numerically zero: {str(d)[:300]}", None


def decide_inverse(got, of, dims_list):
    """got == of^{-1}, proved as of * got == 1 (a right inverse of a square matrix is the inverse)"""
    one = Poly.identity(of.rows)
    st = decide_equal(of * got, one, dims_list)
    if st[0] == "discharged":
        return st
    st2 = decide_equal(got * of, one, dims_list)
    return st2 if st2[0] == "discharged" else st


# ---------------------------------------------------------------------------------------
# numeric evaluation of lad expressions (refutation of log|det| obligations)

LAD_BASES = {}


def _register_lad(base):
    LAD_BASES[base.lad] = base


_orig_base_init = Base.__init__


def _base_init(self, *a, **k):
    _orig_base_init(self, *a, **k)
    _register_lad(self)


Base.__init__ = _base_init


def lad_numeric(expr, num):
    expr = sp.sympify(expr)
    subs = {}
    for s in expr.free_symbols:
        if s in num.dims:
            subs[s] = num.dims[s]
        elif s in LAD_BASES:
            subs[s] = float(_np.linalg.slogdet(num.base(LAD_BASES[s]))[1])
        else:
            hit = [q for q, sy in CTX.lad_defs if sy == s]
            if hit:
                subs[s] = float(_np.linalg.slogdet(num.poly(hit[0]))[1])
            else:
                subs[s] = num.scalar(s)
    return float(expr.subs(subs))


def lad_refute(got, want, dims_list, seeds=(11, 23)):
    res = []
    for dims in dims_list:
        for seed in seeds:
            try:
                num = Numeric(dims, seed)
                d = lad_numeric(sp.sympify(got) - sp.sympify(want), num)
            except (FloatingPointError, _np.linalg.LinAlgError, TypeError):
                continue
            res.append((abs(d) > 1e-7, {"dims": {str(a): b for a, b in dims.items()}, "seed": seed, "difference": d}))
    if not res:
        raise Undecided("no admissible numeric sample")
    if all(r for r, _ in res):
        return True, res[0][1]
    if not any(r for r, _ in res):
        return False, None
    raise Undecided("numeric samples disagree")
