"""Engine B: the real numeric classes of mici.matrices / mici.systems executed on *exact symbolic arrays*.

Arrays are ordinary numpy object arrays (so broadcasting, slicing, @, tril, diag, ... are numpy's own semantics) whose
elements are `SE` scalars wrapping sympy expressions over real symbols.  Only the LAPACK-level primitives are replaced, by
contract shims bound to the module globals `nla` / `sla` of the module under verification, in the checker process only:
  solve_triangular, lu_factor, lu_solve, cholesky, eigh, sqrtm, block_diag
Each is an exact symbolic algorithm (substitution, Doolittle LU without pivoting, symbolic Cholesky, registered
eigendecompositions, closed-form 2x2 square root) -- the trusted base A5 of this engine.

An obligation is an equality of two symbolic arrays for one *shape instance* (dimension 1..3) and is decided exactly:
  refute : exact/high-precision evaluation at random points satisfying the declared sign assumptions (gives a witness)
  prove  : the difference simplifies to zero over Q(params) [together+expand, radical / log / trig rewriting]
A difference that vanishes at every sampled point but is not simplified to zero is reported `bounded` (numeric only).
Proofs hold for ALL real parameter values at the listed shapes; dimension-genericity is NOT proved (stated in evidence).
"""
from __future__ import annotations

import contextlib
import itertools
import numbers
import random
import time

import numpy as np
import sympy as sp


class Undecided(Exception):
    pass


def is_artefact(e):
    """an exception that stems from running numpy ufuncs on exact symbolic (object dtype) arrays -- no object loop, no cast from object to float64 -- rather than
    from the code under verification: such a path is UNDECIDED, never a violation"""
    name, msg = type(e).__name__, str(e)
    return ("UFunc" in name or "Cannot cast ufunc" in msg or "not supported for the input types" in msg or "did not contain a loop" in msg
            or ("object" in msg and "dtype" in msg and isinstance(e, TypeError)))


class Path:
    """one execution path of a method that branches on a symbolic scalar: decision vector + accumulated sign constraints"""

    def __init__(self, prefix, pending):
        self.prefix, self.pending = list(prefix), pending
        self.trace, self.constraints = [], []


PATH = None


def decide_sign(d):
    """sign of d from assumptions, else (inside run_paths) a forked decision recorded as a path constraint"""
    s = sign_of(d)
    if s is not None:
        return s
    if PATH is None:
        raise Undecided(f"cannot decide sign of {d}")
    for (e, c) in PATH.constraints:
        if sp.simplify(e - d) == 0:
            return c
        if sp.simplify(e + d) == 0:
            return -c
    k = len(PATH.trace)
    if k < len(PATH.prefix):
        c = PATH.prefix[k]
    else:
        c = 1
        PATH.pending.append(PATH.trace + [-1])
    PATH.trace.append(c)
    PATH.constraints.append((d, c))
    return c


def run_paths(fn, max_paths=8):
    """re-executes fn() once per decision vector; fn receives the Path (for labelling). Returns number of paths."""
    global PATH
    pending = [[]]
    n = 0
    try:
        while pending and n < max_paths:
            PATH = Path(pending.pop(), pending)
            n += 1
            fn(PATH)
        if pending:
            raise Undecided(f"more than {max_paths} execution paths")
    finally:
        PATH = None
    return n


def _e(o):
    if isinstance(o, SE):
        return o.e
    if isinstance(o, (bool, np.bool_)):
        return sp.Integer(int(o))
    if isinstance(o, (int, np.integer)):
        return sp.Integer(int(o))
    if isinstance(o, (float, np.floating)):
        if o != o or o in (float("inf"), float("-inf")):
            raise Undecided(f"non-finite float {o} in symbolic arithmetic")
        return sp.Rational(float(o))
    if isinstance(o, sp.Expr):
        return o
    return NotImplemented


class SE:
    """exact symbolic real scalar"""
    __slots__ = ("e",)

    def __init__(self, e):
        self.e = sp.sympify(e)

    # arithmetic -----------------------------------------------------------------------------
    def _bin(self, o, f):
        x = _e(o)
        if x is NotImplemented:
            return NotImplemented
        return SE(f(self.e, x))

    def __add__(self, o):
        return self._bin(o, lambda a, b: a + b)
    __radd__ = __add__

    def __sub__(self, o):
        return self._bin(o, lambda a, b: a - b)

    def __rsub__(self, o):
        return self._bin(o, lambda a, b: b - a)

    def __mul__(self, o):
        return self._bin(o, lambda a, b: a * b)
    __rmul__ = __mul__

    def __truediv__(self, o):
        return self._bin(o, lambda a, b: a / b)

    def __rtruediv__(self, o):
        return self._bin(o, lambda a, b: b / a)

    def __pow__(self, o):
        x = _e(o)
        if x is NotImplemented:
            return NotImplemented
        if x == sp.Rational(1, 2):
            return SE(sp.sqrt(sp.expand(self.e)) if not self.e.is_Atom else sp.sqrt(self.e))
        return SE(self.e ** x)

    def __rpow__(self, o):
        return SE(_e(o) ** self.e)

    def __neg__(self):
        return SE(-self.e)

    def __pos__(self):
        return self

    def __abs__(self):
        s = sign_of(self.e)
        if s is None:
            return SE(sp.Abs(self.e))
        return SE(self.e if s >= 0 else -self.e)

    # numpy object-ufunc protocol ---------------------------------------------------------------
    def log(self):
        return SE(sp.log(self.e))

    def exp(self):
        return SE(sp.exp(self.e))

    def sqrt(self):
        return self ** sp.Rational(1, 2)

    def sin(self):
        return SE(sp.sin(self.e))

    def cos(self):
        return SE(sp.cos(self.e))

    def tanh(self):
        return SE(sp.tanh(self.e))

    def sinh(self):
        return SE(sp.sinh(self.e))

    def conjugate(self):
        return self

    # comparisons (decided from sign assumptions, otherwise Undecided) ------------------------------
    def _cmp(self, o, op):
        x = _e(o)
        if x is NotImplemented:
            return NotImplemented
        d = self.e - x
        s = decide_sign(d)
        return {"lt": s < 0, "le": s <= 0, "gt": s > 0, "ge": s >= 0}[op]

    def __lt__(self, o):
        return self._cmp(o, "lt")

    def __le__(self, o):
        return self._cmp(o, "le")

    def __gt__(self, o):
        return self._cmp(o, "gt")

    def __ge__(self, o):
        return self._cmp(o, "ge")

    def __eq__(self, o):
        x = _e(o)
        if x is NotImplemented:
            return False
        return is_zero(self.e - x)[0]

    def __ne__(self, o):
        return not self.__eq__(o)

    def __hash__(self):
        return hash(sp.srepr(sp.nsimplify(self.e)) if self.e.is_number else self.e)

    def __bool__(self):
        return not is_zero(self.e)[0]

    def __float__(self):
        if self.e.free_symbols:
            raise Undecided(f"float() of symbolic {self.e}")
        return float(self.e)

    def __repr__(self):
        return f"SE({self.e})"

    def isfinite(self):
        return True


numbers.Number.register(SE)


def sign_of(e):
    """+1 / -1 / 0 when the sign of e is determined by the symbols' assumptions, else None"""
    e = sp.sympify(e)
    if e.is_positive:
        return 1
    if e.is_negative:
        return -1
    if e.is_zero:
        return 0
    e2 = sp.factor_terms(sp.together(sp.expand(e)))
    if e2.is_positive:
        return 1
    if e2.is_negative:
        return -1
    if e2.is_zero:
        return 0
    if e.has(sp.tanh, sp.sinh, sp.cosh, sp.exp, sp.log):
        # transcendental expressions (e.g. x / tanh(c x)): sign by sampling at admissible points (trusted: listed in evidence)
        signs = set()
        rnd = random.Random(7)
        syms = sorted(e.free_symbols, key=lambda s_: s_.name)
        for _ in range(12):
            try:
                v = complex(sp.N(e.subs(_sample_point(syms, rnd)), 30))
            except Exception:  # noqa: BLE001
                return None
            if abs(v.imag) > 1e-20 or abs(v.real) < 1e-20:
                return None
            signs.add(1 if v.real > 0 else -1)
        if len(signs) == 1:
            return signs.pop()
    return None


# ---------------------------------------------------------------------------------------
# deciding equalities

_RND = random.Random(12345)


def _sample_point(syms, rnd, multiscale=False):
    """generic rational point (wide range so that accidental singularities -- e.g. a singular 2x2 block -- are improbable);
    multiscale: some symbols are drawn many orders of magnitude smaller, so that path constraints of the form |x| <= tolerance
    (value-dependent fast paths) can be met by a sample"""
    pt = {}
    for s in syms:
        num, den = rnd.randint(1, 97), rnd.choice((1, 2, 3, 5, 7, 11, 13))
        if multiscale and rnd.random() < 0.4:
            den *= 10 ** rnd.choice((9, 11, 13))
        if s.is_positive:
            pt[s] = sp.Rational(num, den)
        elif s.is_negative:
            pt[s] = -sp.Rational(num, den)
        else:
            pt[s] = sp.Rational(num if rnd.random() < 0.5 else -num, den)
    return pt


UFUNC_KIND = {}  # name of an undefined sympy function -> 'smooth' | 'positive'


def ufunc(name, *args, kind="smooth"):
    """uninterpreted smooth user function applied to SE / sympy arguments"""
    UFUNC_KIND[name] = kind
    f = sp.Function(name, positive=True) if kind == "positive" else sp.Function(name, real=True)
    return SE(f(*[_e(a) for a in args]))


def _concretise(e, rnd):
    """replace every undefined function by a random concrete smooth function (cubic polynomial with a sine term;
    exp(...) for 'positive' ones) so that the expression, including its Derivative/Subs atoms, can be evaluated"""
    from sympy.core.function import AppliedUndef
    funcs = {}
    for a in e.atoms(AppliedUndef):
        funcs.setdefault(a.func, len(a.args))
    if not funcs:
        return e
    for f, k in funcs.items():
        xs = sp.symbols(f"_x0:{k}")
        poly = sp.Rational(rnd.randint(-3, 3), 2)
        for i, x in enumerate(xs):
            poly += sp.Rational(rnd.randint(-5, 5), 3) * x + sp.Rational(rnd.randint(-4, 4), 5) * x ** 2 + sp.Rational(rnd.randint(-3, 3), 7) * x ** 3
            for y in xs[i + 1:]:
                poly += sp.Rational(rnd.randint(-4, 4), 3) * x * y + sp.Rational(rnd.randint(-2, 2), 5) * x ** 2 * y
        poly += sp.Rational(rnd.randint(1, 3), 4) * sp.sin(sum(xs) / 3)
        if UFUNC_KIND.get(f.__name__) == "positive":
            poly = sp.exp(poly / 40) + sp.Rational(1, 2)
        e = e.replace(f, sp.Lambda(xs, poly))
    return e.doit()


def numeric_zero(e, tries=6, rnd=None):
    """-> (True, None) if e vanishes (to 40 digits) at the sampled admissible points, else (False, witness point).
    Sampling is deterministic per expression.  A refutation needs TWO independent points where e != 0: a polynomial non-identity
    is non-zero almost everywhere, whereas a single non-zero value can be an artefact of a point outside the domain
    (singular sub-matrix: 0 * infinity forms)."""
    import hashlib
    rnd = rnd or random.Random(int(hashlib.md5(str(e).encode()).hexdigest()[:12], 16))
    from sympy.core.function import AppliedUndef
    generic = e
    has_uf = bool(e.atoms(AppliedUndef))
    syms = sorted(e.free_symbols, key=lambda s: s.name)
    ok = 0
    attempts = 0
    nonzero = []
    cons = list(PATH.constraints) if PATH is not None else []
    if cons:
        syms = sorted(set(syms) | {x for c, _ in cons for x in c.free_symbols}, key=lambda s_: s_.name)
    limit = 4 * tries if not cons else 400
    while ok + len(nonzero) < tries and attempts < limit:
        attempts += 1
        pt = _sample_point(syms, rnd, multiscale=bool(cons) and attempts % 2 == 0)
        if cons:
            try:
                if not all((sp.N(c.subs(pt), 30) > 0) == (sg > 0) for c, sg in cons):
                    continue
            except TypeError:
                continue
        try:
            ee = _concretise(generic, rnd) if has_uf else e
            v = ee.subs(pt)
            v = v if v.is_Rational else sp.N(v, 60)
        except Exception:  # noqa: BLE001
            continue
        if v in (sp.nan, sp.zoo, sp.oo, -sp.oo) or v.has(sp.nan, sp.zoo, sp.oo):
            continue
        if v.is_Rational:
            isnz = v != 0
        else:
            try:
                isnz = abs(complex(v)) > 1e-30
            except TypeError:
                continue
        if isnz:
            nonzero.append({str(k): str(val) for k, val in pt.items()})
            if len(nonzero) >= 2:
                return False, nonzero[0]
        else:
            ok += 1
    if ok == 0 and not nonzero:
        raise Undecided(f"could not evaluate {str(e)[:80]} at any sample point")
    if nonzero and ok == 0:
        return False, nonzero[0]
    return True, None


def symbolic_zero(e, budget=20.0):
    t0 = time.time()
    e = sp.sympify(e)
    if e == 0:
        return True
    try:
        n = sp.fraction(sp.together(e))[0]
        n = sp.expand(n)
        if n == 0:
            return True
        if time.time() - t0 > budget:
            return False
        if n.has(sp.log):
            n2 = sp.expand(sp.expand_log(n, force=True))
            if n2 == 0:
                return True
        if n.has(sp.sin, sp.cos):
            n2 = sp.expand(sp.expand_trig(n))
            n2 = sp.expand(n2.subs({c ** 2: 1 - sp.sin(c.args[0]) ** 2 for c in n2.atoms(sp.cos)}))
            if n2 == 0 or sp.simplify(n2) == 0:
                return True
        if n.has(sp.tanh, sp.sinh, sp.cosh, sp.exp):
            n2 = sp.expand(sp.fraction(sp.together(n.rewrite(sp.exp)))[0])
            if n2 == 0:
                return True
        if n.has(sp.Pow) and any(p.exp.is_Rational and p.exp.q == 2 for p in n.atoms(sp.Pow)):
            n2 = sp.expand(sp.powsimp(sp.expand(sp.sqrtdenest(n)), force=True))
            if n2 == 0:
                return True
            n3 = sp.radsimp(n2)
            if sp.expand(n3) == 0:
                return True
        if n.has(sp.Abs):
            n2 = sp.expand(n.replace(sp.Abs, lambda x: sp.sqrt(x ** 2)))
            if n2 == 0:
                return True
    except Exception:  # noqa: BLE001
        return False
    return False


_ZERO_CACHE = {}


def is_zero(e):
    """-> (bool, witness or None, backend). backend in {'trivial','sympy-expand','numeric-only'}"""
    e = sp.sympify(e)
    if e == 0:
        return True, None, "trivial"
    if e.is_number:
        return (abs(complex(sp.N(e, 30))) < 1e-25), None, "trivial"
    key = (e, tuple((c, sg) for c, sg in PATH.constraints)) if PATH is not None and PATH.constraints else e
    if key in _ZERO_CACHE:
        return _ZERO_CACHE[key]
    nz, wit = numeric_zero(e)
    if not nz:
        r = (False, wit, "exact-evaluation")
    elif symbolic_zero(e):
        r = (True, None, "sympy-expand")
    else:
        r = (True, None, "numeric-only")
    _ZERO_CACHE[key] = r
    return r


def to_obj(a):
    """numpy array / nested list of SE / numbers -> object array of SE"""
    a = np.asarray(a, dtype=object) if not isinstance(a, np.ndarray) else a
    out = np.empty(a.shape, dtype=object)
    for idx in np.ndindex(a.shape):
        v = a[idx]
        out[idx] = v if isinstance(v, SE) else SE(_e(v))
    return out


def compare(got, want):
    """elementwise exact comparison of two arrays/scalars -> (status, backend, detail, witness)
    status in {'equal','differs','numeric-only'}"""
    g = to_obj(np.asarray(got, dtype=object)) if not isinstance(got, SE) else to_obj([got])
    w = to_obj(np.asarray(want, dtype=object)) if not isinstance(want, SE) else to_obj([want])
    if g.shape != w.shape:
        if g.size == w.size:
            g = g.reshape(w.shape)
        else:
            return "differs", "shape", f"shape {g.shape} != {w.shape}", None
    worst = "trivial"
    for idx in np.ndindex(w.shape):
        z, wit, be = is_zero(g[idx].e - w[idx].e)
        if not z:
            return "differs", be, f"entry {idx}: got {str(g[idx].e)[:160]} want {str(w[idx].e)[:160]}", wit
        if be == "numeric-only":
            worst = "numeric-only"
        elif be == "sympy-expand" and worst == "trivial":
            worst = "sympy-expand"
    return ("numeric-only" if worst == "numeric-only" else "equal"), worst, "", None


# ---------------------------------------------------------------------------------------
# symbolic parameters


def sym(name, positive=False, negative=False):
    if positive:
        return SE(sp.Symbol(name, positive=True))
    if negative:
        return SE(-sp.Symbol(name + "_abs", positive=True))
    return SE(sp.Symbol(name, real=True))


def vec(name, n):
    return np.array([sym(f"{name}{i}") for i in range(n)], dtype=object)


def mat(name, n, m=None):
    m = n if m is None else m
    return np.array([[sym(f"{name}{i}{j}") for j in range(m)] for i in range(n)], dtype=object)


def tri(name, n, lower=True, full=False):
    """triangular parameter with positive diagonal; full=True keeps arbitrary entries in the *other* triangle (to be masked)"""
    a = np.empty((n, n), dtype=object)
    for i in range(n):
        for j in range(n):
            if i == j:
                a[i, j] = sym(f"{name}{i}{j}", positive=True)
            elif (i > j) == lower:
                a[i, j] = sym(f"{name}{i}{j}")
            else:
                a[i, j] = sym(f"{name}x{i}{j}") if full else SE(0)
    return a


def orth(name, n):
    """exactly orthogonal matrix from rational Givens parameters"""
    def giv(t, i, j):
        c = (1 - t.e ** 2) / (1 + t.e ** 2)
        s = 2 * t.e / (1 + t.e ** 2)
        g = sp.eye(n)
        g[i, i], g[j, j], g[i, j], g[j, i] = c, c, -s, s
        return g
    q = sp.eye(n)
    k = 0
    for i in range(n):
        for j in range(i + 1, n):
            q = q * giv(sym(f"{name}t{k}"), i, j)
            k += 1
    return np.array([[SE(sp.together(q[i, j])) for j in range(n)] for i in range(n)], dtype=object)


def posvec(name, n):
    return np.array([sym(f"{name}{i}", positive=True) for i in range(n)], dtype=object)


def eye(n):
    return to_obj(np.identity(n))


def dense_inv(a):
    m = sp.Matrix(a.shape[0], a.shape[1], lambda i, j: a[i, j].e)
    inv = m.inv(method="ADJ") if a.shape[0] <= 3 else m.inv()
    return np.array([[SE(sp.together(inv[i, j])) for j in range(a.shape[1])] for i in range(a.shape[0])], dtype=object)


def dense_det(a):
    m = sp.Matrix(a.shape[0], a.shape[1], lambda i, j: a[i, j].e)
    return SE(m.det(method="berkowitz"))


# ---------------------------------------------------------------------------------------
# LAPACK-level contract shims


class LinAlgError(ValueError):
    pass


EIGH_REGISTRY = []  # (array, eigval, eigvec)


def register_eigh(array, eigval, eigvec):
    EIGH_REGISTRY.append((to_obj(array), to_obj(eigval), to_obj(eigvec)))


def _same(a, b):
    if a.shape != b.shape:
        return False
    for idx in np.ndindex(a.shape):
        if not numeric_zero(a[idx].e - b[idx].e, tries=2)[0]:
            return False
    return True


def shim_eigh(a):
    a = to_obj(a)
    for arr, w, v in EIGH_REGISTRY:
        if _same(arr, a):
            return w.copy(), v.copy()
    if a.shape == (1, 1):
        return a[0].copy(), eye(1)
    raise Undecided("eigh of a matrix with no registered eigendecomposition")


def shim_cholesky(a):
    a = to_obj(a)
    n = a.shape[0]
    L = np.empty((n, n), dtype=object)
    for i in range(n):
        for j in range(n):
            L[i, j] = SE(0)
    for j in range(n):
        s = a[j, j].e - sum((L[j, k].e ** 2 for k in range(j)), sp.Integer(0))
        s = sp.factor(sp.together(sp.expand(s)))
        if sign_of(s) == -1 or s == 0:
            raise LinAlgError("Matrix is not positive definite")
        L[j, j] = SE(sp.sqrt(s))
        for i in range(j + 1, n):
            t = a[i, j].e - sum((L[i, k].e * L[j, k].e for k in range(j)), sp.Integer(0))
            L[i, j] = SE(sp.together(sp.expand(t)) / L[j, j].e)
    return L


def shim_solve_triangular(a, b, trans=0, lower=False, unit_diagonal=False, overwrite_b=False, check_finite=True):
    if overwrite_b:
        b_orig = b
        try:
            return shim_solve_triangular(a, np.array(b, dtype=object, copy=True), trans=trans, lower=lower, unit_diagonal=unit_diagonal, check_finite=check_finite)
        finally:
            _clobber(b_orig, True)
    a, b = to_obj(a), to_obj(np.asarray(b, dtype=object))
    n = a.shape[0]
    if trans in (1, "T", 2, "C"):
        a, lower = a.T, not lower
    vecin = b.ndim == 1
    B = b.reshape(n, -1) if vecin else b
    X = np.empty(B.shape, dtype=object)
    order = range(n) if lower else range(n - 1, -1, -1)
    for c in range(B.shape[1]):
        for i in order:
            ks = range(i) if lower else range(i + 1, n)
            acc = B[i, c].e - sum((a[i, k].e * X[k, c].e for k in ks), sp.Integer(0))
            X[i, c] = SE(sp.together(acc / a[i, i].e))
    return X.reshape(n) if vecin else X


def shim_lu_factor(a, overwrite_a=False, check_finite=True):
    if overwrite_a:
        a_orig = a
        try:
            return shim_lu_factor(np.array(a, dtype=object, copy=True), check_finite=check_finite)
        finally:
            _clobber(a_orig, True)
    a = to_obj(a)
    n = a.shape[0]
    M = sp.Matrix(n, n, lambda i, j: a[i, j].e)
    L, U, perm = M.LUdecomposition()
    if perm:
        raise Undecided("symbolic LU needed a row swap")
    lu = np.empty((n, n), dtype=object)
    for i in range(n):
        for j in range(n):
            lu[i, j] = SE(sp.together(U[i, j] if i <= j else L[i, j]))
    return lu, np.arange(n)


def shim_lu_solve(lu_and_piv, b, trans=0, overwrite_b=False, check_finite=True):
    if overwrite_b:
        b_orig = b
        try:
            return shim_lu_solve(lu_and_piv, np.array(b, dtype=object, copy=True), trans=trans, check_finite=check_finite)
        finally:
            _clobber(b_orig, True)
    lu, piv = lu_and_piv
    lu = to_obj(lu)
    if not np.array_equal(np.asarray(piv), np.arange(lu.shape[0])):
        raise Undecided("non-trivial pivots")
    n = lu.shape[0]
    L = np.tril(lu, -1) + eye(n)
    U = np.triu(lu)
    b = to_obj(np.asarray(b, dtype=object))
    if trans in (0, "N"):
        y = shim_solve_triangular(L, b, lower=True)
        return shim_solve_triangular(U, y, lower=False)
    y = shim_solve_triangular(U, b, trans=1, lower=False)
    return shim_solve_triangular(L, y, trans=1, lower=True)


def _clobber(b_orig, flag):
    """overwrite_b=True / overwrite_a=True hands the operand's memory to LAPACK: its contents are unspecified afterwards (LAPACK writes through numpy's
    read-only flag when the layout allows in-place work).  The stand-in makes that permission observable: the operand is filled with a poison symbol, so a
    caller that still needs the array (because it aliases a stored parameter) computes visibly wrong values afterwards"""
    if not flag or not isinstance(b_orig, np.ndarray) or b_orig.dtype != object:
        return
    try:
        if not b_orig.flags.writeable:
            b_orig.flags.writeable = True
        b_orig[...] = SE(sp.Symbol("memory_overwritten_by_LAPACK", real=True))
    except ValueError:
        pass  # a view of a read-only base: nothing can write through it in this model


def shim_cho_solve(c_and_lower, b, overwrite_b=False, check_finite=True):
    """contract of scipy.linalg.cho_solve((c, lower), b): solves A x = b with A = c c^T (lower: only the lower triangle of c is read) or A = c^T c (upper)"""
    c, lower = c_and_lower
    c = to_obj(c)
    b_orig = b
    b = to_obj(np.asarray(b, dtype=object)).copy()
    if lower:
        y = shim_solve_triangular(c, b, lower=True)
        out = shim_solve_triangular(c, y, trans=1, lower=True)
    else:
        y = shim_solve_triangular(c, b, trans=1, lower=False)
        out = shim_solve_triangular(c, y, lower=False)
    _clobber(b_orig, overwrite_b)
    return out


def shim_sqrtm(a):
    a = to_obj(a)
    n = a.shape[0]
    if n == 1:
        return np.array([[a[0, 0] ** sp.Rational(1, 2)]], dtype=object)
    if n == 2:
        det = a[0, 0].e * a[1, 1].e - a[0, 1].e * a[1, 0].e
        s = sp.sqrt(sp.factor(sp.together(sp.expand(det))))
        t = sp.sqrt(sp.together(a[0, 0].e + a[1, 1].e + 2 * s))
        return np.array([[SE((a[i, j].e + (s if i == j else 0)) / t) for j in range(2)] for i in range(2)], dtype=object)
    raise Undecided("sqrtm for n > 2")


def shim_block_diag(*arrs):
    arrs = [to_obj(np.atleast_2d(a)) for a in arrs]
    n = sum(a.shape[0] for a in arrs)
    m = sum(a.shape[1] for a in arrs)
    out = np.empty((n, m), dtype=object)
    for idx in np.ndindex(out.shape):
        out[idx] = SE(0)
    r = c = 0
    for a in arrs:
        out[r:r + a.shape[0], c:c + a.shape[1]] = a
        r += a.shape[0]
        c += a.shape[1]
    return out


class _NS:
    def __init__(self, **kw):
        self.__dict__.update(kw)

    def __getattr__(self, name):
        # a LAPACK-level routine without a contract shim: undecided, never an AttributeError of the program under verification
        raise Undecided(f"no contract shim for the linear-algebra routine `{name}`")


SHIM_TABLE = {
    "nla.cholesky": "A = L L^T with L lower triangular, positive diagonal (symbolic Cholesky; raises LinAlgError when a pivot is provably <= 0)",
    "nla.eigh": "returns a registered pair (w, Q) with Q orthogonal, Q diag(w) Q^T = A (order unspecified)",
    "sla.solve_triangular": "uses only the triangle selected by `lower`; trans=1 solves A^T x = b",
    "sla.lu_factor / lu_solve": "packed L\\\\U without pivoting; lu_solve(trans) solves A x = b or A^T x = b",
    "sla.cho_solve": "cho_solve((c, lower), b) solves (c c^T) x = b for lower, (c^T c) x = b for upper factors (SciPy's convention, by two triangular solves)",
    "sla.sqrtm": "closed form for 1x1 / 2x2 symmetric positive definite input",
    "sla.block_diag": "block diagonal stacking",
    "overwrite_a / overwrite_b": "permission to destroy the operand: the stand-ins fill it with a poison symbol after computing the result (worst case of LAPACK's in-place work, which also ignores numpy's read-only flag)",
    "np.linalg.svd": "singular values (compute_uv=False) of a symbolic matrix with at most two rows or columns, from the small Gram matrix in closed form",
    "np.linalg.pinv / inv": "exact (sympy) inverse; pseudo-inverse of a full-rank symbolic matrix by the normal equations",
    "utils.hash_array": "hash of the (expanded) symbolic entries and the shape instead of the array's bytes: equal contents <=> equal hash, as for float arrays of one dtype",
}


class _NPProxy:
    """numpy itself, except for the three predicates that have no object-dtype loop: on exact symbolic arrays every entry is
    finite, and isclose / allclose are the documented formula |a - b| <= atol + rtol |b| decided entrywise (forking on symbols)"""

    def __getattr__(self, name):
        if name == "linalg":
            return _NPLinalgProxy()
        return getattr(np, name)

    @staticmethod
    def _obj(x):
        return isinstance(x, np.ndarray) and x.dtype == object or isinstance(x, SE)

    def isfinite(self, x, *a, **k):
        if self._obj(x):
            return np.ones(np.shape(x), dtype=bool) if np.ndim(x) else True
        return np.isfinite(x, *a, **k)

    def isclose(self, a, b, rtol=1e-05, atol=1e-08, equal_nan=False):
        if not (self._obj(a) or self._obj(b)):
            return np.isclose(a, b, rtol=rtol, atol=atol, equal_nan=equal_nan)
        A, B = np.broadcast_arrays(np.asarray(a, dtype=object), np.asarray(b, dtype=object))
        out = np.empty(A.shape, dtype=bool)
        for idx in np.ndindex(A.shape):
            x, y = SE(_e(A[idx])), SE(_e(B[idx]))
            out[idx] = bool(abs(x - y) <= atol + rtol * abs(y))
        return out if out.ndim else bool(out)

    def allclose(self, a, b, rtol=1e-05, atol=1e-08, equal_nan=False):
        return bool(np.all(self.isclose(a, b, rtol=rtol, atol=atol, equal_nan=equal_nan)))


class _NPLinalgProxy:
    """np.linalg.* reached through the module-level `np` of a mici module: pinv / inv / det / solve of exact symbolic arrays by sympy (Moore-Penrose
    pseudo-inverse of a full-rank matrix by the normal equations); anything else on symbolic operands is undecided"""

    def __getattr__(self, name):
        real = getattr(np.linalg, name)
        if not callable(real) or isinstance(real, type):
            return real

        def guarded(*a, **k):
            if any(isinstance(x, np.ndarray) and x.dtype == object for x in a):
                raise Undecided(f"numpy.linalg.{name} on symbolic operands is not modelled")
            return real(*a, **k)
        return guarded

    @staticmethod
    def pinv(a, *args, **k):
        if not (isinstance(a, np.ndarray) and a.dtype == object):
            return np.linalg.pinv(a, *args, **k)
        a = to_obj(a)
        r, c = a.shape
        if r <= c:  # full row rank (generic symbolic entries): A^+ = A^T (A A^T)^-1
            return a.T @ dense_inv(a @ a.T)
        return dense_inv(a.T @ a) @ a.T

    @staticmethod
    def inv(a):
        if not (isinstance(a, np.ndarray) and a.dtype == object):
            return np.linalg.inv(a)
        return dense_inv(to_obj(a))

    @staticmethod
    def svd(a, full_matrices=True, compute_uv=True, hermitian=False):
        """singular VALUES only, for matrices with at most two rows or columns: square roots of the eigenvalues of the small Gram matrix (closed form)"""
        if not (isinstance(a, np.ndarray) and a.dtype == object):
            return np.linalg.svd(a, full_matrices=full_matrices, compute_uv=compute_uv, hermitian=hermitian)
        if compute_uv:
            raise Undecided("numpy.linalg.svd with singular vectors on symbolic operands is not modelled")
        a = to_obj(a)
        g = a @ a.T if a.shape[0] <= a.shape[1] else a.T @ a
        if g.shape[0] == 1:
            return np.array([SE(sp.sqrt(g[0, 0].e))], dtype=object)
        if g.shape[0] == 2:
            tr, det = g[0, 0].e + g[1, 1].e, g[0, 0].e * g[1, 1].e - g[0, 1].e * g[1, 0].e
            disc = sp.sqrt(sp.together(tr ** 2 / 4 - det))
            return np.array([SE(sp.sqrt(tr / 2 + disc)), SE(sp.sqrt(tr / 2 - disc))], dtype=object)
        raise Undecided("numpy.linalg.svd of a symbolic matrix with more than two rows and columns is not modelled")


def shim_hash_array(a):
    """mici.utils.hash_array hashes the BYTES of an array; the bytes of an object array are pointers.  The symbolic stand-in hashes the (expanded) entries, so
    that arrays with equal contents hash equally -- as equal float arrays do -- and code that keys dictionaries / sets on matrices sees the same collisions"""
    a = np.asarray(a)
    if a.dtype != object:
        from mici import utils as _u
        return _u.hash_array(a)
    return hash((a.shape, tuple(str(sp.expand(_e(x))) for x in a.flat)))


@contextlib.contextmanager
def shimmed(*modules):
    saved = []
    nla = _NS(cholesky=shim_cholesky, eigh=shim_eigh, LinAlgError=LinAlgError)
    sla = _NS(solve_triangular=shim_solve_triangular, lu_factor=shim_lu_factor, lu_solve=shim_lu_solve, sqrtm=shim_sqrtm, block_diag=shim_block_diag,
              cho_solve=shim_cho_solve)
    for m in modules:
        for name, val in (("nla", nla), ("sla", sla), ("np", _NPProxy()), ("hash_array", shim_hash_array)):
            if hasattr(m, name):
                saved.append((m, name, getattr(m, name)))
                setattr(m, name, val)
    try:
        yield
    finally:
        for m, name, val in saved:
            setattr(m, name, val)
