"""Algebraic back ends used when the SMT solver answers `unknown` on polynomial / rational-function obligations.

refute_by_evaluation : random exact (rational) assignments; an assignment that satisfies the path condition and falsifies
                       the claim is a genuine counterexample (sound refutation, gives a concrete witness).
prove_by_expansion   : every conjunct of the claim is an equation lhs == rhs of rational functions whose difference
                       expands to the zero polynomial over Q (sympy) -- valid for all values, independent of the path
                       condition (sound proof).
"""
from __future__ import annotations

import random

import z3


def _vars(e, acc=None, seen=None):
    acc = {} if acc is None else acc
    seen = set() if seen is None else seen
    if e.get_id() in seen:
        return acc
    seen.add(e.get_id())
    if z3.is_const(e) and e.decl().kind() == z3.Z3_OP_UNINTERPRETED:
        acc[str(e)] = e
    for c in e.children():
        _vars(c, acc, seen)
    return acc


def _has_uf(e, seen=None):
    seen = set() if seen is None else seen
    if e.get_id() in seen:
        return False
    seen.add(e.get_id())
    if z3.is_app(e) and e.num_args() > 0 and e.decl().kind() == z3.Z3_OP_UNINTERPRETED:
        return True
    return any(_has_uf(c, seen) for c in e.children())


def refute_by_evaluation(pc, claim, tries=400, seed=0):
    exprs = list(pc) + [claim]
    if any(_has_uf(e) for e in exprs):
        return None
    vs = {}
    for e in exprs:
        _vars(e, vs)
    rnd = random.Random(seed)
    names = sorted(vs)
    for t in range(tries):
        sub = []
        for n in names:
            v = vs[n]
            if v.sort() == z3.IntSort():
                sub.append((v, z3.IntVal(rnd.randint(0, 6) if t % 3 else rnd.randint(1, 3))))
            elif v.sort() == z3.RealSort():
                sub.append((v, z3.RealVal(f"{rnd.randint(-9, 9)}/{rnd.randint(1, 4)}") if t % 2 else z3.RealVal(rnd.randint(1, 7))))
            elif v.sort() == z3.BoolSort():
                sub.append((v, z3.BoolVal(bool(rnd.getrandbits(1)))))
            else:
                return None
        try:
            ok = True
            for c in pc:
                r = z3.simplify(z3.substitute(c, *sub))
                if not z3.is_true(r):
                    ok = False
                    break
            if not ok:
                continue
            r = z3.simplify(z3.substitute(claim, *sub))
            if z3.is_false(r):
                return {str(v): str(val) for v, val in sub}
        except z3.Z3Exception:
            continue
    return None


def _to_sympy(e, syms):
    import sympy
    if z3.is_rational_value(e):
        f = e.as_fraction()
        return sympy.Rational(f.numerator, f.denominator)
    if z3.is_int_value(e):
        return sympy.Integer(e.as_long())
    if z3.is_const(e) and e.decl().kind() == z3.Z3_OP_UNINTERPRETED:
        return syms.setdefault(str(e), sympy.Symbol(str(e)))
    k = e.decl().kind()
    ch = [_to_sympy(c, syms) for c in e.children()]
    if k == z3.Z3_OP_ADD:
        return sympy.Add(*ch)
    if k == z3.Z3_OP_SUB:
        out = ch[0]
        for c in ch[1:]:
            out = out - c
        return out
    if k == z3.Z3_OP_MUL:
        return sympy.Mul(*ch)
    if k == z3.Z3_OP_DIV:
        return ch[0] / ch[1]
    if k == z3.Z3_OP_UMINUS:
        return -ch[0]
    if k == z3.Z3_OP_TO_REAL:
        return ch[0]
    if k == z3.Z3_OP_POWER:
        return ch[0] ** ch[1]
    raise ValueError(f"unsupported z3 op {e.decl().name()}")


def prove_by_expansion(claim):
    import sympy
    conj = claim.children() if z3.is_and(claim) else [claim]
    syms = {}
    try:
        for c in conj:
            if z3.is_true(c):
                continue
            if not z3.is_eq(c):
                return False
            l, r = c.children()
            d = sympy.together(_to_sympy(l, syms) - _to_sympy(r, syms))
            num = sympy.fraction(d)[0]
            if sympy.expand(num) != 0:
                return False
        return True
    except (ValueError, z3.Z3Exception):
        return False
