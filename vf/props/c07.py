"""C07 -- component flow maps are the exact flows of their Hamiltonian components.

Engine B: the real h1_flow / h2_flow / dh2_flow_dmom of the Euclidean, Gaussian-split and constrained systems are executed on
symbolic states with a symbolic time t (any real, any number of periods) for every metric type incl. the implicit identity:
kick formula, drift formula, Hamilton's ODE by symbolic time-differentiation of the traced Gaussian flow, group law
Phi(s) o Phi(t) = Phi(s+t), inverse, energy conservation, and dh2_flow_dmom == Jacobian blocks of the traced flow.
"""
from __future__ import annotations

import json

from .. import symla
from . import symla_systems


def native_flows(run_):
    """BOUNDED native stand-in for what Engine B cannot decide: code that compares computed eigenvalues / frequencies with a floating-point TOLERANCE (np.allclose,
    rank tolerances) takes branches that have no counterpart over the reals.  The real flows and flow Jacobians of every system class are run on 8 metrics incl.
    two nearly isotropic ones (eigenvalues distinct but equal to 1e-6) for time intervals up to 7000, and compared with numerically integrated Hamilton equations
    (short intervals), the group laws, energy conservation and the exact Jacobian of the (linear) flow."""
    import os
    import subprocess
    from .. import core
    script = os.path.join(core.VERIF, "replays", "c07_flows.py")
    try:
        p = subprocess.run([core.NATIVE_PY, script, "{}"], capture_output=True, text=True, timeout=900, env=dict(os.environ, PYTHONPATH=core.SRC))
        out = p.stdout.strip()
        ok = p.returncode == 0 and "not reproduced" in out
        st = core.DISCHARGED if ok else (core.FAILED if "REPRODUCED" in out else core.ERROR)
        detail = "" if ok else (out or p.stderr)[-700:]
    except Exception as e:  # noqa: BLE001
        st, detail = core.ERROR, f"{type(e).__name__}: {e}"
    run_.ob("systems.native-flows/flows-and-flow-jacobians-incl-nearly-isotropic-metrics-and-long-intervals", st, "native-exec", klass="bounded", detail=detail,
            witness=None if st == core.DISCHARGED else {"script": "c07_flows.py"},
            replay=(lambda w: {"script": "c07_flows.py", "args": ["{}"], "timeout": 900}) if st == core.FAILED else None,
            text="bounded: 4 system classes x 8 metrics (two nearly isotropic) x 4-6 time intervals (|t| up to 7000): kick, drift vs RK4, group law, inverse, energy, flow Jacobian")
    run_.bounded.append({"id": "C07/systems.native-flows/flows-and-flow-jacobians-incl-nearly-isotropic-metrics-and-long-intervals",
                         "detail": "n = 3, 8 metrics, 4 system classes, fixed seed; tolerances 1e-6"})


def run(run_, tier):
    run_.assume("A1 reals; A4 user derivative functions exact; dimension 2; trigonometric identities decided by sympy (expand_trig + sin^2+cos^2=1)")
    for k, v in symla.SHIM_TABLE.items():
        run_.trust(f"shim {k}: {v}")
    for c in ("System.h1_flow", "EuclideanMetricSystem.h2_flow", "GaussianEuclideanMetricSystem.h2_flow", "ConstrainedEuclideanMetricSystem.dh2_flow_dmom",
              "GaussianDenseConstrainedEuclideanMetricSystem.dh2_flow_dmom"):
        run_.function(f"mici.systems.{c}")
    run_.replay_for("", lambda w: {"script": "c07_flows.py", "args": [json.dumps(w or {})], "timeout": 600})
    n = symla_systems.run_cases(run_, "c07_cases")
    run_.notes.append(f"{n} system x metric configurations")
    native_flows(run_)
    # Engine D: the Euclidean drift for ALL dimensions and every metric object satisfying the matrix contract
    from . import generic_systems
    generic_systems.run_generic_systems(run_, keep=lambda oid: any(t in oid for t in ("h2_flow", "h2-conserved", "dh2_flow_dmom", "metric-inverse")))
    # the kick uses dh1_dpos and the drift dh2_dmom: that these are the gradients of the components is C05's obligation, imported here
    symla_systems.run_cases(run_, "c05_cases", keep=lambda oid: any(k in oid for k in ("dh1_dpos-is-gradient-of-h1", "dh2_dmom-is-gradient-of-h2", "dh2_dpos-is-gradient-of-h2",
                                                                                          "stable-under-repeated-evaluation", "grad-cache-not-corrupted")))
    # "conserves the component energy": h1 / h2 as REPORTED by the system after a flow, i.e. through the state cache -- a memoised value must declare every variable
    # it reads (C09's static read-set layer), and the cache protocol itself must be transparent (C09 layer 1)
    from . import c09, premises
    from .trans_model import FilterRun
    c09.static_layers(FilterRun(run_, lambda oid: "reads-within-declared-dependencies" in oid), "C09")
    premises.cache_protocol(run_)
