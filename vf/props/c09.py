"""C09 -- state-level caching is transparent.

Layer 1 (protocol invariant, Engine A on the real mici/states.py): for every abstract family configuration satisfying
   Inv  :=  every non-None cache entry of every family member equals the from-scratch value for that member's current
            variables, and its key is registered in the shared dependency table under all its declared dependencies
 every operation (cached call, call with auxiliary outputs, assignment to pos/mom/dir, copy, pickle round trip,
 on either of two systems sharing the state) re-establishes Inv and returns the from-scratch value.
 The configuration space of a 4-key / 2-member universe is enumerated *completely* (small-model argument: keys are only
 compared for equality).
Layer 2 (Engine C): for every decorated method of every system class: transitive read set <= declared depends_on,
 auxiliary outputs' read sets <= the primary's depends_on.
Layer 3 (Engine C): no cached value is the very array object of a state variable (else an in-place update of the
 variable in one family member corrupts the entry in another).
"""
from __future__ import annotations

import itertools
import json

from .. import core, frames
from ..pyvc import Cls, Exec, Interp, Native, Obj, PyRaise, exc_name
from .integ_model import install_std

ST = "mici.states"
ABSENT, NONE, VALID = "absent", "none", "valid"


class Universe:
    """Real decorators applied to stub system methods; real ChainState objects."""

    def __init__(self, it, ctx):
        self.it, self.ctx = it, ctx
        self.mod = it.module(ST)
        self.ex = Exec(it, ctx, self.mod, self.mod.env, "harness")
        self.calls = []  # ghost cost counter: user-function evaluations
        self.cs = self.mod.resolve("ChainState", ctx)
        sys_cls = Cls("SysA", [it.builtins["object"]], {}, module="harness")
        self.sysA, self.sysB = Obj(sys_cls, {}), Obj(sys_cls, {})
        cis = self.mod.resolve("cache_in_state", ctx)
        cisa = self.mod.resolve("cache_in_state_with_aux", ctx)
        u = self

        def body(name, reads, aux=None, as_tuple=True):
            def fn(ex, self_, state):
                u.calls.append((name, self_))
                val = [name] + [ex.getattr(state, r) for r in reads]  # values are lists: a tuple return means (primary, aux...)
                if aux is None:
                    return val
                if not as_tuple:
                    return val
                return (val,) + tuple([a] + [ex.getattr(state, r) for r in reads] for a in aux)
            return Native(fn, name)
        self.f = self.ex.call(self.ex.call(cis, ["pos"], {}), [body("f", ["pos"])], {})
        self.g = self.ex.call(self.ex.call(cis, ["mom"], {}), [body("g", ["mom"])], {})
        self.d = self.ex.call(self.ex.call(cisa, ["pos", "f"], {}), [body("d", ["pos"], aux=["f"])], {})
        self.d_noaux = self.ex.call(self.ex.call(cisa, [("pos",), ("f",)], {}), [body("d", ["pos"], aux=["f"], as_tuple=False)], {})
        self.methods = {"f": (self.f, ("pos",)), "g": (self.g, ("mom",)), "d": (self.d, ("pos",))}
        kf = self.mod.resolve("_cache_key_func", ctx)
        self.key = {("f", "A"): self.ex.call(kf, [self.sysA, "f"], {}), ("g", "A"): self.ex.call(kf, [self.sysA, "g"], {}),
                    ("d", "A"): self.ex.call(kf, [self.sysA, "d"], {}), ("f", "B"): self.ex.call(kf, [self.sysB, "f"], {})}
        self.deps_of = {("f", "A"): ("pos",), ("g", "A"): ("mom",), ("d", "A"): ("pos",), ("f", "B"): ("pos",)}
        self.tok = 0

    def fresh(self, v):
        self.tok += 1
        return (v, self.tok)

    def scratch(self, k, state):
        name = k[0]
        reads = {"f": ["pos"], "g": ["mom"], "d": ["pos"]}[name]
        return [name] + [state.attrs["_variables"][r] for r in reads]

    def build(self, reg, cfg_s, cfg_t):
        """family {s, t} sharing one dependency table; cfg: {key: ABSENT|NONE|VALID}"""
        deps = {"pos": set(), "mom": set(), "dir": set()}
        for k in reg:
            for dvar in self.deps_of[k]:
                deps[dvar].add(self.key[k])
        counts = {}
        fam = []
        for cfg in (cfg_s, cfg_t):
            vars_ = {"pos": self.fresh("pos"), "mom": self.fresh("mom"), "dir": 1}
            st = self.ex.call(self.cs, [], dict(_dependencies=deps, _cache={}, _call_counts=None, **vars_))
            for k, c in cfg.items():
                if c == NONE:
                    st.attrs["_cache"][self.key[k]] = None
                elif c == VALID:
                    st.attrs["_cache"][self.key[k]] = self.scratch(k, st)
            fam.append(st)
        return fam

    def inv(self, fam):
        """returns None or a description of the violated clause"""
        deps = fam[0].attrs["_dependencies"]
        for i, st in enumerate(fam):
            if st.attrs["_dependencies"] is not deps:
                # a family member with its own table: keys registered later in one table are never invalidated in the other
                return f"member {i} does not share the dependency table"
            for k, key in self.key.items():
                c = st.attrs["_cache"]
                if key in c and c[key] is not None:
                    if c[key] != self.scratch(k, st):
                        return f"member {i}: entry {k} = {c[key]} is stale (from scratch: {self.scratch(k, st)})"
                    for dvar in self.deps_of[k]:
                        if key not in deps[dvar]:
                            return f"member {i}: valid entry {k} not registered under '{dvar}'"
        return None


class CallTok:
    """callable cached value (e.g. a vector-Jacobian-product closure): dropped by pickling, kept by copy()"""

    def __init__(self, name, args):
        self.key = (name,) + tuple(args)

    def _pv_call(self, ex, *a):
        return ("applied", self.key)

    def __eq__(self, o):
        return isinstance(o, CallTok) and o.key == self.key

    def __hash__(self):
        return hash(self.key)

    def __repr__(self):
        return f"<callable {self.key}>"


def aux_chain_universe(run, it, prop):
    """second abstract universe: a three-level auxiliary-output chain e -> (d, f) with mixed return conventions and a
    callable-valued method v (like mtp/hess/grad/value and vjp closures in systems.py)."""
    P = "states."
    keys = ["f", "d", "e", "v"]
    cfgs = list(itertools.product((ABSENT, NONE, VALID), repeat=4))

    def harness(ctx):
        chunk = ctx.choose(8, "chunk")
        mod = it.module(ST)
        ex = Exec(it, ctx, mod, mod.env, "harness")
        cs = mod.resolve("ChainState", ctx)
        cis, cisa, kf = mod.resolve("cache_in_state", ctx), mod.resolve("cache_in_state_with_aux", ctx), mod.resolve("_cache_key_func", ctx)
        sysA = Obj(Cls("SysA", [it.builtins["object"]], {}, module="harness"), {})
        calls = []
        conv = {}

        def val(name, state):
            p = state.attrs["_variables"]["pos"]
            return CallTok("v", [p]) if name == "v" else [name, p]

        def mk(name, aux):
            def fn(ex_, self_, state):
                calls.append(name)
                primary = val(name, state)
                k = conv.get(name, len(aux))  # how many auxiliary outputs this user function returns this time
                if not aux or k == 0:
                    return primary if not aux else (primary,) if conv.get(name + "_wrap") else primary
                return (primary,) + tuple(val(a, state) for a in aux[:k])
            return Native(fn, name)
        W = {"f": ex.call(ex.call(cis, ["pos"], {}), [mk("f", [])], {}),
             "d": ex.call(ex.call(cisa, ["pos", "f"], {}), [mk("d", ["f"])], {}),
             "e": ex.call(ex.call(cisa, ["pos", ("d", "f")], {}), [mk("e", ["d", "f"])], {}),
             "v": ex.call(ex.call(cis, ["pos"], {}), [mk("v", [])], {})}
        K = {n: ex.call(kf, [sysA, n], {}) for n in keys}
        tok = [0]
        for ci, cfg in enumerate(cfgs):
            if ci % 8 != chunk:
                continue
            for n_d, n_e in ((0, 0), (1, 2), (0, 2), (1, 0), (1, 1)):
                conv["d"], conv["e"] = n_d, n_e
                for op in ("e then d then f", "d then f", "copy then v", "e then copy then f", "pickle then all"):
                    tok[0] += 1
                    deps = {"pos": {K[n] for n, c in zip(keys, cfg) if c != ABSENT}, "mom": set(), "dir": set()}
                    st = ex.call(cs, [], dict(_dependencies=deps, _cache={}, _call_counts=None, pos=("pos", tok[0]), mom=("mom", tok[0]), dir=1))
                    for n, c in zip(keys, cfg):
                        if c == NONE:
                            st.attrs["_cache"][K[n]] = None
                        elif c == VALID:
                            st.attrs["_cache"][K[n]] = val(n, st)
                    state_of = dict(zip(keys, cfg))
                    desc = f"cache={ {n: c for n, c in state_of.items() if c != ABSENT} } conventions: d returns {n_d} aux, e returns {n_e} aux; ops: {op}"
                    calls.clear()
                    try:
                        tgt = st
                        seq = []
                        if op == "copy then v":
                            tgt = ex.call(ex.getattr(st, "copy"), [], {})
                            seq = ["v"]
                        elif op == "e then copy then f":
                            ex.call(W["e"], [sysA, st], {})
                            if state_of["e"] != VALID:
                                for a in ["d", "f"][:n_e]:
                                    state_of[a] = VALID
                                state_of["e"] = VALID
                            calls.clear()
                            tgt = ex.call(ex.getattr(st, "copy"), [], {})
                            seq = ["f", "e"]
                        elif op == "pickle then all":
                            import copy as _copy
                            tgt = Obj(cs, {})
                            ex.call(ex.getattr(tgt, "__setstate__"), [_copy.deepcopy(ex.call(ex.getattr(st, "__getstate__"), [], {}))], {})
                            seq = ["e", "d", "f", "v"]
                            state_of = {n: (c if not (n == "v" and c == VALID) else ABSENT) for n, c in state_of.items()}  # callables are not pickled
                        else:
                            seq = op.split(" then ")
                        for name in seq:
                            before = len(calls)
                            got = ex.call(W[name], [sysA, tgt], {})
                            ok = got == val(name, tgt)
                            ctx.run.ob(P + "aux-chain/returns-from-scratch-value", core.DISCHARGED if ok else core.FAILED, "pyvc-enum", detail="" if ok else f"{name} -> {got}; {desc}",
                                       text="transparency over a 3-level auxiliary-output chain with mixed return conventions and callable values")
                            if prop == "C18":
                                cost = len(calls) - before
                                want = 0 if state_of[name] == VALID else 1
                                okc = cost == want
                                ctx.run.ob(P + "aux-chain/cost-contract", core.DISCHARGED if okc else core.FAILED, "pyvc-enum",
                                           detail="" if okc else f"{name} cost {cost} user-function evaluations, contract {want}; {desc}",
                                           text="valid entry (incl. entries populated as auxiliary outputs, carried by copy(), or callable) => zero evaluations; miss => one")
                            if state_of[name] != VALID:
                                state_of[name] = VALID
                                aux = {"d": ["f"], "e": ["d", "f"]}.get(name, [])
                                for a in aux[:conv.get(name, 0)]:
                                    state_of[a] = VALID
                    except PyRaise as pr:
                        ctx.run.ob(P + "aux-chain/no-exception", core.FAILED, "pyvc-enum", detail=f"{exc_name(pr.exc)} {pr.exc.attrs.get('args')}; {desc}")
    it.explore(harness, "aux-chain", roots=[[i] for i in range(8)])
    run.notes.append(f"aux-chain universe: {len(cfgs)} cache configurations x 5 return-convention pairs x 5 operation sequences")


def configs():
    keys = [("f", "A"), ("g", "A"), ("d", "A"), ("f", "B")]
    out = []
    for r in range(len(keys) + 1):
        for reg in itertools.combinations(keys, r):
            for vals in itertools.product((ABSENT, NONE, VALID), repeat=len(keys)):
                cfg_s = dict(zip(keys, vals))
                if any(v != ABSENT and k not in reg for k, v in cfg_s.items()):
                    continue
                for tv in (ABSENT, NONE, VALID):
                    for tg in (ABSENT, VALID):
                        cfg_t = {("f", "A"): tv, ("g", "A"): tg}
                        if any(v != ABSENT and k not in reg for k, v in cfg_t.items()):
                            continue
                        out.append((reg, cfg_s, cfg_t))
    return out


OPS = ["call f", "call g", "call d", "call d (no aux tuple)", "call f on system B", "set pos", "set mom", "set dir", "copy", "copy read-only",
       "pickle round trip", "call f on sibling"]


class ArrTok:
    """mutable array-like variable value with identity: copy.copy gives a new object with the same contents"""

    def __init__(self, content):
        self.content = content

    def _pv_copy(self, ex):
        return ArrTok(self.content)

    def __eq__(self, other):
        return isinstance(other, ArrTok) and other.content == self.content

    __hash__ = None


def copy_aliasing(run, it):
    """no two states share a variable ARRAY: the flows update pos / mom in place (state.pos += ...), which does not pass through __setattr__, so a
    shared array would change the other state's variables behind its cache.  For every kind of source state (writable, read-only) and every kind of
    copy (writable, read-only), and for a copy of a copy"""
    run.function("mici.states.ChainState.copy (variable aliasing)")

    def h(ctx):
        mod = it.module(ST)
        ex = Exec(it, ctx, mod, mod.env, "harness")
        cs = mod.resolve("ChainState", ctx)
        src_ro = bool(ctx.choose(2, "source-read-only"))
        cp_ro = bool(ctx.choose(2, "copy-read-only"))
        base = ex.call(cs, [], {"pos": ArrTok("q"), "mom": ArrTok("p"), "dir": 1})
        src = ex.call(ex.getattr(base, "copy"), [], {"read_only": True}) if src_ro else base
        c = ex.call(ex.getattr(src, "copy"), [], {"read_only": cp_ro})
        fam = [base, src, c] if src_ro else [src, c]
        shared = [(i, j, v) for i in range(len(fam)) for j in range(i + 1, len(fam)) for v in ("pos", "mom")
                  if fam[i].attrs["_variables"][v] is fam[j].attrs["_variables"][v]]
        eq = all(c.attrs["_variables"][v] == src.attrs["_variables"][v] for v in ("pos", "mom"))
        ok = not shared and eq
        ctx.run.ob("C09/states.copy/no-two-states-share-a-variable-array", core.DISCHARGED if ok else core.FAILED, "pyvc-enum",
                   detail="" if ok else f"source {'read-only' if src_ro else 'writable'}, copy {'read-only' if cp_ro else 'writable'}: shared variable arrays {shared}, equal contents {eq}",
                   witness={"source_read_only": src_ro, "copy_read_only": cp_ro},
                   text="copy(): pos and mom of the copy are new array objects with equal contents, whatever the read-only flags of the source and of the copy")
    it.explore(h, "states.copy-aliasing", roots=[[a, b] for a in range(2) for b in range(2)])


def cache_key_obligation(run, it):
    """the cache protocol distinguishes entries by key only: two (system object, method) pairs must never share a key, or one
    system is served the other's values (id() is injective over live objects: A11).  Imported by C02 / C04 / C18."""
    P = "states."

    def keys_injective(ctx):
        # the protocol below distinguishes entries by key only: two (system object, method) pairs must never share a key, or one
        # system is served the other's values (id() is injective over live objects: A11)
        u = Universe(it, ctx)
        ks = list(u.key.items())
        # ... and a CLONE of a system that has already been used (copy.copy / deepcopy / unpickling duplicate the instance dictionary): another object,
        # typically given another metric afterwards, so it must not be served the original's entries either
        kf = u.mod.resolve("_cache_key_func", ctx)
        clone = Obj(u.sysA.cls, dict(u.sysA.attrs))
        ks.append((("f", "clone-of-A"), u.ex.call(kf, [clone, "f"], {})))
        clash = [(a[0], b[0]) for i, a in enumerate(ks) for b in ks[i + 1:] if a[1] == b[1]]
        run.ob(P + "_cache_key_func/distinct-keys-for-distinct-system-objects-and-methods", core.DISCHARGED if not clash else core.FAILED, "pyvc-enum",
               detail="" if not clash else f"same cache key for {clash[0][0]} and {clash[0][1]} (method, system): {ks[0][1] if False else dict(ks)[clash[0][0]]!r}",
               witness=None if not clash else {"clash": [list(c) for c in clash[0]]},
               text="_cache_key_func(system, method) is injective in the pair (system object, method name) -- two systems of the same class on one state do not share entries")
    it.explore(keys_injective, "cache-keys")
    run.function("mici.states._cache_key_func")



def _numpy_for_states(it):
    """numpy as far as states.py may use it on state variables: the universe's variable values stand for arrays; the aliasing
    predicates are conservative tests (bounds / stride based) that may answer True for arrays sharing no element -- e.g. interleaved
    views of one buffer -- so their answer is explored both ways"""
    from ..pyvc import Namespace, TypeTag

    def is_arr(o):
        return isinstance(o, tuple) and len(o) == 2 and o[0] in ("pos", "mom") and isinstance(o[1], int)
    def _alias(ex, a, b, *r, **k):
        if a is b:
            return True
        if "alias-answer" not in ex.ctx.ghost:  # one decision per explored path (the same answer for every pair): 2 paths, not 2^calls
            ex.ctx.ghost["alias-answer"] = bool(ex.ctx.choose(2, "aliasing-predicate-answers-True"))
        return ex.ctx.ghost["alias-answer"]
    alias = Native(_alias, "np.may_share_memory / shares_memory")

    def _array_equal(ex, a, b, *r, **k):
        """np.array_equal / allclose-style value comparisons: True for identical objects; for DIFFERENT arrays the answer may be True although user
        functions distinguish them (-0.0 == +0.0, 1 == 1.0 across dtypes, a buffer the caller has meanwhile updated in place): both answers explored"""
        if a is b or a == b:
            return True
        if "value-equal-answer" not in ex.ctx.ghost:
            ex.ctx.ghost["value-equal-answer"] = bool(ex.ctx.choose(2, "value-comparison-of-different-arrays-answers-True"))
        return ex.ctx.ghost["value-equal-answer"]
    veq = Native(_array_equal, "np.array_equal / array_equiv / allclose")
    if "numpy" not in it.ext_modules:
        it.ext_modules["numpy"] = Namespace("numpy", ndarray=TypeTag("ndarray", is_arr), may_share_memory=alias, shares_memory=alias,
                                            array_equal=veq, array_equiv=veq, allclose=veq)


def protocol(run, it, prop):
    _numpy_for_states(it)
    run.function("mici.states.cache_in_state")
    run.function("mici.states.cache_in_state_with_aux")
    for m in ("__init__", "__getattr__", "__setattr__", "copy", "__getstate__", "__setstate__"):
        run.function(f"mici.states.ChainState.{m}")
    all_cfgs = configs()
    NCH = 16
    P = "states."

    cache_key_obligation(run, it)

    def harness(ctx):
        chunk = ctx.choose(NCH, "chunk")
        u = Universe(it, ctx)
        ex = u.ex
        n_cfg = n_ops = 0
        for ci, (reg, cfg_s, cfg_t) in enumerate(all_cfgs):
            if ci % NCH != chunk:
                continue
            n_cfg += 1
            for op in OPS:
                s, t = u.build(reg, cfg_s, cfg_t)
                fam = [s, t]
                pre = u.inv(fam)
                assert pre is None, pre
                u.calls.clear()
                desc = f"reg={sorted(k[0] + k[1] for k in reg)} s={ {k[0] + k[1]: v for k, v in cfg_s.items() if v != ABSENT} } t={ {k[0] + k[1]: v for k, v in cfg_t.items() if v != ABSENT} }"
                n_ops += 1
                try:
                    if op.startswith("call"):
                        target = t if "sibling" in op else s
                        name = op.split()[1]
                        sysobj = u.sysB if "system B" in op else u.sysA
                        k = (name, "B" if sysobj is u.sysB else "A")
                        w = {"f": u.f, "g": u.g, "d": u.d}[name]
                        if "no aux" in op:
                            w = u.d_noaux
                        cfg_here = (cfg_t if target is t else cfg_s).get(k, ABSENT)
                        rec_before = {kk: target.attrs["_cache"].get(u.key[kk], "absent") for kk in u.key}
                        got = ex.call(w, [sysobj, target], {})
                        want = u.scratch(k, target)
                        ok = got == want
                        ctx.run.ob(P + f"cached-call/returns-from-scratch-value[{name}]", core.DISCHARGED if ok else core.FAILED, "pyvc-enum",
                                   detail="" if ok else f"{op} returned {got}, from scratch {want}; {desc}",
                                   text="wrapper returns the value the method would compute from the current variables (transparency)")
                        if prop == "C18":
                            others_before = rec_before
                            gone = [kk for kk in u.key if kk != k and not (name == "d" and kk == ("f", k[1])) and
                                    target.attrs["_cache"].get(u.key[kk], "absent") != others_before[kk]]
                            ctx.run.ob(P + "cached-call/leaves-the-entries-of-other-methods-and-systems-alone", core.DISCHARGED if not gone else core.FAILED, "pyvc-enum",
                                       detail="" if not gone else f"{op} changed / evicted the entries {gone} (another method or another system object on the same state); {desc}",
                                       text="a memoised call reads and writes only its own key (and the keys of its auxiliary outputs): other valid entries are still hits afterwards")
                            ncalls = len(u.calls)
                            if cfg_here == VALID:
                                ctx.run.ob(P + "cached-call/hit-costs-nothing", core.DISCHARGED if ncalls == 0 else core.FAILED, "pyvc-enum",
                                           detail="" if ncalls == 0 else f"{ncalls} user-function evaluations on a valid entry; {desc}",
                                           text="valid entry => zero user-function evaluations")
                            else:
                                ctx.run.ob(P + "cached-call/miss-costs-one", core.DISCHARGED if ncalls == 1 else core.FAILED, "pyvc-enum",
                                           detail="" if ncalls == 1 else f"{ncalls} evaluations on a miss; {desc}", text="miss => exactly one evaluation")
                            if name == "d" and "no aux" not in op and cfg_here != VALID:
                                u.calls.clear()
                                ex.call(u.f, [u.sysA, target], {})
                                ctx.run.ob(P + "aux-output/later-request-is-a-hit", core.DISCHARGED if not u.calls else core.FAILED, "pyvc-enum",
                                           detail="" if not u.calls else f"f re-evaluated after d returned it as auxiliary output; {desc}",
                                           text="auxiliary outputs populate the cache: a later request costs nothing")
                            cc = target.attrs["_call_counts"]
                            key = u.key[k]
                            good = (cc[key] == (0 if cfg_here == VALID else 1))
                            ctx.run.ob(P + "cached-call/call-counter-equals-ghost-cost", core.DISCHARGED if good else core.FAILED, "pyvc-enum",
                                       detail="" if good else f"_call_counts[{k}] = {cc[key]}; {desc}")
                    elif op.startswith("set"):
                        var = op.split()[1]
                        before = {k: s.attrs["_cache"].get(u.key[k], "absent") for k in u.key}
                        ex.setattr(s, var, u.fresh(var) if var != "dir" else -1)
                        if prop == "C18":
                            kept = all(s.attrs["_cache"].get(u.key[k], "absent") == before[k] for k in u.key if var not in u.deps_of[k])
                            ctx.run.ob(P + "__setattr__/unrelated-entries-survive", core.DISCHARGED if kept else core.FAILED, "pyvc-enum",
                                       detail="" if kept else f"{op} cleared an entry that does not depend on {var}; {desc}",
                                       text="assignment invalidates only the dependants of the assigned variable")
                    elif op.startswith("copy"):
                        c = ex.call(ex.getattr(s, "copy"), [], {"read_only": "read-only" in op})
                        fam.append(c)
                        same_vars = all(c.attrs["_variables"][v] == s.attrs["_variables"][v] for v in ("pos", "mom", "dir"))
                        ctx.run.ob(P + "copy/variables-equal", core.DISCHARGED if same_vars else core.FAILED, "pyvc-enum", detail="" if same_vars else desc)
                        own = c.attrs["_cache"] is not s.attrs["_cache"] and c.attrs["_variables"] is not s.attrs["_variables"]
                        ctx.run.ob(P + "copy/own-cache-and-variables", core.DISCHARGED if own else core.FAILED, "pyvc-enum",
                                   detail="" if own else "copy shares its cache or variable dict with the original")
                        if prop == "C18":
                            carried = all(c.attrs["_cache"].get(u.key[k], "absent") == s.attrs["_cache"].get(u.key[k], "absent") for k in u.key)
                            ctx.run.ob(P + "copy/carries-the-cache", core.DISCHARGED if carried else core.FAILED, "pyvc-enum",
                                       detail="" if carried else f"copy dropped cache entries; {desc}", text="copy() keeps every cache entry")
                            shared = c.attrs["_call_counts"] is s.attrs["_call_counts"]
                            ctx.run.ob(P + "copy/shares-call-counts", core.DISCHARGED if shared else core.FAILED, "pyvc-enum")
                        if "read-only" in op:
                            # memoisation works on read-only snapshots too: the second request of a value on the snapshot costs nothing and is transparent
                            u.calls.clear()
                            v1 = ex.call(u.f, [u.sysA, c], {})
                            u.calls.clear()
                            v2 = ex.call(u.f, [u.sysA, c], {})
                            okro = not u.calls and v1 == v2 == u.scratch(("f", "A"), c)
                            ctx.run.ob(P + "read-only-copy/values-are-memoised", core.DISCHARGED if okro else core.FAILED, "pyvc-enum",
                                       detail="" if okro else f"second request on a read-only copy re-evaluated the user function ({len(u.calls)} calls) or changed value; {desc}",
                                       text="a value requested twice on a read-only copy is evaluated at most once and equals the from-scratch value")
                            post = u.inv(fam)
                            ctx.run.ob(P + "invariant-preserved[copy]", core.DISCHARGED if post is None else core.FAILED, "pyvc-enum",
                                       detail="" if post is None else f"after `{op}`: {post}; {desc}")
                            continue
                        # a key first computed on the copy must be invalidated by later assignments in it and not leak
                        ex.call(u.f, [u.sysA, c], {})
                        ex.setattr(c, "pos", u.fresh("pos"))
                        got = ex.call(u.f, [u.sysA, c], {})
                        ok = got == u.scratch(("f", "A"), c)
                        ctx.run.ob(P + "copy/entries-computed-on-copy-are-invalidated", core.DISCHARGED if ok else core.FAILED, "pyvc-enum",
                                   detail="" if ok else f"stale value on the copy after assignment; {desc}")
                    elif op.startswith("pickle"):
                        st_ = ex.call(ex.getattr(s, "__getstate__"), [], {})
                        new = Obj(u.cs, {})
                        import copy as _copy
                        ex.call(ex.getattr(new, "__setstate__"), [_copy.deepcopy(st_)], {})  # pickling = deep copy of whatever __getstate__ returns
                        for k in u.key:
                            w = {"f": u.f, "g": u.g, "d": u.d}[k[0]]
                            sysobj = u.sysB if k[1] == "B" else u.sysA
                            got = ex.call(w, [sysobj, new], {})
                            ok = got == u.scratch(k, new)
                            ctx.run.ob(P + "pickle/round-trip-transparent", core.DISCHARGED if ok else core.FAILED, "pyvc-enum", detail="" if ok else desc)
                        ex.setattr(new, "pos", u.fresh("pos"))
                        got = ex.call(u.f, [u.sysA, new], {})
                        ok = got == u.scratch(("f", "A"), new)
                        ctx.run.ob(P + "pickle/invalidates-after-round-trip", core.DISCHARGED if ok else core.FAILED, "pyvc-enum", detail="" if ok else desc)
                        # pickling is an observation: the live family (the pickled state and the states sharing its dependency table) keeps Inv
                        post = u.inv(fam)
                        ctx.run.ob(P + "pickle/leaves-the-live-family-intact", core.DISCHARGED if post is None else core.FAILED, "pyvc-enum",
                                   detail="" if post is None else f"after pickling s: {post}; {desc}",
                                   text="__getstate__ does not modify the pickled state, its cache or the dependency table it shares with its copies")
                        continue
                except PyRaise as pr:
                    ctx.run.ob(P + "protocol/no-exception", core.FAILED, "pyvc-enum", detail=f"{op}: {exc_name(pr.exc)} {pr.exc.attrs.get('args')}; {desc}")
                    continue
                post = u.inv(fam)
                ctx.run.ob(P + f"invariant-preserved[{op.split('(')[0].strip().replace(' ', '-')}]", core.DISCHARGED if post is None else core.FAILED, "pyvc-enum",
                           detail="" if post is None else f"after `{op}`: {post}; {desc}",
                           text=f"Inv is re-established by `{op}` from every family configuration satisfying Inv")
        ctx.run.ob(P + "protocol/no-exception", core.DISCHARGED, "pyvc-enum", text="protocol operations raise nothing")
        ctx.run.notes.append(f"chunk {chunk}: {n_cfg} configurations x {len(OPS)} operations")
    it.explore(harness, "protocol", roots=[[i] for i in range(NCH)])
    run.notes.append(f"protocol universe: {len(all_cfgs)} family configurations x {len(OPS)} operations, enumerated exhaustively (exhaustive=True for this finite abstraction)")

    # read-only states reject assignment
    def h_ro(ctx):
        u = Universe(it, ctx)
        s, _ = u.build((), {}, {})
        c = u.ex.call(u.ex.getattr(s, "copy"), [], {"read_only": True})
        try:
            u.ex.setattr(c, "pos", 1)
            ok = False
        except PyRaise as pr:
            ok = pr.exc.cls.name == "ReadOnlyStateError"
        ctx.run.ob(P + "read-only-copy/rejects-assignment", core.DISCHARGED if ok else core.FAILED, "pyvc-enum")
    it.explore(h_ro, "read-only")


# ---------------------------------------------------------------------------------------
# layers 2 and 3 (static)


def static_layers(run, prop):
    tree, _ = frames.parse_module("systems")
    table = frames.class_table(tree)
    rd = frames.Reads(table)
    P = "systems."
    passthrough = frames.identity_passthrough_classes()
    n = 0
    for cname, ci in table.items():
        order = frames.mro(table, cname)
        names = set()
        for c in order:
            if c in table:
                names |= set(table[c].methods)
        for m in sorted(names):
            owner, fn = frames.resolve(table, cname, m)
            info = frames.decorator_info(fn) if fn is not None else None
            if info is None:
                continue
            run.function(f"mici.systems.{owner}.{m}")
            kind, declared, aux = info
            actual = rd.reads(cname, m)
            n += 1
            if prop == "C09":
                extra = sorted(actual - set(declared))
                run.ob(P + f"{cname}.{m}/reads-within-declared-dependencies", core.DISCHARGED if not extra else core.FAILED, "frames",
                       detail="" if not extra else f"{owner}.{m} is cached on {declared} but (transitively) reads state.{extra}: assigning {extra} leaves a stale entry",
                       witness={"class": cname, "method": m, "declared": list(declared), "reads": sorted(actual)},
                       text=f"read set of {cname}.{m} = {sorted(actual)} <= declared {list(declared)}")
                for a in aux:
                    a_reads = rd.reads(cname, a)
                    bad = sorted(a_reads - set(declared))
                    run.ob(P + f"{cname}.{m}/aux-{a}-reads-within-primary-dependencies", core.DISCHARGED if not bad else core.FAILED, "frames",
                           detail="" if not bad else f"auxiliary output {a} reads {bad} not in {declared}")
                # same-named decorated method reached through super(): cache-key collision
                for node in __import__("ast").walk(fn):
                    if isinstance(node, __import__("ast").Call) and isinstance(node.func, __import__("ast").Attribute) and node.func.attr == m \
                            and isinstance(node.func.value, __import__("ast").Call) and getattr(node.func.value.func, "id", "") == "super":
                        o2, f2 = frames.resolve(table, cname, m, start_after=owner)
                        if f2 is not None and frames.decorator_info(f2):
                            run.ob(P + f"{cname}.{m}/no-key-collision-through-super", core.FAILED, "frames",
                                   detail=f"{owner}.{m} calls super().{m} which is decorated too: both use the key ({cname}.{m}, id)")
                al = frames.returns_state_var(fn)
                mm = [x for x in frames.returns_matmul_of_state_var(fn) if "metric" in x[0] and passthrough]
                site = f"returns state.{al[0]} itself" if al else (f"returns {mm[0][0]} @ state.{mm[0][1]} and {passthrough[0][0]}.{passthrough[0][1]} returns its argument object" if mm else "")
                run.ob(P + f"{cname}.{m}/cached-value-does-not-alias-a-state-variable", core.DISCHARGED if not site else core.FAILED, "frames",
                       detail="" if not site else f"{owner}.{m} {site}: the cache entry is the variable's own array, so an in-place update (state.{(al or [mm[0][1]])[0]} op= ...) "
                       "of the variable in one family member changes the entry held by its copies",
                       text=f"{cname}.{m}: the cached object is fresh (not a state variable's array)")
            else:
                # an auxiliary output is stored under the key of the method it names: that method must itself be memoised in this concrete class
                # (resolved through the MRO), otherwise the value lands under a key nothing reads and the later request evaluates the user function again
                for a in aux:
                    o_a, f_a = frames.resolve(table, cname, a)
                    cached = f_a is not None and frames.decorator_info(f_a) is not None
                    run.ob(P + f"{cname}.{m}/aux-output-{a}-names-a-memoised-method", core.DISCHARGED if cached else core.FAILED, "frames",
                           detail="" if cached else f"{owner}.{m} declares the auxiliary output '{a}', but in {cname} `{a}` resolves to "
                           f"{(o_a + '.' + a + ' which is not decorated with cache_in_state') if f_a is not None else 'no method'}: the value is stored under a key no method looks up",
                           witness=None if cached else {"class": cname, "method": m, "aux": a},
                           text=f"auxiliary outputs of {cname}.{m} are stored under keys that a cached method of the class reads")
                over = sorted(set(declared) - actual)
                # declared dependencies the method never reads cost needless re-evaluations (C18)
                run.ob(P + f"{cname}.{m}/no-needless-dependencies", core.DISCHARGED if not over else core.FAILED, "frames",
                       detail="" if not over else f"{owner}.{m} declares {over} but never reads it: unrelated assignments force re-evaluation",
                       text=f"declared {list(declared)} <= read set {sorted(actual)}")
    if prop == "C09":
        bad = frames.alias_inplace_updates()
        run.ob("library/no-inplace-update-of-state-arrays-through-aliases", core.DISCHARGED if not bad else core.FAILED, "frames",
               detail="" if not bad else "; ".join(f"{m}.{f}: `{c}`" for m, f, c in bad) + " -- the variable changes without ChainState.__setattr__ running, "
               "so cached values depending on it stay in the cache",
               text="no library function mutates an array bound from state.pos / state.mom in place without assigning it back through the state attribute")
    run.notes.append(f"static layers: {n} (concrete class, decorated method) pairs; in-place state updates in the library: {len(frames.inplace_state_updates())}")


def run(run_, tier):
    it = Interp(run_)
    install_std(it)
    run_.assume("A11: id() is injective over the system objects alive during a state family's lifetime; user functions are pure")
    run_.assume("small-model argument: cache keys are only compared for equality, so 4 keys (plain/pos, plain/mom, with-aux, same method on a 2nd system) and 2 family members cover all key patterns")
    run_.trust("static read-set analysis follows self.<m>(state) and super().<m>(state) calls; reads through other aliases of the state are not tracked")
    run_.replay_for("", lambda w: {"script": "c09_cache.py", "args": [json.dumps(w or {})]})
    protocol(run_, it, "C09")
    aux_chain_universe(run_, it, "C09")
    copy_aliasing(run_, it)
    static_layers(run_, "C09")
    # a memoised value must stay the from-scratch value however often the library's own methods are called at one state: the derivative methods of every
    # system class are evaluated twice and the cached gradient re-read (C05/C07 obligations of Engine B, imported) -- an in-place update of a cached array
    # (dh = self.grad_neg_log_dens(state); dh += ...) breaks exactly this
    from . import symla_systems
    symla_systems.run_cases(run_, "c05_cases", keep=lambda oid: any(k in oid for k in ("stable-under-repeated-evaluation", "grad-cache-not-corrupted")))
    run_.extraction_drops.extend(sorted(it.dropped))
