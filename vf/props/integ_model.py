"""Engine-A harness over mici.integrators: the real integrator classes (and the real
ChainState) are interpreted from source; the Hamiltonian system is a *contract stub* whose
methods record a ghost trace and act through uninterpreted functions on abstract vectors.
Used by C02 (reversibility / no input mutation / loud failure), C06 (time sums, symmetric
arrangement), C04 (projection after every sub-step) and C12 (exception containment).
"""
from __future__ import annotations

import collections

import z3

from .. import core, mathlib
from ..linvec import LinVec, Space, vec_eq
from ..models import Opaque
from ..pyvc import (Bound, Exec, Func, Interp, LoopSpec, Namespace, Native, Obj, OutsideSubset, PathEnd, PyRaise,
                    TypeTag, exc_name, is_z3, lift, make_exc, to_real)

INTEG = "mici.integrators"


def install_std(it):
    mathlib.install(it)

    def _copy(ex, v):
        if isinstance(v, LinVec):
            return v.copy()
        if hasattr(v, "_pv_copy"):
            return v._pv_copy(ex)
        return v
    it.ext_modules["copy"] = Namespace("copy", copy=Native(_copy, "copy.copy"))
    it.ext_modules["collections"] = Namespace(
        "collections", ChainMap=Native(lambda ex, *maps: dict(collections.ChainMap(*[dict(m) for m in maps])), "collections.ChainMap (first mapping wins; contract of the stdlib class)"), Counter=TypeTag("Counter", lambda o: isinstance(o, collections.Counter),
                                       lambda ex, a=None: collections.Counter(a) if a is not None else collections.Counter()))
    def _cache(ex, f=None, **_kw):
        """contract of functools.cache / lru_cache(maxsize=None): the value of the first call with equal arguments is returned again"""
        if f is None:  # lru_cache(maxsize=...) used with arguments
            return Native(lambda ex2, g: _cache(ex2, g), "lru_cache(...)")
        memo = {}

        def call(ex2, *a, **k):
            def hk(x):
                try:
                    hash(x)
                    return x
                except TypeError:
                    return ("id", id(x))
            key = (tuple(hk(x) for x in a), tuple(sorted((n, hk(v)) for n, v in k.items())))
            if key not in memo:
                memo[key] = ex2.call(f, list(a), k)
            return memo[key]
        return Native(call, f"cached {getattr(f, 'qualname', f)}")
    it.ext_modules["functools"] = Namespace("functools", wraps=Native(lambda ex, f: Native(lambda ex2, g: g, "wraps-inner"), "wraps"),
                                            cache=Native(_cache, "functools.cache"), lru_cache=Native(_cache, "functools.lru_cache"))


class Pair:
    """np.concatenate([a, b]) of two abstract vectors (implicit midpoint stacks pos and mom)."""

    def __init__(self, a, b):
        self.a, self.b = a, b

    def _pv_binop(self, ex, op, other):
        if isinstance(other, Pair):
            ra = self.a._pv_binop(ex, op, other.a)
            rb = self.b._pv_binop(ex, op, other.b)
        else:
            ra = self.a._pv_binop(ex, op, other)
            rb = self.b._pv_binop(ex, op, other)
        if ra is NotImplemented or rb is NotImplemented:
            return NotImplemented
        return Pair(ra, rb)

    def copy(self):
        return Pair(self.a.copy(), self.b.copy())


def np_namespace(ctx, space):
    def concatenate(ex, parts, axis=0):
        parts = list(parts)
        if len(parts) != 2 or not all(isinstance(p, LinVec) for p in parts):
            raise OutsideSubset("np.concatenate of other than two abstract vectors")
        return Pair(parts[0], parts[1])

    def split(ex, v, n):
        if not isinstance(v, Pair) or n != 2:
            raise OutsideSubset("np.split")
        return [v.a, v.b]

    def sign(ex, x):
        if is_z3(x):
            return z3.If(x > 0, z3.RealVal(1), z3.If(x < 0, z3.RealVal(-1), z3.RealVal(0)))
        return (x > 0) - (x < 0)

    def zeros_like(ex, v):
        if isinstance(v, LinVec):
            return ex.ctx.ghost["space"].zero()
        raise OutsideSubset("zeros_like")

    def isnan(ex, x):
        if hasattr(x, "_pv_isnan"):
            return x._pv_isnan(ex)
        return mathlib.np_isnan(ex, x)

    def any_(ex, v):
        # whether an abstract vector (the value of a user-supplied derivative at some state) has a non-zero entry is not determined by the contract of the
        # system: both outcomes are explored, independently at every call (the vector at ANOTHER state may well differ)
        if isinstance(v, (LinVec, Pair)):
            return bool(ex.ctx.choose(2, "np.any(abstract vector)"))
        if is_z3(v):
            return v != 0
        try:
            return any(bool(x) for x in v)
        except TypeError:
            return bool(v)

    def all_(ex, v):
        if isinstance(v, (LinVec, Pair)):
            return bool(ex.ctx.choose(2, "np.all(abstract vector)"))
        if is_z3(v):
            return v != 0
        try:
            return all(bool(x) for x in v)
        except TypeError:
            return bool(v)
    def isfinite(ex, v):
        # whether a value returned by a user model function is finite is not determined by the function's contract: explored both ways
        import math as _m
        if isinstance(v, (int, float)) and not isinstance(v, bool):
            return _m.isfinite(v)
        return bool(ex.ctx.choose(2, "np.isfinite(user value)"))
    return Namespace("np", isfinite=Native(isfinite, "np.isfinite"), any=Native(any_, "np.any"), all=Native(all_, "np.all"), concatenate=Native(concatenate, "np.concatenate"), split=Native(split, "np.split"),
                     sign=Native(sign, "np.sign"), zeros_like=Native(zeros_like, "np.zeros_like"),
                     isnan=Native(isnan, "np.isnan"), nan=float("nan"), inf=float("inf"))


class World:
    """Per-path harness state: abstract vector space, ghost trace, stub system, real state objects."""

    def __init__(self, it, ctx, constrained=False, fault=False):
        self.it = it
        self.ctx = ctx
        self.space = Space(ctx)
        ctx.ghost["space"] = self.space
        self.trace = []
        self.fault = fault  # C12: set of stub names that may raise mici.errors.LinAlgError (non-finite user-function output)
        self.fault_hits = []
        it.ext_modules.setdefault("numpy", np_namespace(None, None))
        self.mod = it.module(INTEG)
        self.ex = Exec(it, ctx, self.mod, self.mod.env, "harness")
        self.system = self.make_system(constrained)
        self.norm_calls = []
        self.solver_calls = []

    # ---- ghost trace --------------------------------------------------------------------------
    def ev(self, *e):
        self.trace.append(e)

    # ---- state ----------------------------------------------------------------------------------
    def make_state(self, tag="0"):
        cs = self.it.module("mici.states").resolve("ChainState", self.ctx)
        d = z3.Int("dir" + tag)
        self.ctx.assume(z3.Or(d == 1, d == -1))
        st = self.ex.call(cs, [], {"pos": self.space.atom("q" + tag), "mom": self.space.atom("p" + tag), "dir": d})
        return st

    def var(self, state, name):
        return state.attrs["_variables"][name]

    # ---- stub system ------------------------------------------------------------------------------
    def make_system(self, constrained):
        w = self
        sp = self.space

        def h1_flow(ex, state, dt):
            w.ev("h1_flow", state, dt)
            g = sp.apply_fn("dh1_dpos", w.var(state, "pos"))
            ex.setattr(state, "mom", w.var(state, "mom")._pv_binop(ex, "__sub__", g.scaled(dt)))

        def h2_flow(ex, state, dt):
            w.ev("h2_flow", state, dt)
            q, p = w.var(state, "pos"), w.var(state, "mom")
            ex.setattr(state, "pos", sp.apply_fn("h2flow_pos", q, p, dt))
            ex.setattr(state, "mom", sp.apply_fn("h2flow_mom", q, p, dt))

        def lib_fault(ex, fname):
            """NaN returned by a user function makes the *library's* matrix constructors raise mici.errors.LinAlgError"""
            if w.fault and fname in w.fault and ex.ctx.choose(2, f"{fname}-nan") == 1:
                w.fault_hits.append(fname)
                le = ex.interp.module("mici.errors").resolve("LinAlgError", ex.ctx)
                raise PyRaise(ex.call(le, ["Array is not finite."], {}))

        def mk(fname, reads):
            def f(ex, state):
                w.ev(fname, state)
                lib_fault(ex, fname)
                return sp.apply_fn(fname, *[w.var(state, r) for r in reads])
            return Native(f, fname)

        def h(ex, state):
            w.ev("h", state)
            return sp.scalar_fn("h", w.var(state, "pos"), w.var(state, "mom"))

        def project(ex, mom, state):
            w.ev("project_onto_cotangent_space", state, mom)
            lib_fault(ex, "project_onto_cotangent_space")
            return sp.apply_fn("project", mom, w.var(state, "pos"))

        attrs = dict(h1_flow=Native(h1_flow, "system.h1_flow"), h2_flow=Native(h2_flow, "system.h2_flow"),
                     dh1_dpos=mk("dh1_dpos", ["pos"]), dh2_dpos=mk("dh2_dpos", ["pos", "mom"]),
                     dh2_dmom=mk("dh2_dmom", ["pos", "mom"]), dh_dpos=mk("dh_dpos", ["pos", "mom"]),
                     dh_dmom=mk("dh_dmom", ["pos", "mom"]), h=Native(h, "system.h"))
        if constrained:
            attrs["project_onto_cotangent_space"] = Native(project, "system.project_onto_cotangent_space")
            attrs["constr"] = mk("constr", ["pos"])
            attrs["jacob_constr"] = mk("jacob_constr", ["pos"])
        attrs["__any_class__"] = True  # the integrator contracts are for every compatible system class (isinstance tests fork)
        return Opaque("system", **attrs)

    # ---- contract stubs handed to the integrators --------------------------------------------------
    def norm_stub(self):
        w = self

        def norm(ex, v):
            r = ex.ctx.fresh("norm", "real")
            ex.ctx.assume(r >= 0)
            w.norm_calls.append((v.copy() if isinstance(v, (LinVec, Pair)) else v, r))
            w.ev("norm", v, r)
            return r
        return Native(norm, "reverse_check_norm")

    def fixed_point_solver_stub(self):
        """Contract of a FixedPointSolver: returns x with x == func(x) or raises ConvergenceError.
        The closure `func` is *called* on a fresh abstract point so its body is verified."""
        w = self

        def solve(ex, func, x0, **kw):
            k = len(w.solver_calls)
            if isinstance(x0, Pair):
                x = Pair(w.space.atom(f"fp{k}.pos"), w.space.atom(f"fp{k}.mom"))
            else:
                x = w.space.atom(f"fp{k}")
            fx = ex.call(func, [x], {})
            w.solver_calls.append({"x0": x0.copy(), "x": x, "fx": fx, "kwargs": kw})
            w.ev("fixed_point_solve", k)
            if ex.ctx.choose(2, "solver-outcome") == 1:
                ce = ex.interp.module("mici.errors").resolve("ConvergenceError", ex.ctx)
                raise PyRaise(ex.call(ce, ["did not converge"], {}))
            return x.copy()
        return Native(solve, "fixed_point_solver")

    def projection_solver_stub(self):
        w = self

        def solve(ex, state, state_prev, time_step, system, **kw):
            w.ev("projection_solver", state, state_prev, time_step)
            w.__dict__.setdefault("solver_kwargs_seen", []).append(dict(kw))
            if system is not w.system:
                ex.ctx.run.ob("integrators.ConstrainedLeapfrogIntegrator/solver-gets-own-system", core.FAILED, "pyvc",
                              detail="projection solver called with a different system object")
            q, p = w.var(state, "pos"), w.var(state, "mom")
            qp = w.var(state_prev, "pos")
            if ex.ctx.choose(2, "projection-outcome") == 1:
                ce = ex.interp.module("mici.errors").resolve("ConvergenceError", ex.ctx)
                raise PyRaise(ex.call(ce, ["did not converge"], {}))
            ex.setattr(state, "pos", w.space.apply_fn("retract_pos", q, p, qp, time_step))
            ex.setattr(state, "mom", w.space.apply_fn("retract_mom", q, p, qp, time_step))
            return state
        return Native(solve, "projection_solver")

    def new(self, cls_name, **kw):
        cls = self.mod.resolve(cls_name, self.ctx)
        return self.ex.call(cls, [self.system], kw)


def positive_step(ctx, name="step_size"):
    s = z3.Real(name)
    ctx.assume(s > 0)
    return s


def snapshot(w, state):
    return {k: (v.copy() if isinstance(v, LinVec) else v) for k, v in state.attrs["_variables"].items()}


def same_vars(ctx, w, state, snap):
    conds = []
    for k, v in snap.items():
        cur = state.attrs["_variables"][k]
        if isinstance(v, LinVec):
            conds.append(vec_eq(cur, v))
        else:
            conds.append(lift(cur) == lift(v))
    return z3.And(*conds)


def make_interp(run, timeout_ms=20000):
    it = Interp(run, timeout_ms=timeout_ms)
    install_std(it)
    return it
