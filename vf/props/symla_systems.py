"""Engine-B harness over mici/systems.py: the real system classes are instantiated with *uninterpreted smooth* user functions
(sympy undefined functions ell(q), c_i(q), m_ij(q) ...; the supplied derivative functions return their sympy derivatives in the
documented conventions: this is assumption A4) and the real value / derivative / flow / momentum methods are executed on symbolic
states.  Obligations are exact identities between sympy expressions containing undefined functions and their Derivative atoms:
they hold for every smooth model function (proved by simplification; refuted by instantiating the functions with random smooth
concrete functions at random points).  Used by C05, C07, C08, C03 and the closed-form projection part of C04.
"""
from __future__ import annotations

import multiprocessing as mp
import time
import traceback

import numpy as np
import sympy as sp

from .. import core, symla
from ..symla import SE, Undecided, compare, dense_det, dense_inv, eye, mat, orth, posvec, shimmed, sym, to_obj, tri, vec, ufunc
from .c10 import load as load_matrices

DIM = int(__import__("os").environ.get("VF_DIM", "2"))  # traced dimension (thorough tier: 3)


def load_systems():
    import importlib
    load_matrices()
    import sys
    return importlib.import_module("mici.systems"), sys.modules["mici.matrices"], importlib.import_module("mici.states")


def jac(exprs, xs):
    exprs = to_obj(np.asarray(exprs, dtype=object))
    out = np.empty(exprs.shape + (len(xs),), dtype=object)
    for idx in np.ndindex(exprs.shape):
        for k, x in enumerate(xs):
            out[idx + (k,)] = SE(sp.diff(exprs[idx].e, x.e))
    return out


def grad(expr, xs):
    return np.array([SE(sp.diff(expr.e, x.e)) for x in xs], dtype=object)


def _at_point(f):
    """decorator: evaluate the model function on dummy symbols and substitute the (possibly compound) argument afterwards, so that
    derivatives at compound arguments become Subs(Derivative(...)) objects (chain rule handled by sympy)"""
    def wrapped(self, q):
        q = to_obj(np.asarray(q, dtype=object))
        if all(x.e.is_Symbol for x in q):
            return f(self, q)
        xs = [sym(f"_arg{i}") for i in range(len(q))]
        res = f(self, np.array(xs, dtype=object))
        mapping = {x.e: v.e for x, v in zip(xs, q)}

        def sub(o):
            if isinstance(o, SE):
                return SE(sp.Subs(o.e, list(mapping), list(mapping.values())).doit())
            if isinstance(o, np.ndarray):
                out = np.empty(o.shape, dtype=object)
                for idx in np.ndindex(o.shape):
                    out[idx] = sub(o[idx])
                return out
            if isinstance(o, tuple):
                return tuple(sub(x) for x in o)
            return o
        return sub(res)
    return wrapped


class Model:
    """uninterpreted user functions on R^DIM with their documented derivative functions"""

    def __init__(self, aux_convention):
        self.aux = aux_convention  # False: derivative functions return the bare derivative; True: tuples with lower-order values
        self.calls = []

    def neg_log_dens(self, q):
        return ufunc("ell", *q)

    @_at_point
    def grad_neg_log_dens(self, q):
        v = self.neg_log_dens(q)
        g = grad(v, q)
        return (g, v) if self.aux else g

    def hess_neg_log_dens(self, q):
        v = self.neg_log_dens(q)
        g = grad(v, q)
        h = jac(g, q)
        return (h, g, v) if self.aux else h

    def mtp_neg_log_dens(self, q):
        v = self.neg_log_dens(q)
        g = grad(v, q)
        h = jac(g, q)
        t = jac(h, q)  # t[i,j,k]

        def mtp(m):
            m = to_obj(np.asarray(m, dtype=object))
            return np.array([SE(sum((m[i, j].e * t[i, j, k].e for i in range(len(q)) for j in range(len(q))), sp.Integer(0))) for k in range(len(q))], dtype=object)
        return (mtp, h, g, v) if self.aux else mtp

    # one constraint on R^2 / two on R^3
    def constr(self, q):
        return np.array([ufunc(f"c{i}", *q) for i in range(self.n_constr)], dtype=object)

    def jacob_constr(self, q):
        c = self.constr(q)
        j = jac(c, q)
        return (j, c) if self.aux else j

    def mhp_constr(self, q):
        c = self.constr(q)
        j = jac(c, q)
        h = jac(j, q)  # h[i,j,k]

        def mhp(m):
            m = to_obj(np.asarray(m.array if hasattr(m, "array") else m, dtype=object))
            return np.array([SE(sum((m[i, jj].e * h[i, jj, k].e for i in range(h.shape[0]) for jj in range(h.shape[1])), sp.Integer(0))) for k in range(len(q))], dtype=object)
        return (mhp, j, c) if self.aux else mhp

    # position dependent metric parametrisations
    def metric_scalar(self, q):
        return ufunc("mscal", *q, kind="positive")

    def vjp_metric_scalar(self, q):
        m = self.metric_scalar(q)
        g = grad(m, q)

        def vjp(v):
            return np.array([SE(_s(v).e * g[k].e) for k in range(len(q))], dtype=object)
        return (vjp, m) if self.aux else vjp

    def metric_diag(self, q):
        return np.array([ufunc(f"mdiag{i}", *q, kind="positive") for i in range(len(q))], dtype=object)

    def _vjp_of(self, arr_fn, q):
        a = to_obj(np.asarray(arr_fn(q), dtype=object))
        d = jac(a, q)

        def vjp(v):
            v = to_obj(np.asarray(v.array if hasattr(v, "array") else v, dtype=object))
            return np.array([SE(sum((v[idx].e * d[idx + (k,)].e for idx in np.ndindex(a.shape)), sp.Integer(0))) for k in range(len(q))], dtype=object)
        return (vjp, a) if self.aux else vjp

    def vjp_metric_diag(self, q):
        return self._vjp_of(self.metric_diag, q)

    # tuple-structured parametrisation: (scalar, 1-vector) for a block diagonal metric blockdiag(s(q) I_1, diag(d0(q)))
    def metric_blocks(self, q):
        return (self.metric_scalar(q), self.metric_diag(q)[:1])

    def vjp_metric_blocks(self, q):
        s_, d_ = self.metric_scalar(q), self.metric_diag(q)[:1]
        gs, gd = grad(s_, q), jac(to_obj(np.asarray(d_, dtype=object)), q)

        def vjp(v):
            if not (isinstance(v, tuple) and len(v) == 2):
                raise TypeError(f"vjp of the block parametrisation expects a 2-tuple (scalar, 1-vector), got {type(v).__name__} of length {len(v) if hasattr(v, '__len__') else '?'}")
            v0, v1 = _s(v[0]), to_obj(np.asarray(v[1], dtype=object)).reshape(-1)
            return np.array([SE(v0.e * gs[k].e + v1[0].e * gd[0, k].e) for k in range(len(q))], dtype=object)
        return (vjp, (s_, d_)) if self.aux else vjp

    def metric_chol(self, q):
        n = len(q)
        L = np.empty((n, n), dtype=object)
        for i in range(n):
            for j in range(n):
                L[i, j] = ufunc(f"mchol{i}{j}", *q, kind="positive" if i == j else "smooth") if i >= j else SE(0)
        return L

    def vjp_metric_chol(self, q):
        return self._vjp_of(self.metric_chol, q)

    # a triangular factor function whose last diagonal entry is NEGATIVE at every position: L L^T is positive definite for any non-singular L and the
    # factored matrix classes accept it (log_abs_det takes absolute values of the diagonal)
    def metric_chol_neg(self, q):
        L = self.metric_chol(q).copy()
        L[-1, -1] = -1 * L[-1, -1]
        return L

    def vjp_metric_chol_neg(self, q):
        return self._vjp_of(self.metric_chol_neg, q)

    def metric_dense_neg(self, q):
        L = self.metric_chol_neg(q)
        return L @ L.T

    def metric_dense(self, q):
        L = self.metric_chol(q)
        return L @ L.T

    def vjp_metric_dense(self, q):
        return self._vjp_of(self.metric_dense, q)


def _s(v):
    v = np.asarray(v, dtype=object)
    return to_obj(v.reshape(-1))[0] if v.size == 1 else to_obj(v)


class Rng:
    """contract stub of numpy Generator: standard normal draws are fresh symbols z_k"""

    def __init__(self):
        self.draws = []

    def _draw(self, shape):
        n = int(np.prod(shape)) if shape != () else 1
        z = np.array([sym(f"z{len(self.draws) + i}") for i in range(n)], dtype=object).reshape(shape)
        self.draws.extend(z.reshape(-1))
        return z

    def standard_normal(self, size=None):
        return self._draw(tuple(size) if size is not None else ())

    def normal(self, loc=0.0, scale=1.0, size=None):
        return self._draw(tuple(size) if size is not None else ())


def metrics(M, n):
    """constant metric variants for the Euclidean-family systems: label -> (constructor argument, dense view, eigen data available?)"""
    d = posvec("m", n)
    L = tri("l", n)
    Q, lam = orth("q", n), posvec("w", n)
    s = sym("s", positive=True)
    return [
        ("implicit identity (default)", None, eye(n)),
        ("IdentityMatrix(n)", M.IdentityMatrix(n), eye(n)),
        ("positive scaled identity", M.PositiveScaledIdentityMatrix(s, n), s * eye(n)),
        ("diagonal array", d, np.diag(d)),
        ("Cholesky-factored", M.TriangularFactoredPositiveDefiniteMatrix(L), L @ L.T),
        ("eigendecomposed", M.EigendecomposedPositiveDefiniteMatrix(Q, lam), Q @ np.diag(lam) @ Q.T),
        # implicitly sized but not the identity (added after seed C07-c; kept last: some case lists slice this list by position)
        ("positive scaled identity of implicit size", M.PositiveScaledIdentityMatrix(s), s * eye(n)),
        # metric passed as a plain 2-D array (documented: wrapped as a dense positive definite matrix); added after seed C05-f
        ("dense 2-D array", L @ L.T, L @ L.T),
    ]


class Out:
    def __init__(self):
        self.obs = []

    def eq(self, oid, got_fn, want_fn, text=None):
        t0 = time.time()
        try:
            st, be, detail, wit = compare(got_fn(), want_fn())
        except Undecided as e:
            self.obs.append((oid, core.UNKNOWN, "symla", time.time() - t0, f"undecided: {e}", None, text))
            return
        except Exception as e:  # noqa: BLE001
            tb = traceback.format_exc().strip().splitlines()
            self.obs.append((oid, core.UNKNOWN if symla.is_artefact(e) else core.FAILED, "symla", time.time() - t0, f"{type(e).__name__}: {e} [{tb[-3].strip() if len(tb) > 2 else ''}]", None, text))
            return
        if st == "equal":
            self.obs.append((oid, core.DISCHARGED, "symla:" + be, time.time() - t0, "", None, text))
        elif st == "numeric-only":
            self.obs.append((oid, "bounded-ok", "symla:numeric-only", time.time() - t0, "vanishes at all sampled points with random concrete model functions; not simplified to zero", None, text))
        else:
            self.obs.append((oid, core.FAILED, "symla:" + be, time.time() - t0, detail, wit, text))

    def flag(self, oid, ok, detail="", text=None):
        self.obs.append((oid, core.DISCHARGED if ok else core.FAILED, "symla", 0.0, "" if ok else detail, None, text))


def new_state(ST, n, tag=""):
    q, p = vec("q" + tag, n), vec("p" + tag, n)
    return ST.ChainState(pos=q.copy(), mom=p.copy(), dir=1), q, p


# ---------------------------------------------------------------------------------------
# C05: value and derivative consistency


def c05_case(S, M, ST, label, system, view_fn, O, gaussian=False, constrained=None):
    """view_fn(q) -> dense metric view at q (constant or position dependent); constrained = (model, dens_wrt_hausdorff) or None"""
    n = DIM
    st, q, p = new_state(ST, n)
    tag = f"systems.{type(system).__name__}[{label}]"
    ell = ufunc("ell", *q)
    Mv = to_obj(view_fn(q))
    Minv = dense_inv(Mv)
    want_h2 = SE(sp.Rational(1, 2) * (p @ Minv @ p).e + (sp.Rational(1, 2) * (q @ q).e if gaussian else 0))
    want_h1 = ell
    if constrained is not None:
        model, hausdorff = constrained
        J = to_obj(jac(model.constr(q), q))
        if not hausdorff:
            gram = J @ Minv @ J.T
            want_h1 = SE(ell.e + sp.Rational(1, 2) * sp.log(sp.Abs(dense_det(gram).e)))
    elif any(s_.has(sp.Function) for s_ in [x.e for x in Mv.flat]) and not gaussian:
        want_h1 = SE(ell.e + sp.Rational(1, 2) * sp.log(sp.Abs(dense_det(Mv).e)))
    O.eq(tag + "/h1-is-documented-formula", lambda: system.h1(st), lambda: want_h1, "h1 == neg_log_dens (+ 1/2 log|M(q)| or + 1/2 log|J M^-1 J^T|)")
    O.eq(tag + "/h2-is-documented-formula", lambda: system.h2(st), lambda: want_h2, "h2 == 1/2 p^T M^-1 p (+ 1/2 q^T q for Gaussian-split systems)")
    O.eq(tag + "/h-is-sum", lambda: system.h(st), lambda: SE(want_h1.e + want_h2.e), "h == h1 + h2")
    O.eq(tag + "/dh1_dpos-is-gradient-of-h1", lambda: system.dh1_dpos(st), lambda: grad(want_h1, q), "dh1_dpos == d h1 / d pos")
    O.eq(tag + "/dh2_dpos-is-gradient-of-h2", lambda: system.dh2_dpos(st), lambda: grad(want_h2, q), "dh2_dpos == d h2 / d pos")
    O.eq(tag + "/dh2_dmom-is-gradient-of-h2", lambda: system.dh2_dmom(st), lambda: grad(want_h2, p), "dh2_dmom == d h2 / d mom")
    O.eq(tag + "/dh_dpos-is-gradient-of-h", lambda: system.dh_dpos(st), lambda: grad(SE(want_h1.e + want_h2.e), q), "dh_dpos == d h / d pos == dh1_dpos + dh2_dpos")
    O.eq(tag + "/dh_dmom-is-gradient-of-h", lambda: system.dh_dmom(st), lambda: grad(want_h2, p), "dh_dmom == d h / d mom")
    # repeated evaluation at the same state (cached arrays must not have been modified in place)
    O.eq(tag + "/dh1_dpos-stable-under-repeated-evaluation", lambda: system.dh1_dpos(st), lambda: grad(want_h1, q), "second evaluation of dh1_dpos at the same state agrees")
    O.eq(tag + "/grad-cache-not-corrupted", lambda: system.grad_neg_log_dens(st), lambda: grad(ell, q), "grad_neg_log_dens unchanged after dh1_dpos evaluations")


def c05_cases(S, M, ST, O, which):
    n = DIM
    k = 0
    for aux in (False, True):
        model = Model(aux)
        for label, marg, view in metrics(M, n):
            for cls, gaussian in ((S.EuclideanMetricSystem, False), (S.GaussianEuclideanMetricSystem, True)):
                if k == which:
                    sysm = cls(model.neg_log_dens, metric=marg, grad_neg_log_dens=model.grad_neg_log_dens)
                    c05_case(S, M, ST, f"{label}; aux={aux}", sysm, lambda q, v=view: v, O, gaussian=gaussian)
                k += 1
        # constrained: one constraint on R^2
        model.n_constr = 1
        for label, marg, view in metrics(M, n)[1:5] + metrics(M, n)[-2:-1]:
            for hausdorff in (True, False):
                if k == which:
                    sysm = S.DenseConstrainedEuclideanMetricSystem(model.neg_log_dens, model.constr, metric=marg, dens_wrt_hausdorff=hausdorff,
                                                                   grad_neg_log_dens=model.grad_neg_log_dens, jacob_constr=model.jacob_constr, mhp_constr=model.mhp_constr)
                    c05_case(S, M, ST, f"{label}; hausdorff={hausdorff}; aux={aux}", sysm, lambda q, v=view: v, O, constrained=(model, hausdorff))
                k += 1
            if k == which:
                sysm = S.GaussianDenseConstrainedEuclideanMetricSystem(model.neg_log_dens, model.constr, metric=marg, grad_neg_log_dens=model.grad_neg_log_dens,
                                                                       jacob_constr=model.jacob_constr, mhp_constr=model.mhp_constr)
                c05_case(S, M, ST, f"{label}; aux={aux}", sysm, lambda q, v=view: v, O, gaussian=True, constrained=(model, False))
            k += 1
        # Riemannian
        riem = [("scalar", lambda: S.ScalarRiemannianMetricSystem(model.neg_log_dens, model.metric_scalar, vjp_metric_scalar_func=model.vjp_metric_scalar,
                                                                   grad_neg_log_dens=model.grad_neg_log_dens), lambda q: model.metric_scalar(q) * eye(n)),
                ("diagonal", lambda: S.DiagonalRiemannianMetricSystem(model.neg_log_dens, model.metric_diag, vjp_metric_diagonal_func=model.vjp_metric_diag,
                                                                       grad_neg_log_dens=model.grad_neg_log_dens), lambda q: np.diag(model.metric_diag(q))),
                ("cholesky", lambda: S.CholeskyFactoredRiemannianMetricSystem(model.neg_log_dens, model.metric_chol, vjp_metric_chol_func=model.vjp_metric_chol,
                                                                               grad_neg_log_dens=model.grad_neg_log_dens), lambda q: model.metric_dense(q)),
                ("dense", lambda: S.DenseRiemannianMetricSystem(model.neg_log_dens, model.metric_dense, vjp_metric_func=model.vjp_metric_dense,
                                                                 grad_neg_log_dens=model.grad_neg_log_dens), lambda q: model.metric_dense(q))]
        # generic RiemannianMetricSystem with a matrix class built by a factory from a TUPLE-structured parameter (block diagonal metric)
        riem.append(("generic class, block diagonal metric from a (scalar, vector) parameter", lambda: S.RiemannianMetricSystem(
            model.neg_log_dens, lambda prm: M.PositiveDefiniteBlockDiagonalMatrix((M.PositiveScaledIdentityMatrix(prm[0], 1), M.PositiveDiagonalMatrix(prm[1]))),
            model.metric_blocks, vjp_metric_func=model.vjp_metric_blocks, grad_neg_log_dens=model.grad_neg_log_dens),
            lambda q: np.diag(np.array([model.metric_scalar(q), model.metric_diag(q)[0]], dtype=object))))
        riem.append(("cholesky, last diagonal entry of the factor function negative", lambda: S.CholeskyFactoredRiemannianMetricSystem(
            model.neg_log_dens, model.metric_chol_neg, vjp_metric_chol_func=model.vjp_metric_chol_neg, grad_neg_log_dens=model.grad_neg_log_dens),
            lambda q: model.metric_dense_neg(q)))
        for label, mk, view in riem:
            if k == which:
                c05_case(S, M, ST, f"{label}; aux={aux}", mk(), view, O)
            k += 1
    return k


def _run_indexed(fn_name, which):
    S, M, ST = load_systems()
    O = Out()
    try:
        with shimmed(M, S):
            # value-dependent branches of the library (comparisons of symbolic entries) fork into paths with recorded constraints
            symla.run_paths(lambda _path: globals()[fn_name](S, M, ST, O, which))
    except Exception:  # noqa: BLE001
        O.obs.append((f"systems.{fn_name}[{which}]/harness", core.ERROR, "symla", 0.0, traceback.format_exc()[-1500:], None, None))
    return O.obs


def _count(fn_name):
    S, M, ST = load_systems()
    with shimmed(M, S):
        return globals()[fn_name](S, M, ST, Out(), -1)


def run_cases(run_, fn_name, procs=16, keep=None):
    n = _count(fn_name)
    ctxm = mp.get_context("fork")
    with ctxm.Pool(procs) as pool:
        results = pool.starmap(_run_indexed, [(fn_name, k) for k in range(n)], chunksize=1)
    for obs in results:
        for oid, st, be, secs, detail, wit, text in obs:
            if keep is not None and not keep(oid):
                continue
            if st == "bounded-ok":
                run_.ob(oid, core.DISCHARGED, be, secs, detail=detail, klass="bounded", text=text)
            else:
                run_.ob(oid, st, be, secs, detail=detail, witness=wit, text=text)
    return n


# ---------------------------------------------------------------------------------------
# C07: component flows are exact


def _flow_cases(S, M, model):
    n = DIM
    out = []
    for label, marg, view in metrics(M, n):
        eig_ok = label not in ("Cholesky-factored", "dense 2-D array")  # the Gaussian flow needs metric.eigval/eigvec: generic numpy eigh of a dense matrix is not mici's code
        out.append((f"Euclidean[{label}]", lambda marg=marg: S.EuclideanMetricSystem(model.neg_log_dens, metric=marg, grad_neg_log_dens=model.grad_neg_log_dens), view, False, None))
        if eig_ok:
            out.append((f"Gaussian[{label}]", lambda marg=marg: S.GaussianEuclideanMetricSystem(model.neg_log_dens, metric=marg, grad_neg_log_dens=model.grad_neg_log_dens), view, True, None))
        if not eig_ok:
            out.append((f"DenseConstrained[{label}]", lambda marg=marg: S.DenseConstrainedEuclideanMetricSystem(
                model.neg_log_dens, model.constr, metric=marg, grad_neg_log_dens=model.grad_neg_log_dens, jacob_constr=model.jacob_constr, mhp_constr=model.mhp_constr), view, False, True))
            continue
        out.append((f"DenseConstrained[{label}]", lambda marg=marg: S.DenseConstrainedEuclideanMetricSystem(
            model.neg_log_dens, model.constr, metric=marg, grad_neg_log_dens=model.grad_neg_log_dens, jacob_constr=model.jacob_constr, mhp_constr=model.mhp_constr), view, False, True))
        out.append((f"GaussianDenseConstrained[{label}]", lambda marg=marg: S.GaussianDenseConstrainedEuclideanMetricSystem(
            model.neg_log_dens, model.constr, metric=marg, grad_neg_log_dens=model.grad_neg_log_dens, jacob_constr=model.jacob_constr, mhp_constr=model.mhp_constr), view, True, False))
    # the metric attribute is reassigned by the metric adapters at the end of warm-up: flows must follow the *current* metric
    d2 = posvec("n", n)
    Q, lam = orth("q", n), posvec("w", n)

    def replaced(cls, extra):
        def mk():
            sysm = cls(model.neg_log_dens, *extra[0], metric=posvec("m", n), grad_neg_log_dens=model.grad_neg_log_dens, **extra[1])
            st0 = None
            return sysm
        return mk
    out.append(("Gaussian[metric replaced after first use: diagonal -> eigendecomposed]",
                lambda: _use_then_replace(S.GaussianEuclideanMetricSystem(model.neg_log_dens, metric=posvec("m", n), grad_neg_log_dens=model.grad_neg_log_dens),
                                          M.EigendecomposedPositiveDefiniteMatrix(Q, lam)), Q @ np.diag(lam) @ Q.T, True, None))
    out.append(("GaussianDenseConstrained[metric replaced after first use: diagonal -> diagonal]",
                lambda: _use_then_replace(S.GaussianDenseConstrainedEuclideanMetricSystem(model.neg_log_dens, model.constr, metric=posvec("m", n), grad_neg_log_dens=model.grad_neg_log_dens,
                                                                                            jacob_constr=model.jacob_constr, mhp_constr=model.mhp_constr),
                                          M.PositiveDiagonalMatrix(d2)), np.diag(d2), True, False))
    out.append(("Euclidean[metric replaced after first use]",
                lambda: _use_then_replace(S.EuclideanMetricSystem(model.neg_log_dens, metric=posvec("m", n), grad_neg_log_dens=model.grad_neg_log_dens), M.PositiveDiagonalMatrix(d2)),
                np.diag(d2), False, None))
    return out


def _use_then_replace(system, new_metric):
    """exercise every flow-related method once with the old metric, then install the new one (as the metric adapters do)"""
    import mici.states as ST_
    st = ST_.ChainState(pos=vec("a", DIM), mom=vec("b", DIM), dir=1)
    system.h2_flow(st, sym("u", positive=True))
    if hasattr(system, "dh2_flow_dmom"):
        system.dh2_flow_dmom(st, sym("u", positive=True))
        # ... and with the very time interval the obligations use afterwards (an integrator keeps its step size across the warm-up / main boundary): a
        # result remembered per time step must not survive the replacement of the metric
        system.dh2_flow_dmom(st, sym("t", positive=True))
        system.h2_flow(st, sym("t", positive=True))
    system.h2(st)
    system.metric = new_metric
    return system


def c07_cases(S, M, ST, O, which):
    n = DIM
    model = Model(False)
    model.n_constr = 1
    cases = _flow_cases(S, M, model)
    if which < 0 or which >= len(cases):
        return len(cases)
    label, mk, view, gaussian, hausdorff = cases[which]
    tag = f"systems.{label}"
    Mv = to_obj(view)
    Minv = dense_inv(Mv)
    t, s_ = sym("t"), sym("s")
    try:
        system = mk()
    except Undecided as e:
        O.obs.append((tag + "/constructible", core.UNKNOWN, "symla", 0.0, f"undecided: {e}", None, None))
        return len(cases)
    except Exception as e:  # noqa: BLE001
        from ..symla import is_artefact
        O.obs.append((tag + "/constructible", core.UNKNOWN if is_artefact(e) else core.FAILED, "symla", 0.0, f"{type(e).__name__}: {e}", None, None))
        return len(cases)

    def flowed(fn, dt, q0=None, p0=None):
        st, q, p = new_state(ST, n)
        if q0 is not None:
            st.pos, st.mom = q0, p0
        fn(st, dt)
        return to_obj(st.pos), to_obj(st.mom), q, p
    # h1_flow: kick by the gradient of the system's own h1
    st, q, p = new_state(ST, n)
    ell = ufunc("ell", *q)
    want_h1 = ell
    if hausdorff is False:
        J = to_obj(jac(model.constr(q), q))
        want_h1 = SE(ell.e + sp.Rational(1, 2) * sp.log(sp.Abs(dense_det(J @ Minv @ J.T).e)))
    def dh1_at_start():
        st0, q0_, p0_ = new_state(ST, n)
        return to_obj(system.dh1_dpos(st0))
    O.eq(tag + "/h1_flow-kicks-momentum-by-minus-t-grad-h1", lambda: flowed(system.h1_flow, t)[1], lambda: p - t * dh1_at_start(),
         "h1_flow: mom' == mom - t * dh1_dpos(state)   (dh1_dpos == d h1/d pos is obligation C05)")
    O.eq(tag + "/h1_flow-leaves-position", lambda: flowed(system.h1_flow, t)[0], lambda: q, "h1_flow: pos' == pos")
    if not gaussian:
        O.eq(tag + "/h2_flow-drifts-position", lambda: flowed(system.h2_flow, t)[0], lambda: q + t * (Minv @ p), "h2_flow: pos' == pos + t M^-1 mom")
        O.eq(tag + "/h2_flow-leaves-momentum", lambda: flowed(system.h2_flow, t)[1], lambda: p, "h2_flow: mom' == mom")
    else:
        def qp(dt, q0=None, p0=None):
            a, b, _, _ = flowed(system.h2_flow, dt, q0, p0)
            return a, b
        O.eq(tag + "/h2_flow-initial-condition", lambda: np.concatenate(qp(SE(0))), lambda: np.concatenate([q, p]), "Phi(0) == id")
        O.eq(tag + "/h2_flow-solves-dq-dt", lambda: np.array([SE(sp.diff(x.e, t.e)) for x in qp(t)[0]], dtype=object), lambda: Minv @ qp(t)[1], "d/dt q(t) == M^-1 p(t)")
        O.eq(tag + "/h2_flow-solves-dp-dt", lambda: np.array([SE(sp.diff(x.e, t.e)) for x in qp(t)[1]], dtype=object), lambda: -1 * qp(t)[0], "d/dt p(t) == -q(t)")
        O.eq(tag + "/h2_flow-group-law", lambda: np.concatenate(qp(s_, *qp(t))), lambda: np.concatenate(qp(s_ + t)), "Phi(s) o Phi(t) == Phi(s + t) for all real s, t (any number of periods)")
        O.eq(tag + "/h2_flow-inverse", lambda: np.concatenate(qp(-1 * t, *qp(t))), lambda: np.concatenate([q, p]), "Phi(-t) o Phi(t) == id")

        def h2_of(q_, p_):
            return SE(sp.Rational(1, 2) * (q_ @ q_).e + sp.Rational(1, 2) * (p_ @ Minv @ p_).e)
        O.eq(tag + "/h2_flow-conserves-h2", lambda: h2_of(*qp(t)), lambda: h2_of(q, p), "h2(Phi(t) z) == h2(z)")
    if hausdorff is not None:
        # both signs of the time interval (scalar * Matrix branches on the sign of the scalar)
        for tl, tt in (("t>0", sym("t", positive=True)), ("t<0", sym("t", negative=True))):
            def blocks(tt=tt):
                st2, q2, p2 = new_state(ST, n)
                a, b = system.dh2_flow_dmom(st2, tt)
                return to_obj(a @ eye(n)), to_obj(b @ eye(n))

            def true_blocks(tt=tt):
                a, b, q2, p2 = flowed(system.h2_flow, tt)
                return jac(a, p2), jac(b, p2)
            O.eq(tag + f"/dh2_flow_dmom-position-block[{tl}]", lambda: blocks()[0], lambda: true_blocks()[0], "dh2_flow_dmom[0] == d pos(t) / d mom")
            O.eq(tag + f"/dh2_flow_dmom-momentum-block[{tl}]", lambda: blocks()[1], lambda: true_blocks()[1], "dh2_flow_dmom[1] == d mom(t) / d mom")
    return len(cases)


# ---------------------------------------------------------------------------------------
# C08: momentum updates / C04: closed-form cotangent projection


def _c08_systems(S, M, model):
    n = DIM
    out = []
    for label, marg, view in metrics(M, n):
        out.append((f"Euclidean[{label}]", lambda marg=marg: S.EuclideanMetricSystem(model.neg_log_dens, metric=marg, grad_neg_log_dens=model.grad_neg_log_dens), lambda q, v=view: v, None))
        if label not in ("implicit identity (default)",):
            out.append((f"DenseConstrained[{label}]", lambda marg=marg: S.DenseConstrainedEuclideanMetricSystem(
                model.neg_log_dens, model.constr, metric=marg, grad_neg_log_dens=model.grad_neg_log_dens, jacob_constr=model.jacob_constr, mhp_constr=model.mhp_constr), lambda q, v=view: v, model))
    out.append(("ScalarRiemannian", lambda: S.ScalarRiemannianMetricSystem(model.neg_log_dens, model.metric_scalar, vjp_metric_scalar_func=model.vjp_metric_scalar,
                                                                          grad_neg_log_dens=model.grad_neg_log_dens), lambda q: model.metric_scalar(q) * eye(n), None))
    out.append(("DiagonalRiemannian", lambda: S.DiagonalRiemannianMetricSystem(model.neg_log_dens, model.metric_diag, vjp_metric_diagonal_func=model.vjp_metric_diag,
                                                                              grad_neg_log_dens=model.grad_neg_log_dens), lambda q: np.diag(model.metric_diag(q)), None))
    out.append(("CholeskyRiemannian", lambda: S.CholeskyFactoredRiemannianMetricSystem(model.neg_log_dens, model.metric_chol, vjp_metric_chol_func=model.vjp_metric_chol,
                                                                                      grad_neg_log_dens=model.grad_neg_log_dens), lambda q: model.metric_dense(q), None))
    out.append(("DenseRiemannian", lambda: S.DenseRiemannianMetricSystem(model.neg_log_dens, model.metric_dense, vjp_metric_func=model.vjp_metric_dense,
                                                                        grad_neg_log_dens=model.grad_neg_log_dens), lambda q: model.metric_dense(q), None))
    # low-rank and block metrics (constant)
    F, dp = mat("f", n, 1), posvec("m", n)
    out.append(("Euclidean[positive-definite low-rank update]", lambda: S.EuclideanMetricSystem(
        model.neg_log_dens, metric=M.PositiveDefiniteLowRankUpdateMatrix(M.DenseRectangularMatrix(F), M.PositiveDiagonalMatrix(dp)), grad_neg_log_dens=model.grad_neg_log_dens),
        lambda q: np.diag(dp) + F @ F.T, None))
    s1 = sym("s", positive=True)
    out.append(("Euclidean[block diagonal]", lambda: S.EuclideanMetricSystem(
        model.neg_log_dens, metric=M.PositiveDefiniteBlockDiagonalMatrix((M.PositiveScaledIdentityMatrix(s1, 1), M.PositiveScaledIdentityMatrix(dp[0], 1))),
        grad_neg_log_dens=model.grad_neg_log_dens), lambda q: np.diag(np.array([s1, dp[0]], dtype=object)), None))
    return out


def c08_cases(S, M, ST, O, which):
    n = DIM
    model = Model(False)
    model.n_constr = 1
    cases = _c08_systems(S, M, model)
    if which < 0 or which >= len(cases):
        return len(cases)
    label, mk, view_fn, cmodel = cases[which]
    tag = f"systems.{label}"
    system = mk()
    st, q, p = new_state(ST, n)
    rng = Rng()
    Mv = to_obj(view_fn(q))
    got = to_obj(system.sample_momentum(st, rng))
    z = np.array(rng.draws, dtype=object)
    O.flag(tag + "/sample_momentum-draws-one-standard-normal-per-dimension", len(z) == n, f"{len(z)} draws for dimension {n}",
           "sample_momentum draws exactly dim standard normal variates from the generator it is given")
    if len(z) != n:
        return len(cases)
    Lmat = jac(got, list(z))  # coefficient of z: the map is linear iff got == L z
    O.eq(tag + "/sample_momentum-is-linear-in-the-draw", lambda: got, lambda: Lmat @ z, "sample_momentum == L z exactly (no offset, no non-linearity)")
    if cmodel is None:
        O.eq(tag + "/momentum-covariance-is-the-metric-at-the-current-position", lambda: Lmat @ Lmat.T, lambda: Mv, "L L^T == metric(state.pos)")
    else:
        J = to_obj(jac(cmodel.constr(q), q))
        Minv = dense_inv(Mv)
        P = eye(n) - J.T @ dense_inv(J @ Minv @ J.T) @ J @ Minv
        O.eq(tag + "/momentum-covariance-is-the-projected-metric", lambda: Lmat @ Lmat.T, lambda: P @ Mv @ P.T, "L L^T == P M P^T (Gaussian law projected onto the cotangent space)")
        O.eq(tag + "/sampled-momentum-in-cotangent-space", lambda: J @ Minv @ got, lambda: np.array([SE(0)], dtype=object), "J M^-1 mom == 0")
        # closed-form projection (C04): annihilates J M^-1 p, changes p only within range(J^T), is idempotent
        mom = vec("r", n)
        proj = to_obj(system.project_onto_cotangent_space(mom.copy(), st))
        O.eq(tag + "/projection-lands-in-cotangent-space", lambda: J @ Minv @ proj, lambda: np.array([SE(0)], dtype=object), "J M^-1 P(p) == 0")
        O.eq(tag + "/projection-correction-in-range-of-JT", lambda: (eye(n) - J.T @ dense_inv(J @ J.T) @ J) @ (proj - mom), lambda: np.array([SE(0)] * n, dtype=object),
             "P(p) - p is a linear combination of the constraint gradients (Lagrange-multiplier form)")
        O.eq(tag + "/projection-idempotent", lambda: to_obj(system.project_onto_cotangent_space(proj.copy(), st)), lambda: proj, "P(P(p)) == P(p)")
    return len(cases)


def c04_obligations(run_, tier):
    """closed-form cotangent projection and projected momentum sampling (Engine B part of C04)"""
    run_.function("mici.systems.ConstrainedEuclideanMetricSystem.project_onto_cotangent_space")
    run_cases(run_, "c08_cases", keep=lambda oid: "DenseConstrained" in oid and any(k in oid for k in ("projection-", "cotangent")))


# ---------------------------------------------------------------------------------------
# C03: symplecticity of the explicit component flows and of explicit steps


class PolyModel:
    """target family with symbolic coefficients (cubic, non-separable) used for the whole-step obligations, where nested applications of
    an uninterpreted function are not simplified reliably by sympy; those obligations are labelled bounded (one function family)"""

    def __init__(self):
        xs = sp.symbols(f"_y0:{DIM}", real=True)
        self.xs = xs
        a, b, c = sp.symbols("a_poly b_poly c_poly", real=True)
        # a three-parameter family of non-separable cubic targets (mixed second derivatives are non-zero and position dependent)
        self.poly = a * xs[0] ** 3 + b * xs[0] * xs[-1] ** 2 + c * xs[0] * xs[-1] + xs[-1] ** 2 / 2

    def neg_log_dens(self, q):
        q = to_obj(np.asarray(q, dtype=object))
        return SE(self.poly.subs({x: v.e for x, v in zip(self.xs, q)}, simultaneous=True))

    def grad_neg_log_dens(self, q):
        q = to_obj(np.asarray(q, dtype=object))
        m = {x: v.e for x, v in zip(self.xs, q)}
        return np.array([SE(sp.diff(self.poly, x).subs(m, simultaneous=True)) for x in self.xs], dtype=object)


def omega(n):
    J = np.empty((2 * n, 2 * n), dtype=object)
    for i in range(2 * n):
        for j in range(2 * n):
            J[i, j] = SE(1 if j == i + n else (-1 if i == j + n else 0))
    return J


def c03_cases(S, M, ST, O, which):
    import importlib
    n = DIM
    model = Model(False)
    flows = []
    for label, marg, view in metrics(M, n):
        if label in ("Cholesky-factored", "dense 2-D array"):
            flows.append((f"Euclidean[{label}]", lambda marg=marg: S.EuclideanMetricSystem(model.neg_log_dens, metric=marg, grad_neg_log_dens=model.grad_neg_log_dens)))
            continue
        flows.append((f"Euclidean[{label}]", lambda marg=marg: S.EuclideanMetricSystem(model.neg_log_dens, metric=marg, grad_neg_log_dens=model.grad_neg_log_dens)))
        flows.append((f"Gaussian[{label}]", lambda marg=marg: S.GaussianEuclideanMetricSystem(model.neg_log_dens, metric=marg, grad_neg_log_dens=model.grad_neg_log_dens)))
    steps = [("LeapfrogIntegrator", "Euclidean[diagonal array]", 3), ("LeapfrogIntegrator", "Gaussian[diagonal array]", 4), ("BCSSTwoStageIntegrator", "Euclidean[IdentityMatrix(n)]", 1)]
    total = 2 * len(flows) + len(steps)
    if which < 0 or which >= total:
        return total
    Om = omega(n)
    t = sym("t")

    def jacobian_of(fn):
        st, q, p = new_state(ST, n)
        fn(st)
        out = np.concatenate([to_obj(st.pos), to_obj(st.mom)])
        return jac(out, list(q) + list(p))
    if which < 2 * len(flows):
        label, mk = flows[which // 2]
        system = mk()
        fname = "h1_flow" if which % 2 == 0 else "h2_flow"
        tag = f"systems.{label}.{fname}"
        Jm = jacobian_of(lambda st: getattr(system, fname)(st, t))
        O.eq(tag + "/jacobian-is-symplectic", lambda: Jm.T @ Om @ Jm, lambda: Om, f"J^T Omega J == Omega for the Jacobian of {fname} (symbolic time and state, any smooth target)")
        return total
    iname, slabel, idx = steps[which - 2 * len(flows)]
    I = importlib.import_module("mici.integrators")
    pm = PolyModel()
    marg = {"Euclidean[diagonal array]": posvec("m", n), "Gaussian[diagonal array]": posvec("m", n), "Euclidean[IdentityMatrix(n)]": M.IdentityMatrix(n)}[slabel]
    cls = S.GaussianEuclideanMetricSystem if slabel.startswith("Gaussian") else S.EuclideanMetricSystem
    system = cls(pm.neg_log_dens, metric=marg, grad_neg_log_dens=pm.grad_neg_log_dens)
    eps = sym("eps", positive=True)
    integ = getattr(I, iname)(system, step_size=eps)
    st, q, p = new_state(ST, n)
    new = integ.step(st)
    out = np.concatenate([to_obj(new.pos), to_obj(new.mom)])
    Jm = jac(out, list(q) + list(p))
    O.eq(f"integrators.{iname}.step[{slabel}]/jacobian-is-symplectic", lambda: Jm.T @ Om @ Jm, lambda: Om,
         "J^T Omega J == Omega for one full step of the real integrator on the real system (target family: a q0^3 + b q0 q1^2 + c q0 q1 + q1^2/2 with symbolic a, b, c)")
    return total
