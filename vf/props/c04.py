"""C04 -- constrained dynamics stay on the manifold / cotangent space.

Engine A part (this file): the three projection solvers (loop invariants I1: pos == pos0 - Phi_q mu, I2: mu in
range(J_prev^T); normal return => residual below tolerance at the returned position, one common Lagrange multiplier for
position and momentum), and ConstrainedLeapfrogIntegrator (projection after every sub-step).
Engine B part (symla, when built): closed-form cotangent projection annihilates J M^-1 p.
"""
from __future__ import annotations

import json

import z3

from .. import core
from ..pyvc import PyRaise
from . import solv_model
from .integ_model import World, make_interp as integ_interp, positive_step

P = "integrators.ConstrainedLeapfrogIntegrator"


def integrator_trace(run, it):
    """every h1 kick and every h2 retraction is followed by a cotangent projection before the step returns;
    every h2_flow is immediately followed by the projection solver on the same state."""
    run.function("mici.integrators.ConstrainedLeapfrogIntegrator._step")

    def h(ctx):
        n = ctx.choose(3, "n_inner") + 1
        w = World(it, ctx, constrained=True)
        # tolerances configured by the user, in any order relation to each other (no assumption constraint_tol >= position_tol)
        ctol, ptol = z3.Real("cfg_constraint_tol"), z3.Real("cfg_position_tol")
        ctx.assume(z3.And(ctol > 0, ptol > 0))
        configured = {"constraint_tol": ctol, "position_tol": ptol}
        integ = w.new("ConstrainedLeapfrogIntegrator", step_size=positive_step(ctx), n_inner_step=n,
                      projection_solver=w.projection_solver_stub(), reverse_check_norm=w.norm_stub(), reverse_check_tol=z3.Real("tol"),
                      projection_solver_kwargs=dict(configured))
        st = w.make_state()
        t = z3.Real("t")

        def same(d):
            return isinstance(d, dict) and set(d) == set(configured) and all(z3.is_expr(d[k]) and d[k].eq(configured[k]) for k in configured)
        try:
            try:
                w.ex.call(w.ex.getattr(integ, "_step"), [st, t], {})
            finally:
                # "the constraint holds to the configured tolerance" (on successful AND failed steps: the next step uses the same integrator object)
                seen = w.__dict__.get("solver_kwargs_seen", [])
                oks = all(same(d) for d in seen)
                ctx.run.ob(P + "._step/every-projection-solve-uses-the-configured-tolerances", core.DISCHARGED if oks else core.FAILED, "pyvc",
                           detail="" if oks else f"solver keyword arguments {[{k: str(v) for k, v in d.items()} for d in seen if not same(d)][:2]} differ from the configured {configured}",
                           text="every call of the projection solver (forward retraction and reverse check) receives exactly projection_solver_kwargs as configured")
                kept = same(integ.attrs.get("projection_solver_kwargs"))
                ctx.run.ob(P + "._step/leaves-the-configured-tolerances-unchanged", core.DISCHARGED if kept else core.FAILED, "pyvc",
                           detail="" if kept else f"projection_solver_kwargs after the step: { {k: str(v) for k, v in (integ.attrs.get('projection_solver_kwargs') or {}).items()} }",
                           text="frame: a step does not modify the integrator's projection_solver_kwargs (later steps solve to the same tolerances)")
        except PyRaise:
            return
        evs = [e for e in w.trace if e[0] in ("h1_flow", "h2_flow", "projection_solver", "project_onto_cotangent_space") and e[1] is st]
        kinds = [e[0] for e in evs]
        ok_last = bool(kinds) and kinds[-1] == "project_onto_cotangent_space"
        ctx.run.ob(P + "._step/ends-with-cotangent-projection", core.DISCHARGED if ok_last else core.FAILED, "pyvc",
                   detail="" if ok_last else str(kinds), text="a successful step ends with a projection of the momentum onto the cotangent space")
        good = True
        for i, k in enumerate(kinds):
            if k == "h2_flow" and (i + 1 >= len(kinds) or kinds[i + 1] != "projection_solver"):
                good = False
            if k in ("h1_flow", "projection_solver") and (i + 1 >= len(kinds) or kinds[i + 1] != "project_onto_cotangent_space"):
                good = False
        ctx.run.ob(P + "._step/projection-after-every-sub-step", core.DISCHARGED if good else core.FAILED, "pyvc",
                   detail="" if good else str(kinds),
                   text="every h2_flow is followed by the manifold retraction, every kick and every retraction by a cotangent projection")
        n_h2 = kinds.count("h2_flow")
        ctx.run.ob(P + "._step/inner-step-count", core.DISCHARGED if n_h2 == n else core.FAILED, "pyvc", detail="" if n_h2 == n else f"{n_h2} != {n}")
        # the projection is applied to the state's own momentum and written back
        pr = [e for e in w.trace if e[0] == "project_onto_cotangent_space"]
        ok_mom = all(e[1] is not None for e in pr)
        ctx.run.ob(P + "._project_onto_cotangent_space/writes-back", core.DISCHARGED if ok_mom else core.FAILED, "pyvc")
    it.explore(h, "constrained-trace", roots=[[0], [1], [2]])


def run(run_, tier):
    it = solv_model.make_interp(run_)
    run_.assume("A1 reals; A4 constraint function/Jacobian are uninterpreted and consistent; convergence (liveness) not claimed")
    run_.trust("jacob_constr_inner_product(...).inv is the inverse (C10); dh2_flow_dmom == flow Jacobian is imported from C07 as obligations")
    run_.replay_for("", lambda w: {"script": "c04_constrained.py", "args": ["all", json.dumps(w or {})]})
    solv_model.projection_solvers(run_, it, "C04")
    it2 = integ_interp(run_)
    integrator_trace(run_, it2)
    # constr / jacob_constr / gram reach the solvers and projections through the state cache: its transparency (C09 layer 1,
    # incl. pickle round trips and copies) is a premise of "the residual that was tested is the residual of the returned position"
    from . import c09
    from ..pyvc import Interp
    from .integ_model import install_std
    it3 = Interp(run_)
    install_std(it3)
    run_.replay_for("states.", lambda w: {"script": "c09_cache.py", "args": [json.dumps(w or {})]})
    c09.protocol(run_, it3, "C09")
    # Engine D: the closed-form cotangent projection for ALL dimensions n, k and every metric object satisfying the matrix contract
    from . import generic_systems
    generic_systems.run_generic_systems(run_, keep=lambda oid: any(t in oid for t in ("projection-", "gram", "sampled-momentum", "metric-inverse")))
    try:
        from . import symla_systems
        # premise of the solver contracts (was a trusted statement): dh2_flow_dmom is the Jacobian of the real h2_flow with respect to the momentum, for every
        # metric type, both signs of the time interval, and after the metric attribute was replaced between two uses with the same time step (C07 obligations)
        symla_systems.run_cases(run_, "c07_cases", keep=lambda oid: "dh2_flow_dmom" in oid)
        symla_systems.c04_obligations(run_, tier)
    except ImportError:
        run_.notes.append("closed-form cotangent projection (Engine B) not built yet: not claimed in this run")
    run_.extraction_drops.extend(sorted(it.dropped | it2.dropped))
    run_.notes.append(f"paths explored: {it.paths + it2.paths}; solver seconds {it.solver_seconds + it2.solver_seconds:.2f}")
