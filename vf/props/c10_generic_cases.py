"""Case table of the dimension-generic C10 obligations, independent of how operands are realised: `F` is an operand factory --
vf.props.c10_generic.SymbolicFactory (contract stubs over matrix atoms of symbolic dimension) in the check, and
replays/c10_generic.py:NativeFactory (real mici classes over random numpy arrays of concrete dimension) in the native replay.
No imports: usable from both interpreters."""


def cases(M, F):
    """name -> thunk() -> (object, probe options)"""
    C = {}

    def case(name):
        def deco(f):
            C[name] = f
            return f
        return deco

    # --- products of arbitrary contract-satisfying operands -------------------------------------------------------
    @case("MatrixProduct[rect n x k @ rect k x n -> square product class]")
    def _():
        return F.matrix("p", "n", "k") @ F.matrix("q", "k", "n"), {}

    @case("MatrixProduct[rect n x k @ square k x k]")
    def _():
        return F.matrix("p", "n", "k") @ F.invertible("b", "k"), {}

    @case("MatrixProduct[explicit 3 factors, check_shapes]")
    def _():
        return M.MatrixProduct((F.matrix("p", "n", "k"), F.square("b", "k"), F.matrix("q", "k", "m"))), {}

    @case("SquareMatrixProduct[square (singular allowed) @ invertible]")
    def _():
        return F.square("a", "n") @ F.invertible("b", "n"), {}

    @case("InvertibleMatrixProduct[invertible @ invertible]")
    def _():
        return F.invertible("a", "n") @ F.invertible("b", "n"), {}

    @case("InvertibleMatrixProduct[3 factors incl. symmetric and positive definite]")
    def _():
        return M.InvertibleMatrixProduct((F.invertible("a", "n"), F.sym_invertible("b", "n"), F.posdef("d", "n"))), {}

    @case("MatrixProduct[product @ product nests]")
    def _():
        return (F.matrix("p", "n", "k") @ F.matrix("q", "k", "m")) @ (F.matrix("r", "m", "k") @ F.matrix("t", "k", "n")), {}

    # --- low-rank updates ----------------------------------------------------------------------------------------------
    for sign in (1, -1):
        for inner in ("stub", "default"):
            for dim in ("k", "k=n"):
                kk = "k" if dim == "k" else "n"

                def mk(sign=sign, inner=inner, kk=kk, given=False):
                    U, V = F.matrix("u", "n", kk), F.matrix("v", kk, "n")
                    A = F.invertible("a", "n")
                    Ci = F.invertible("c", kk) if inner == "stub" else None
                    cap = F.capacitance("invertible", Ci, V, A, U, sign, kk) if given else None
                    return M.SquareLowRankUpdateMatrix(U, V, A, Ci, cap, sign=sign), {}
                C[f"SquareLowRankUpdateMatrix[sign={sign:+d}; inner={inner}; inner-dim {dim}]"] = mk
                if dim == "k":
                    C[f"SquareLowRankUpdateMatrix[sign={sign:+d}; inner={inner}; capacitance given]"] = (lambda mk=mk: mk(given=True))

                def mks(sign=sign, inner=inner, kk=kk, given=False):
                    Fm = F.matrix("f", "n", kk)
                    A = F.sym_invertible("a", "n")
                    Ci = F.sym_invertible("c", kk) if inner == "stub" else None
                    cap = F.capacitance("sym", Ci, Fm.T, A, Fm, sign, kk) if given else None
                    return M.SymmetricLowRankUpdateMatrix(Fm, A, Ci, cap, sign=sign), {"sym": True}
                C[f"SymmetricLowRankUpdateMatrix[sign={sign:+d}; inner={inner}; inner-dim {dim}]"] = mks
                if dim == "k":
                    C[f"SymmetricLowRankUpdateMatrix[sign={sign:+d}; inner={inner}; capacitance given]"] = (lambda mks=mks: mks(given=True))

                def mkp(sign=sign, inner=inner, kk=kk, given=False):
                    Fm = F.matrix("f", "n", kk)
                    A = F.posdef("a", "n")
                    Ci = F.posdef("c", kk) if inner == "stub" else None
                    cap = F.capacitance("pd", Ci, Fm.T, A, Fm, sign, kk) if given else None
                    return M.PositiveDefiniteLowRankUpdateMatrix(Fm, A, Ci, cap, sign=sign), {"sym": True, "pd": True}
                C[f"PositiveDefiniteLowRankUpdateMatrix[sign={sign:+d}; inner={inner}; inner-dim {dim}]"] = mkp
                if dim == "k":
                    C[f"PositiveDefiniteLowRankUpdateMatrix[sign={sign:+d}; inner={inner}; capacitance given]"] = (lambda mkp=mkp: mkp(given=True))
    leaf_cases(C, M, F)
    return C


def leaf_cases(C, M, F):
    """leaf classes whose code is ring-level: the real class on arrays of generic dimension supplied by the factory
    (F.array: 2-D array with declared structure, F.diagvec: 1-D array of diagonal entries, F.scalar: non-zero scalar)"""
    def case(name):
        def deco(f):
            C[name] = f
            return f
        return deco

    @case("IdentityMatrix[n]")
    def _():
        return M.IdentityMatrix(F.dim("n")), {"sym": True, "pd": True}

    for sg in ("pos", "neg"):
        @case(f"ScaledIdentityMatrix[{sg}]")
        def _(sg=sg):
            return M.ScaledIdentityMatrix(F.scalar("s", sg), F.dim("n")), {"sym": True}

    @case("PositiveScaledIdentityMatrix")
    def _():
        return M.PositiveScaledIdentityMatrix(F.scalar("s", "pos"), F.dim("n")), {"sym": True, "pd": True}

    @case("DiagonalMatrix[entries of any sign]")
    def _():
        return M.DiagonalMatrix(F.diagvec("d", "n", positive=False)), {"sym": True}

    @case("PositiveDiagonalMatrix")
    def _():
        return M.PositiveDiagonalMatrix(F.diagvec("d", "n", positive=True)), {"sym": True, "pd": True}

    for lower in (True, False):
        @case(f"TriangularMatrix[full array, lower={lower}, make_triangular]")
        def _(lower=lower):
            return M.TriangularMatrix(F.array("t", "n", "n"), lower=lower), {}

        @case(f"TriangularMatrix[triangular array, lower={lower}, make_triangular=False]")
        def _(lower=lower):
            return M.TriangularMatrix(F.array("t", "n", "n", tri="lower" if lower else "upper"), lower=lower, make_triangular=False), {}

        @case(f"InverseTriangularMatrix[full array, lower={lower}]")
        def _(lower=lower):
            return M.InverseTriangularMatrix(F.array("t", "n", "n"), lower=lower), {}

        for sign in (1, -1):
            @case(f"TriangularFactoredDefiniteMatrix[array factor, lower={lower}, sign={sign:+d}]")
            def _(lower=lower, sign=sign):
                return M.TriangularFactoredDefiniteMatrix(F.array("t", "n", "n"), sign=sign, factor_is_lower=lower), {"sym": True}

        @case(f"TriangularFactoredPositiveDefiniteMatrix[array factor, lower={lower}]")
        def _(lower=lower):
            return M.TriangularFactoredPositiveDefiniteMatrix(F.array("t", "n", "n"), factor_is_lower=lower), {"sym": True, "pd": True}

    @case("TriangularFactoredDefiniteMatrix[TriangularMatrix factor, sign=-1]")
    def _():
        return M.TriangularFactoredDefiniteMatrix(M.TriangularMatrix(F.array("t", "n", "n", tri="upper"), lower=False, make_triangular=False), sign=-1), {"sym": True}

    @case("TriangularFactoredDefiniteMatrix[InverseTriangularMatrix factor, sign=+1]")
    def _():
        return M.TriangularFactoredDefiniteMatrix(M.InverseTriangularMatrix(F.array("t", "n", "n", tri="lower"), lower=True, make_triangular=False), sign=1), {"sym": True}

    @case("DensePositiveDefiniteMatrix[lazy factor]")
    def _():
        return M.DensePositiveDefiniteMatrix(F.array("a", "n", "n", sym=True, pd=True)), {"sym": True, "pd": True}

    @case("DenseDefiniteMatrix[negative definite, lazy factor]")
    def _():
        return M.DenseDefiniteMatrix(-1 * F.array("a", "n", "n", sym=True, pd=True), is_posdef=False), {"sym": True}

    # a triangular factor SUPPLIED by the caller, of either orientation: the library's convention is array == sign * factor @ factor.T whichever
    # triangle the factor occupies (an upper factor U means U U^T -- not scipy's U^T U)
    for lower in (True, False):
        @case(f"DensePositiveDefiniteMatrix[given TriangularMatrix factor, lower={lower}]")
        def _(lower=lower):
            t = F.array("t", "n", "n", tri="lower" if lower else "upper")
            return M.DensePositiveDefiniteMatrix(t @ t.T, factor=M.TriangularMatrix(t, lower=lower, make_triangular=False)), {"sym": True, "pd": True}

    @case("DenseDefiniteMatrix[negative definite, given upper TriangularMatrix factor]")
    def _():
        t = F.array("t", "n", "n", tri="upper")
        return M.DenseDefiniteMatrix(-1 * (t @ t.T), factor=M.TriangularMatrix(t, lower=False, make_triangular=False), is_posdef=False), {"sym": True}

    @case("DenseSquareMatrix[lazy LU]")
    def _():
        return M.DenseSquareMatrix(F.array("a", "n", "n", inv=True)), {}

    @case("DenseSymmetricMatrix[lazy eigendecomposition]")
    def _():
        return M.DenseSymmetricMatrix(F.array("a", "n", "n", sym=True, inv=True)), {"sym": True}

    @case("OrthogonalMatrix")
    def _():
        return M.OrthogonalMatrix(F.array("q", "n", "n", orth=True)), {}

    for sg in ("pos", "neg"):
        @case(f"ScaledOrthogonalMatrix[{sg}]")
        def _(sg=sg):
            return M.ScaledOrthogonalMatrix(F.scalar("s", sg), F.array("q", "n", "n", orth=True)), {}

    @case("EigendecomposedSymmetricMatrix[array eigvec]")
    def _():
        return M.EigendecomposedSymmetricMatrix(F.array("q", "n", "n", orth=True), F.diagvec("w", "n", positive=False)), {"sym": True}

    @case("EigendecomposedPositiveDefiniteMatrix[OrthogonalMatrix eigvec]")
    def _():
        return M.EigendecomposedPositiveDefiniteMatrix(M.OrthogonalMatrix(F.array("q", "n", "n", orth=True)), F.diagvec("w", "n", positive=True)), {"sym": True, "pd": True}

    @case("DenseRectangularMatrix")
    def _():
        return M.DenseRectangularMatrix(F.array("r", "n", "k")), {}

    # real leaf classes as operands of the composite classes
    @case("PositiveDefiniteLowRankUpdateMatrix[real operands: dense factor, diagonal base, dense inner; sign=-1]")
    def _():
        return M.PositiveDefiniteLowRankUpdateMatrix(M.DenseRectangularMatrix(F.array("f", "n", "k")), M.PositiveDiagonalMatrix(F.diagvec("d", "n", positive=True)),
                                                     M.DensePositiveDefiniteMatrix(F.array("c", "k", "k", sym=True, pd=True)), sign=-1), {"sym": True, "pd": True}

    @case("InvertibleMatrixProduct[real operands: dense square @ triangular @ scaled identity]")
    def _():
        return M.InvertibleMatrixProduct((M.DenseSquareMatrix(F.array("a", "n", "n", inv=True)), M.TriangularMatrix(F.array("t", "n", "n"), lower=True),
                                          M.ScaledIdentityMatrix(F.scalar("s", "neg"), F.dim("n")))), {}
