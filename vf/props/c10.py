"""C10 -- structured matrix expressions agree with dense linear algebra.

Engine B (symla): every matrix class of the real mici/matrices.py is instantiated with exact symbolic parameters (all
constructor options case-split) and the real methods are executed; per class x operation the obligation is
   view(result) == op(view(self))      (view = the dense array the class documents)
checked exactly (see symla.py).  Derived objects (transpose, inverse, scalar multiples by a positive and a negative
symbol, negation, square root, products with other classes) are checked recursively to depth 2, so lazily cached factors
carried across operations (capacitance matrices, LU / Cholesky / eigen factors) are exercised.
"""
from __future__ import annotations

import json
import multiprocessing as mp
import os
import time
import traceback

import numpy as np
import sympy as sp

from .. import core
from ..symla import is_artefact as symla_is_artefact
from ..symla import (SE, Undecided, compare, dense_det, dense_inv, eye, mat, orth, posvec, register_eigh, shimmed, sym, to_obj, tri, vec)


def load():
    import importlib
    import sys
    for k in [k for k in sys.modules if k == "mici" or k.startswith("mici.")]:
        del sys.modules[k]
    if core.SRC not in sys.path:
        sys.path.insert(0, core.SRC)
    return importlib.import_module("mici.matrices")


# ---------------------------------------------------------------------------------------
# factories: name -> function(M) -> list of (label, object, view)


def _sym_from(Q, lam):
    return Q @ np.diag(lam) @ Q.T


def factories():
    F = {}

    def add(name):
        def deco(f):
            F[name] = f
            return f
        return deco

    @add("IdentityMatrix")
    def _(M):
        return [("n=2", M.IdentityMatrix(2), eye(2)), ("n=1", M.IdentityMatrix(1), eye(1))]

    @add("ScaledIdentityMatrix")
    def _(M):
        out = []
        for lab, s in (("s>0", sym("s", positive=True)), ("s<0", sym("s", negative=True))):
            out.append((lab, M.ScaledIdentityMatrix(s, 2), s * eye(2)))
        p = sym("s", positive=True)
        out.append(("positive-class", M.PositiveScaledIdentityMatrix(p, 2), p * eye(2)))
        return out

    @add("DiagonalMatrix")
    def _(M):
        d = vec("d", 3)
        dp = posvec("d", 2)
        return [("generic-sign n=3", M.DiagonalMatrix(d), np.diag(d)), ("positive-class", M.PositiveDiagonalMatrix(dp), np.diag(dp))]

    @add("TriangularMatrix")
    def _(M):
        out = []
        for lower in (True, False):
            a = tri("l", 3 if lower else 2, lower=lower, full=True)
            v = np.tril(a) if lower else np.triu(a)
            out.append((f"lower={lower} make_triangular", M.TriangularMatrix(a, lower=lower), v))
            out.append((f"lower={lower} inverse-class", M.InverseTriangularMatrix(a, lower=lower), dense_inv(to_obj(v))))
        return out

    @add("TriangularFactoredDefiniteMatrix")
    def _(M):
        out = []
        for lower in (True, False):
            for sign in (1, -1):
                a = tri("l", 2, lower=lower, full=True)
                f = to_obj(np.tril(a) if lower else np.triu(a))
                out.append((f"array-factor lower={lower} sign={sign}", M.TriangularFactoredDefiniteMatrix(a, sign=sign, factor_is_lower=lower), sign * (f @ f.T)))
        a = tri("l", 2, lower=True)
        out.append(("TriangularMatrix-factor", M.TriangularFactoredDefiniteMatrix(M.TriangularMatrix(a, lower=True), sign=-1), -1 * (a @ a.T)))
        fi = dense_inv(a)
        out.append(("InverseTriangularMatrix-factor", M.TriangularFactoredDefiniteMatrix(M.InverseTriangularMatrix(a, lower=True), sign=1), fi @ fi.T))
        out.append(("positive-class", M.TriangularFactoredPositiveDefiniteMatrix(a, factor_is_lower=True), a @ a.T))
        b = tri("u", 2, lower=False)
        out.append(("positive-class upper", M.TriangularFactoredPositiveDefiniteMatrix(b, factor_is_lower=False), b @ b.T))
        return out

    @add("DenseDefiniteMatrix")
    def _(M):
        L = tri("l", 2)
        A = L @ L.T
        out = [("posdef lazy-factor", M.DensePositiveDefiniteMatrix(A), A),
               ("posdef given-factor", M.DensePositiveDefiniteMatrix(A, factor=M.TriangularMatrix(L, lower=True)), A),
               ("negdef lazy-factor", M.DenseDefiniteMatrix(-1 * A, is_posdef=False), -1 * A),
               ("negdef given-factor", M.DenseDefiniteMatrix(-1 * A, factor=M.TriangularMatrix(L, lower=True), is_posdef=False), -1 * A)]
        # an UPPER factor supplied by the caller: the library's convention is array == sign * factor @ factor.T for either orientation
        U = tri("u", 2, lower=False)
        Au = U @ U.T
        out.append(("posdef given upper factor", M.DensePositiveDefiniteMatrix(Au, factor=M.TriangularMatrix(U, lower=False)), Au))
        out.append(("negdef given upper factor", M.DenseDefiniteMatrix(-1 * Au, factor=M.TriangularMatrix(U, lower=False), is_posdef=False), -1 * Au))
        L3 = tri("l", 3)
        out.append(("posdef n=3", M.DensePositiveDefiniteMatrix(L3 @ L3.T), L3 @ L3.T))
        return out

    @add("DensePositiveDefiniteProductMatrix")
    def _(M):
        R = mat("r", 1, 2)
        out = [("rect 1x2 identity inner", M.DensePositiveDefiniteProductMatrix(R), R @ R.T)]
        dp = posvec("d", 2)
        out.append(("rect 1x2 diagonal inner", M.DensePositiveDefiniteProductMatrix(R, M.PositiveDiagonalMatrix(dp)), R @ np.diag(dp) @ R.T))
        return out

    @add("DenseSquareMatrix")
    def _(M):
        A = mat("a", 2)
        A3 = mat("a", 3)
        X = M.DenseSquareMatrix(A)
        return [("n=2 lazy-lu", M.DenseSquareMatrix(A), A), ("n=3", M.DenseSquareMatrix(A3), A3),
                ("n=2 lu-present (after log_abs_det)", (lambda x: (x.log_abs_det, x)[1])(X), A),
                ("inverse-LU-class", M.DenseSquareMatrix(A).inv, dense_inv(A))]

    @add("DenseSymmetricMatrix")
    def _(M):
        Q, lam = orth("q", 2), vec("w", 2)
        A = _sym_from(Q, lam)
        register_eigh(A, lam, Q)
        # only ONE half of the optional eigendecomposition supplied, in another column order than the one eigh returns (registered above): the class
        # must end up with a consistent (eigvec, eigval) pair whichever property is requested first
        Qp, lamp = Q[:, ::-1].copy(), lam[::-1].copy()
        return [("eig lazily computed", M.DenseSymmetricMatrix(A), A), ("eig supplied (arrays)", M.DenseSymmetricMatrix(A, eigvec=Q, eigval=lam), A),
                ("eig supplied (OrthogonalMatrix)", M.DenseSymmetricMatrix(A, eigvec=M.OrthogonalMatrix(Q), eigval=lam), A),
                ("only eigvec supplied, other column order than eigh", M.DenseSymmetricMatrix(A, eigvec=Qp), A),
                ("only eigval supplied, other order than eigh", M.DenseSymmetricMatrix(A, eigval=lamp), A)]

    @add("OrthogonalMatrix")
    def _(M):
        Q = orth("q", 2)
        Q3 = orth("q", 3)
        s = sym("s", negative=True)
        return [("n=2", M.OrthogonalMatrix(Q), Q), ("n=3", M.OrthogonalMatrix(Q3), Q3), ("scaled", M.ScaledOrthogonalMatrix(s, Q), s * Q)]

    @add("EigendecomposedSymmetricMatrix")
    def _(M):
        Q, lam, lp = orth("q", 2), vec("w", 2), posvec("w", 2)
        c = sym("c", positive=True)
        H = _sym_from(Q, lam)
        register_eigh(H, lam, Q)
        soft = np.array([SE(l.e / sp.tanh(l.e * c.e)) for l in lam], dtype=object)
        return [("symmetric", M.EigendecomposedSymmetricMatrix(Q, lam), _sym_from(Q, lam)),
                ("symmetric OrthogonalMatrix arg", M.EigendecomposedSymmetricMatrix(M.OrthogonalMatrix(Q), lam), _sym_from(Q, lam)),
                ("positive-definite", M.EigendecomposedPositiveDefiniteMatrix(Q, lp), _sym_from(Q, lp)),
                ("softabs", M.SoftAbsRegularizedPositiveDefiniteMatrix(H, c), _sym_from(Q, soft))]

    @add("BlockDiagonal")
    def _(M):
        A = mat("a", 2)
        s = sym("s", negative=True)
        d = posvec("d", 2)
        L = tri("l", 2)
        p = sym("p", positive=True)
        V1 = np.block([[A, np.zeros((2, 1))], [np.zeros((1, 2)), s * eye(1)]])
        V2 = np.block([[np.diag(d), np.zeros((2, 1))], [np.zeros((1, 2)), s * eye(1)]])
        V3 = np.block([[L @ L.T, np.zeros((2, 2))], [np.zeros((2, 2)), np.diag(d)]])
        V4 = np.block([[p * eye(1), np.zeros((1, 2))], [np.zeros((2, 1)), np.diag(d)]])
        return [("square (dense, scaled identity)", M.SquareBlockDiagonalMatrix((M.DenseSquareMatrix(A), M.ScaledIdentityMatrix(s, 1))), to_obj(V1)),
                ("symmetric (diagonal, scaled identity)", M.SymmetricBlockDiagonalMatrix((M.DiagonalMatrix(d), M.ScaledIdentityMatrix(s, 1))), to_obj(V2)),
                ("positive-definite (dense, diagonal)", M.PositiveDefiniteBlockDiagonalMatrix((M.DensePositiveDefiniteMatrix(L @ L.T), M.PositiveDiagonalMatrix(d))), to_obj(V3)),
                ("positive-definite (scaled identity, diagonal)", M.PositiveDefiniteBlockDiagonalMatrix((M.PositiveScaledIdentityMatrix(p, 1), M.PositiveDiagonalMatrix(d))), to_obj(V4))]

    @add("Rectangular")
    def _(M):
        R = mat("r", 2, 3)
        A, B = mat("a", 2, 1), mat("b", 2, 2)
        C, D = mat("c", 1, 2), mat("e", 2, 2)
        return [("dense 2x3", M.DenseRectangularMatrix(R), R),
                ("block row", M.BlockRowMatrix((M.DenseRectangularMatrix(A), M.DenseSquareMatrix(B))), to_obj(np.concatenate([A, B], axis=1))),
                ("block column", M.BlockColumnMatrix((M.DenseRectangularMatrix(C), M.DenseSquareMatrix(D))), to_obj(np.concatenate([C, D], axis=0)))]

    @add("SquareLowRankUpdateMatrix")
    def _(M):
        out = []
        U, V = mat("u", 2, 1), mat("v", 1, 2)
        A = mat("a", 2)
        c = sym("c", positive=True)
        for sign in (1, -1):
            X = M.SquareLowRankUpdateMatrix(M.DenseRectangularMatrix(U), M.DenseRectangularMatrix(V), M.DenseSquareMatrix(A), sign=sign)
            out.append((f"identity inner sign={sign}", X, A + sign * (U @ V)))
            X = M.SquareLowRankUpdateMatrix(M.DenseRectangularMatrix(U), M.DenseRectangularMatrix(V), M.DenseSquareMatrix(A), M.ScaledIdentityMatrix(c, 1), sign=sign)
            out.append((f"scalar inner sign={sign}", X, A + sign * c * (U @ V)))
        X = M.SquareLowRankUpdateMatrix(M.DenseRectangularMatrix(U), M.DenseRectangularMatrix(V), M.DenseSquareMatrix(A), sign=1)
        X.capacitance_matrix
        out.append(("capacitance present before derivation", X, A + U @ V))
        # inner dimension 2 (the capacitance matrix is a genuine, non-symmetric 2x2 matrix), diagonal outer matrix to keep terms small
        U2, V2, d2 = mat("u", 2, 2), mat("v", 2, 2), vec("d", 2)
        X = M.SquareLowRankUpdateMatrix(M.DenseRectangularMatrix(U2), M.DenseRectangularMatrix(V2), M.DiagonalMatrix(d2), sign=1)
        X.capacitance_matrix
        out.append(("inner-dim 2 capacitance present", X, np.diag(d2) + U2 @ V2))
        X = M.SquareLowRankUpdateMatrix(M.DenseRectangularMatrix(U2), M.DenseRectangularMatrix(V2), M.DiagonalMatrix(d2), sign=-1)
        out.append(("inner-dim 2 lazy sign=-1", X, np.diag(d2) - U2 @ V2))
        return out

    @add("SymmetricLowRankUpdateMatrix")
    def _(M):
        out = []
        F = mat("f", 2, 1)
        d = vec("d", 2)
        dp = posvec("d", 2)
        c = sym("c", positive=True)
        for sign in (1, -1):
            X = M.SymmetricLowRankUpdateMatrix(M.DenseRectangularMatrix(F), M.DiagonalMatrix(d), sign=sign)
            out.append((f"symmetric identity inner sign={sign}", X, np.diag(d) + sign * (F @ F.T)))
            X = M.SymmetricLowRankUpdateMatrix(M.DenseRectangularMatrix(F), M.DiagonalMatrix(d), M.ScaledIdentityMatrix(c, 1), sign=sign)
            out.append((f"symmetric scalar inner sign={sign}", X, np.diag(d) + sign * c * (F @ F.T)))
        X = M.PositiveDefiniteLowRankUpdateMatrix(M.DenseRectangularMatrix(F), M.PositiveDiagonalMatrix(dp))
        out.append(("positive-definite update identity inner", X, np.diag(dp) + F @ F.T))
        X = M.PositiveDefiniteLowRankUpdateMatrix(M.DenseRectangularMatrix(F), M.PositiveDiagonalMatrix(dp), M.PositiveScaledIdentityMatrix(c, 1))
        out.append(("positive-definite update scalar inner", X, np.diag(dp) + c * (F @ F.T)))
        return out

    @add("MatrixProduct")
    def _(M):
        A, B = mat("a", 2), mat("b", 2)
        d = vec("d", 2)
        L = tri("l", 2)
        R = mat("r", 2, 3)
        s = sym("s", positive=True)
        out = [("dense @ dense (invertible product)", M.DenseSquareMatrix(A) @ M.DenseSquareMatrix(B), A @ B),
               ("diagonal @ triangular", M.DiagonalMatrix(d) @ M.TriangularMatrix(L), np.diag(d) @ L),
               ("triangular-inverse @ dense", M.InverseTriangularMatrix(L) @ M.DenseSquareMatrix(A), dense_inv(L) @ A),
               ("square @ rectangular", M.DenseSquareMatrix(A) @ M.DenseRectangularMatrix(R), A @ R),
               ("scaled identity @ dense", M.PositiveScaledIdentityMatrix(s, 2) @ M.DenseSquareMatrix(A), s * A),
               ("three factors", (M.DiagonalMatrix(d) @ M.DenseSquareMatrix(A)) @ M.TriangularMatrix(L), np.diag(d) @ A @ L)]
        return out
    return F


# ---------------------------------------------------------------------------------------
# operation suite


class Collector:
    def __init__(self):
        self.obs = []

    def ob(self, oid, got_fn, want_fn, text=None):
        t0 = time.time()
        try:
            got, want = got_fn(), want_fn()
            st, be, detail, wit = compare(got, want)
        except Undecided as e:
            if "no registered eigendecomposition" in str(e) and "/eig" in oid:
                return  # generic numpy eigh of an unstructured matrix: nothing of mici's to verify
            self.obs.append((oid, core.UNKNOWN, "symla", time.time() - t0, f"undecided: {e}", None, text))
            return
        except Exception as e:  # noqa: BLE001
            tb = traceback.format_exc().strip().splitlines()
            self.obs.append((oid, core.UNKNOWN if symla_is_artefact(e) else core.FAILED, "symla", time.time() - t0, f"{type(e).__name__}: {e} [{tb[-3].strip() if len(tb) > 2 else ''}]", None, text))
            return
        if st == "equal":
            self.obs.append((oid, core.DISCHARGED, "symla:" + be, time.time() - t0, "", None, text))
        elif st == "numeric-only":
            self.obs.append((oid, "bounded-ok", "symla:numeric-only", time.time() - t0, "vanishes at all sampled points; not simplified to zero", None, text))
        else:
            self.obs.append((oid, core.FAILED, "symla:" + be, time.time() - t0, detail, wit, text))

    def flag(self, oid, ok, detail="", text=None):
        self.obs.append((oid, core.DISCHARGED if ok else core.FAILED, "symla", 0.0, "" if ok else detail, None, text))


def shallow_suite(C, M, tag, X, V, depth_label="", lite=False):
    """array, products, transpose array, inverse array, diagonal, log|det| of X against the dense view V"""
    n, m = V.shape
    t = tag + depth_label
    has_size = X.shape[0] is not None
    if has_size:
        C.ob(t + "/array", lambda: X.array, lambda: V, "array == view")
    if lite:
        # second-level derived objects in the quick tier: array, inverse, log|det| only
        if isinstance(X, M.InvertibleMatrix) and has_size:
            C.ob(t + "/inverse", lambda: X.inv.array @ V, lambda: eye(n), "X.inv.array @ view == I")
        v = vec("x", m)
        C.ob(t + "/matvec", lambda: X @ v, lambda: V @ v, "X @ vector")
        return
    v, B = vec("x", m), mat("y", m, 2)
    w, Bl = vec("z", n), mat("k", 2, n)
    snaps = [(a, a.copy()) for a in (v, B, w, Bl)]
    C.ob(t + "/matvec", lambda: X @ v, lambda: V @ v, "X @ vector")
    C.ob(t + "/matmat", lambda: X @ B, lambda: V @ B, "X @ matrix")
    C.ob(t + "/rmatvec", lambda: w @ X, lambda: w @ V, "vector @ X")
    C.ob(t + "/rmatmat", lambda: Bl @ X, lambda: Bl @ V, "matrix @ X")
    if has_size:
        C.ob(t + "/transpose", lambda: X.T.array, lambda: V.T, "X.T.array == view^T")
        C.ob(t + "/diagonal", lambda: X.diagonal, lambda: V.diagonal(), "diagonal")
    if isinstance(X, M.InvertibleMatrix) and has_size:
        C.ob(t + "/inverse", lambda: X.inv.array @ V, lambda: eye(n), "X.inv.array @ view == I")
        C.ob(t + "/inverse-matvec", lambda: V @ (X.inv @ w), lambda: w, "view @ (X.inv @ w) == w")
    if isinstance(X, M.PositiveDefiniteMatrix) and has_size:
        C.ob(t + "/sqrt", lambda: (lambda S: (S @ eye(n)) @ (S @ eye(n)).T)(X.sqrt), lambda: V, "sqrt @ sqrt^T == view")
        z = vec("s", n)
        zs = z.copy()
        C.ob(t + "/sqrt-matvec-twice", lambda: X.sqrt @ z, lambda: X.sqrt @ zs.copy(), "sqrt @ v evaluated twice gives the same result")
        C.flag(t + "/sqrt-matvec-leaves-vector-unchanged", all(a is b for a, b in zip(z.flat, zs.flat)), "X.sqrt @ v modified v in place")
    same = all(x is y for a, b in snaps for x, y in zip(a.flat, b.flat))
    C.flag(t + "/operand-arrays-unchanged", same, "an array supplied by the caller to @ was modified in place by the operation",
           "operations never change the content of arrays supplied by the caller")
    if isinstance(X, M.SquareMatrix) and has_size:
        C.ob(t + "/log_abs_det", lambda: SE(sp.exp(2 * to_obj([X.log_abs_det])[0].e)), lambda: dense_det(V) * dense_det(V), "exp(2 log_abs_det) == det(view)^2")


def full_suite(C, M, tag, X, V, depth, lite2=False):
    shallow_suite(C, M, tag, X, V)
    n, m = V.shape
    has_size = X.shape[0] is not None
    p, q = sym("sp", positive=True), sym("sn", negative=True)
    derived = []
    if has_size:
        derived.append((".T", lambda: X.T, V.T))
    if isinstance(X, M.InvertibleMatrix) and has_size:
        derived.append((".inv", lambda: X.inv, None))
    derived.append(("*pos", lambda: p * X, p * V))
    derived.append(("*neg", lambda: X * q, q * V))
    derived.append(("/neg", lambda: X / q, V / q))
    derived.append(("neg", lambda: -X, -1 * V))
    if isinstance(X, (M.DenseDefiniteMatrix, M.TriangularFactoredDefiniteMatrix)) and getattr(X, "_sign", None) == -1:
        # a negative definite matrix (sign = -1 classes): its negative multiples are mathematically positive definite and must stay usable as such
        for lab, mk in (("times-negative", lambda: X * q), ("divided-by-negative", lambda: X / q), ("negated", lambda: -X)):
            try:
                r = mk()
                okpd = isinstance(r, M.PositiveDefiniteMatrix)
                C.flag(tag + f"/negative-definite-{lab}-is-usable-as-positive-definite", okpd, f"{type(r).__name__} is not a PositiveDefiniteMatrix (no sqrt)",
                       "negative scalar * negative definite matrix is positive definite: the result offers the positive definite interface (sqrt)")
            except Exception as e:  # noqa: BLE001
                C.flag(tag + f"/negative-definite-{lab}-is-usable-as-positive-definite", False, f"{type(e).__name__}: {e}")
    if isinstance(X, M.PositiveDefiniteMatrix):
        C.flag(tag + "/scaled-by-positive-stays-positive-definite", isinstance(p * X, M.PositiveDefiniteMatrix),
               f"{type(p * X).__name__} is not a PositiveDefiniteMatrix", "positive scalar * positive definite matrix stays usable as positive definite (has sqrt)")
        if has_size:
            C.flag(tag + "/inverse-stays-positive-definite", isinstance(X.inv, M.PositiveDefiniteMatrix), f"{type(X.inv).__name__}")
    if isinstance(X, M.SymmetricMatrix) and has_size:
        C.ob(tag + "/eigendecomposition", lambda: (lambda Q, w: Q @ (np.diag(w) if np.ndim(w) else w * eye(n)) @ Q.T)(to_obj(X.eigvec @ eye(n)), to_obj(X.eigval)),
             lambda: V, "eigvec diag(eigval) eigvec^T == view")
        C.ob(tag + "/eigvec-orthogonal", lambda: (lambda Q: Q.T @ Q)(to_obj(X.eigvec @ eye(n))), lambda: eye(n), "eigvec^T eigvec == I")
        C.flag(tag + "/transpose-is-self", X.T is X, "symmetric matrix .T is not the object itself")
    if depth <= 0:
        return
    for lab, mk, DV in derived:
        try:
            D = mk()
        except NotImplementedError:
            continue
        except Exception as e:  # noqa: BLE001
            C.obs.append((tag + lab + "/construct", (core.UNKNOWN if symla_is_artefact(e) else core.FAILED), "symla", 0.0, f"{type(e).__name__}: {e}", None, None))
            continue
        if DV is None:
            try:
                DV = dense_inv(to_obj(V))
            except Exception as e:  # noqa: BLE001
                continue
        DV = to_obj(DV)
        if depth >= 2:
            shallow_suite(C, M, tag + lab, D, DV)
            # second level derived objects: shallow checks only
            second = []
            if D.shape[0] is not None:
                second.append((".T", lambda D=D: D.T, DV.T))
                if isinstance(D, M.InvertibleMatrix):
                    second.append((".inv", lambda D=D: D.inv, None))
            second.append(("*neg", lambda D=D: D * q, q * DV))
            for lab2, mk2, DV2 in second:
                try:
                    D2 = mk2()
                    if DV2 is None:
                        DV2 = dense_inv(DV)
                    shallow_suite(C, M, tag + lab + lab2, D2, to_obj(DV2), lite=lite2)
                except NotImplementedError:
                    continue
                except Exception as e:  # noqa: BLE001
                    C.obs.append((tag + lab + lab2 + "/construct", (core.UNKNOWN if symla_is_artefact(e) else core.FAILED), "symla", 0.0, f"{type(e).__name__}: {e}", None, None))
        else:
            shallow_suite(C, M, tag + lab, D, DV)


DEEP = ("LowRank", "DenseSquare", "DenseDefinite", "DensePositiveDefinite", "DenseSymmetric", "TriangularFactored", "InverseLU", "Eigendecomposed", "SoftAbs")


def _work(args):
    fname, idx, tier = args
    M = load()
    C = Collector()
    try:
        with shimmed(M):
            items = factories()[fname](M)
            for k, (label, X, V) in enumerate(items):
                if k != idx:
                    continue
                cname = type(X).__name__
                big = "n=3" in label
                if big and tier != "thorough":
                    continue
                depth = 2 if (tier == "thorough" or any(d in cname for d in DEEP)) and not big else 1
                full_suite(C, M, f"matrices.{cname}[{label}]", X, to_obj(V), depth, lite2=(tier != "thorough"))
    except Exception:  # noqa: BLE001
        C.obs.append((f"matrices.{fname}/factory", core.ERROR, "symla", 0.0, traceback.format_exc()[-1500:], None, None))
    return C.obs


def run_suite(run_, names, tier, procs=16, keep=None):
    ctxm = mp.get_context("fork")
    M = load()
    with shimmed(M):
        tasks = [(n, k, tier) for n in names for k in range(len(factories()[n](M)))]
    with ctxm.Pool(procs) as pool:
        results = pool.map(_work, tasks, chunksize=1)
    for obs in results:
        for oid, st, be, secs, detail, wit, text in obs:
            if keep is not None and not keep(oid):
                continue
            if st == "bounded-ok":
                run_.ob(oid, core.DISCHARGED, be, secs, detail=detail, klass="bounded", text=text)
            else:
                run_.ob(oid, st, be, secs, detail=detail, witness=wit, text=text)


def operand_dtypes(run_):
    """BOUNDED native stand-in (Engines B and D compute over the reals and cannot see dtypes): `M @ x` and `x @ M` for operands of integer, boolean and
    float32 dtype equal the dense float64 product, for one instance per class and its transpose / inverse / square root."""
    import subprocess
    script = os.path.join(core.VERIF, "replays", "c11_dtype.py")
    try:
        p = subprocess.run([core.NATIVE_PY, script, "operands"], capture_output=True, text=True, timeout=300, env=dict(os.environ, PYTHONPATH=core.SRC))
        res = json.loads(p.stdout.strip().splitlines()[-1])
    except Exception as e:  # noqa: BLE001
        run_.ob("matrices/products-independent-of-operand-dtype", core.ERROR, "native-exec", detail=f"{type(e).__name__}: {e}", klass="bounded")
        return
    for name, diffs in res.items():
        run_.ob(f"matrices.{name}/products-independent-of-operand-dtype", core.DISCHARGED if not diffs else core.FAILED, "native-exec", klass="bounded",
                detail="" if not diffs else "; ".join(f"{k}: {v}" for k, v in diffs.items())[:600], witness=diffs or None,
                replay=(lambda w: {"script": "c11_dtype.py", "args": ["operands-check"], "timeout": 300}) if diffs else None,
                text="bounded (one instance per class): products with int64 / bool / float32 operands equal the dense float64 product")
    run_.bounded.append({"id": "C10/matrices.*/products-independent-of-operand-dtype", "detail": "one instance per class and its transpose / inverse / sqrt; int64, bool, float32 operands"})


def sqrt_order_and_conditioning(run_):
    """BOUNDED native stand-in: the contracts are over the reals, where a square root built from a Cholesky factor and one built from an eigendecomposition
    (possibly with floored eigenvalues) cannot be told apart unless an eigenvalue is tiny; the real positive definite classes on well- and ill-conditioned
    instances (condition number 1e10), for 8 orders in which the lazily computed attributes are requested before `sqrt`."""
    import subprocess
    script = os.path.join(core.VERIF, "replays", "c10_sqrt_order.py")
    try:
        p = subprocess.run([core.NATIVE_PY, script, "json"], capture_output=True, text=True, timeout=300, env=dict(os.environ, PYTHONPATH=core.SRC))
        res = json.loads(p.stdout.strip().splitlines()[-1])
    except Exception as e:  # noqa: BLE001
        run_.ob("matrices/sqrt-factor-accurate-in-any-request-order", core.ERROR, "native-exec", detail=f"{type(e).__name__}: {e}", klass="bounded")
        return
    for name, bad in res.items():
        run_.ob(f"matrices.{name}/sqrt-factor-accurate-in-any-request-order", core.DISCHARGED if not bad else core.FAILED, "native-exec", klass="bounded",
                detail="" if not bad else "; ".join(bad)[:600], witness={"failures": bad} if bad else None,
                replay=(lambda w: {"script": "c10_sqrt_order.py", "args": ["check"], "timeout": 300}) if bad else None,
                text="bounded: sqrt @ sqrt.T == matrix to 1e-12 (relative) for 8 request orders of the lazy attributes, condition numbers 10 and 1e10")
    run_.bounded.append({"id": "C10/matrices.*/sqrt-factor-accurate-in-any-request-order", "detail": "7 positive definite instances x 2 condition numbers x 8 request orders"})


def log_space_obligations(run_):
    """`log_abs_det` is documented as the logarithm of |det|: its value must be finite whenever that logarithm is, for every size
    -- so no implementation may form the determinant (or the product of a diagonal) itself, which over/underflows in double
    precision from a few hundred dimensions on.  Static obligation on the real source (Engine C): the set of numpy reductions
    called in any `log_abs_det` body is disjoint from {prod, cumprod, det}."""
    import ast
    src = open(os.path.join(core.SRC, "mici", "matrices.py")).read()
    tree = ast.parse(src)
    banned = {"prod", "cumprod", "det", "product"}
    n = 0
    for cls in [x for x in tree.body if isinstance(x, ast.ClassDef)]:
        for fn in [x for x in cls.body if isinstance(x, ast.FunctionDef) and x.name == "log_abs_det"]:
            called = set()
            for node in ast.walk(fn):
                if isinstance(node, ast.Call):
                    f = node.func
                    called.add(f.attr if isinstance(f, ast.Attribute) else getattr(f, "id", ""))
            bad = sorted(called & banned)
            n += 1
            run_.ob(f"matrices.{cls.name}.log_abs_det/accumulates-in-log-space", core.DISCHARGED if not bad else core.FAILED, "frames",
                    detail="" if not bad else f"{cls.name}.log_abs_det (line {fn.lineno}) calls {bad}: the intermediate product leaves the double range "
                    "(e.g. dimension 400, diagonal entries near 0.05 or 20) although log|det| is an ordinary number",
                    witness=None if not bad else {"class": cls.name, "calls": bad},
                    replay=(lambda w: {"script": "c10_logdet_range.py", "args": [json.dumps(w)], "timeout": 300}) if bad else None,
                    text="log_abs_det sums logarithms; it never forms det or a product of diagonal entries (finite for every size for which log|det| is finite)")
    if n == 0:
        run_.ob("matrices.log_abs_det/accumulates-in-log-space", core.ERROR, "frames", detail="no log_abs_det implementation found")


def run(run_, tier):
    from .. import symla
    run_.assume("A1: reals for floats; A5: LAPACK-level shim table (printed in trusted_base); proofs are for all real parameter values at the listed "
                "shapes (dimensions 1-3, rank-1 updates); dimension-genericity is NOT proved")
    for k, v in symla.SHIM_TABLE.items():
        run_.trust(f"shim {k}: {v}")
    run_.trust("sympy exact arithmetic / simplification; random-point exact evaluation for refutations")
    for f in ("_left_matrix_multiply", "_right_matrix_multiply", "_scalar_multiply", "_construct_inv", "_construct_transpose", "_construct_sqrt", "log_abs_det",
              "diagonal", "eigval/eigvec", "_construct_array"):
        run_.function(f"mici.matrices.<every class>.{f}")
    run_.replay_for("", lambda w: {"script": "c10_matrices.py", "args": [json.dumps(w or {})], "timeout": 900})
    from . import c10_generic
    lean = c10_generic.lean_start()
    names = list(factories())
    run_suite(run_, names, tier)
    run_.notes.append(f"factories: {names}")
    log_space_obligations(run_)
    operand_dtypes(run_)
    sqrt_order_and_conditioning(run_)
    # Engine D: the composite classes (and ring-level leaf classes) for ALL dimensions, operands = contract stubs
    c10_generic.run_generic(run_, tier)
    c10_generic.lean_finish(run_, lean)
