"""C01 -- integration transitions leave the canonical distribution invariant; reported statistics are exact.

Engine A on the real mici.transitions source with the orbit contract of the integrator (index +- 1, from C02), uninterpreted
Hamiltonian H(idx), additive interval functionals for weights / momentum sums / acceptance sums and McIver-Morgan probabilistic
choice for `rng.uniform() < p`:
  Metropolis  : loop invariant over the trajectory loop; accept probability == min(1, exp(h0 - h1)); accept => trajectory end with the
                direction restored, reject / IntegratorError => start with the direction reversed; detailed balance of the involutive
                proposal and the orbit-level sum  sum_s pi(s) K(s,x) == pi(x)  (z3, EXP axioms); n_step / accept_stat exact;
                the random step count is one state-independent draw.
  _build_tree : recursive contract proved by induction on depth (base case executed, inductive case with the recursive calls by
                contract): tree == the 2^depth successor interval with W, S_mom additive, n_step += 2^depth == integrator steps,
                sum_metrop_accept_prob += sum of min(1, exp(h_init - h)), uniform progressive selection P(outer) == W_out / W,
                termination decision evaluated on (tree, lower half, upper half) independently of the build direction.
  sample      : loop invariant over the doubling loop: fair direction bit, new sub-tree grown from the edge, biased progressive
                selection P(new) == min(1, W_new / W_old), merged interval, statistics == ghost counters.
  lemmas (z3) : selection-law preservation for uniform progressive sampling; the biased progressive doubling step.
  bounded     : the composition of these contracts into orbit-level stationarity of the tree transitions is a paper lemma (A7); as a
                bounded stand-in the exact kernels of the real classes are enumerated natively (all random outcomes with exact
                probabilities, slice level integrated exactly) on orbit windows for tree depth <= 3 (multinomial) / 2 (slice).
"""
from __future__ import annotations

import json
import os
import subprocess

from .. import core
from . import trans_model


def bounded_enumeration(run_, tier="quick"):
    script = os.path.join(core.VERIF, "replays", "c01_transitions.py")
    env = dict(os.environ, PYTHONPATH=core.SRC)
    try:
        p = subprocess.run([core.NATIVE_PY, script, "json"] + (["thorough"] if tier == "thorough" else []), capture_output=True, text=True, timeout=7200, env=env)
        res = json.loads(p.stdout.strip().splitlines()[-1])
    except Exception as e:  # noqa: BLE001
        run_.ob("transitions/exact-kernel-enumeration", core.ERROR, "native-exec", detail=f"{type(e).__name__}: {e}; {p.stderr[-500:] if 'p' in dir() else ''}", klass="bounded")
        return
    for name, r in res.items():
        run_.ob(f"transitions.exact-kernel-enumeration[{name}]/orbit-level-invariance-and-statistics", core.DISCHARGED if r["ok"] else core.FAILED, "native-exec", klass="bounded",
                detail=f"max |sum_s pi(s) K(s,x) - pi(x)| = {r['max_err']:.2e}" + ("" if r["ok"] else f"; witness {r['witness']}"), witness={"witness": r["witness"]} if not r["ok"] else None,
                text="bounded: exact enumeration of the real transition kernel over all random outcomes on an orbit window; sum over all start states of pi(s) K(s,x) == pi(x); n_step == integrator steps")


def run(run_, tier):
    run_.assume("A6 orbit contract: on one orbit integrator.step is index -> index + dir, returns a new state object with the same dir, or raises an IntegratorError (C02 proves reversibility / fresh objects)")
    run_.assume("A7 paper lemma: composition of the proved contracts (fair direction bits, direction-independent termination decisions on aligned sub-trees, uniform progressive selection inside "
                "sub-trees, biased progressive selection per doubling) into  sum_s pi(s) K(s,x) == pi(x)  for the tree transitions is not machine-checked for unbounded depth; "
                "its two algebraic steps are (z3) and the whole statement is enumerated exactly for depth <= 3 / 2 (bounded)")
    run_.assume("A10 rng.uniform() ~ U[0,1), rng.integers(lo, hi) uniform on [lo, hi) (numpy contract); uniform draws are used only through `u < p` (probability p) and log(u)")
    run_.assume("A1 reals for floats; LogRepFloat denotes exp(log_val) with real arithmetic (C20 contracts); multinomial invariance is claimed without divergence cuts "
                "(its divergence test reads h_init, the property only extends to the slice-shared threshold); IntegratorErrors are assumed symmetric along an orbit edge for invariance")
    run_.replay_for("", lambda w: {"script": "c01_transitions.py", "args": [], "timeout": 1200})
    it = trans_model.make_interp(run_)
    trans_model.metropolis(run_, it)
    it2 = trans_model.make_interp(run_)
    trans_model.build_tree(run_, it2)
    it3 = trans_model.make_interp(run_)
    trans_model.dynamic_sample(run_, it3)
    it4 = trans_model.make_interp(run_)
    trans_model.termination_and_aux(run_, it4)
    trans_model.criteria_static(run_)
    bounded_enumeration(run_, tier)
