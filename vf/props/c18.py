"""C18 -- memoisation delivers its efficiency contract.

 * wrappers (real mici/states.py, exhaustive abstract-configuration enumeration shared with C09): a valid entry costs zero
   user-function evaluations, a miss exactly one, auxiliary outputs make later requests hits, copy() carries the cache,
   assignment invalidates only dependants, _call_counts equals the ghost cost counter;
 * static (Engine C): no decorated system method declares a dependency it never reads (needless invalidation);
 * integrators (real integrators.py + real System / EuclideanMetricSystem classes from systems.py + real ChainState): one
   leapfrog step from a state whose gradient entry is valid evaluates the gradient exactly once and returns a state whose
   entry is valid (=> n steps cost n, n+1 from a fresh state, by induction); composition schemes cost (#h1 stages - 1).
"""
from __future__ import annotations

import json

import z3

from .. import core
from ..linvec import LinVec, Space
from ..models import Opaque
from ..pyvc import Exec, Interp, Namespace, Native, Obj, PyRaise, exc_name
from . import c09
from .integ_model import install_std, np_namespace

SYS = "mici.systems"


class SysWorld:
    """Real System classes interpreted from source, with counting stub user functions and a stub metric."""

    def __init__(self, it, ctx, returns_value=True):
        self.it, self.ctx = it, ctx
        self.space = Space(ctx)
        ctx.ghost["space"] = self.space
        it.ext_modules.setdefault("numpy", np_namespace(None, None))
        self.calls = {"neg_log_dens": 0, "grad_neg_log_dens": 0}
        w = self
        sp = self.space

        def nld(ex, q):
            w.calls["neg_log_dens"] += 1
            return sp.scalar_fn("nld", q)

        def grad(ex, q):
            w.calls["grad_neg_log_dens"] += 1
            g = sp.apply_fn("grad", q)
            return (g, sp.scalar_fn("nld", q)) if returns_value else g
        Minv = sp.op("Minv", symmetric=True)
        metric = Opaque("metric", inv=Minv, shape=(None, None))
        it.overrides[(SYS, "wrap_function")] = Native(lambda ex, f, backend=None: f, "wrap_function")
        it.overrides[(SYS, "autodiff_fallback")] = Native(lambda ex, f, *a, **k: f, "autodiff_fallback")
        it.overrides[(SYS, "matrices")] = Namespace("matrices", IdentityMatrix=Native(lambda ex, *a: metric, "IdentityMatrix"))
        self.mod = it.module(SYS)
        self.ex = Exec(it, ctx, self.mod, self.mod.env, "harness")
        cls = self.mod.resolve("EuclideanMetricSystem", ctx)
        self.system = self.ex.call(cls, [Native(nld, "neg_log_dens")], {"grad_neg_log_dens": Native(grad, "grad_neg_log_dens")})
        self.cs = it.module("mici.states").resolve("ChainState", ctx)

    def state(self):
        return self.ex.call(self.cs, [], {"pos": self.space.atom("q0"), "mom": self.space.atom("p0"), "dir": 1, "_call_counts": {}})


def integrator_costs(run, it):
    P = "integrators."
    run.function("mici.integrators.LeapfrogIntegrator._step")
    run.function("mici.systems.System.h1_flow")
    run.function("mici.systems.System.grad_neg_log_dens")
    run.function("mici.systems.EuclideanMetricSystem.h2_flow")
    kinds = [("LeapfrogIntegrator", 1), ("BCSSTwoStageIntegrator", 2), ("BCSSThreeStageIntegrator", 3), ("BCSSFourStageIntegrator", 4)]

    def h(ctx):
        name, per_step = kinds[ctx.choose(len(kinds), "integrator")]
        returns_value = bool(ctx.choose(2, "grad-returns-value"))
        warm = bool(ctx.choose(2, "warm-start"))
        w = SysWorld(it, ctx, returns_value)
        imod = it.module("mici.integrators")
        iex = Exec(it, ctx, imod, imod.env, "harness")
        integ = iex.call(imod.resolve(name, ctx), [w.system], {"step_size": z3.Real("eps")})
        ctx.assume(z3.Real("eps") > 0)
        st = w.state()
        if warm:
            w.ex.call(w.ex.getattr(w.system, "grad_neg_log_dens"), [st], {})
        w.calls["grad_neg_log_dens"] = 0
        w.calls["neg_log_dens"] = 0
        tag = P + name
        prev_calls = 0
        for k in range(1, 4):
            st = iex.call(iex.getattr(integ, "step"), [st], {})
            n = w.calls["grad_neg_log_dens"]
            expect = k * per_step + (0 if warm else 1)
            ok = n == expect
            ctx.run.ob(tag + ("/steady-state-cost-per-step" if warm else "/cost-from-fresh-state"), core.DISCHARGED if ok else core.FAILED, "pyvc",
                       detail="" if ok else f"{k} step(s) of {name} from a {'warm' if warm else 'fresh'} state: {n} gradient evaluations, contract {expect}",
                       witness={"integrator": name, "steps": k, "warm": warm, "grad_returns_value": returns_value, "got": n, "want": expect},
                       text=f"{name}: {per_step} gradient evaluation(s) per step once the gradient entry is valid (+1 from a fresh state)")
        # the returned state carries a valid gradient entry: requesting it again (or a copy's) costs nothing
        before = w.calls["grad_neg_log_dens"]
        w.ex.call(w.ex.getattr(w.system, "grad_neg_log_dens"), [st], {})
        c = w.ex.call(w.ex.getattr(st, "copy"), [], {})
        w.ex.call(w.ex.getattr(w.system, "dh1_dpos"), [c], {})
        ok = w.calls["grad_neg_log_dens"] == before
        ctx.run.ob(tag + "/returned-state-has-valid-gradient-entry", core.DISCHARGED if ok else core.FAILED, "pyvc",
                   detail="" if ok else "gradient re-evaluated on the state returned by step() / on its copy")
        if returns_value:
            before = w.calls["neg_log_dens"]
            w.ex.call(w.ex.getattr(w.system, "h"), [st], {})
            ok = w.calls["neg_log_dens"] == before
            ctx.run.ob(tag + "/value-from-gradient-call-is-reused", core.DISCHARGED if ok else core.FAILED, "pyvc",
                       detail="" if ok else "neg_log_dens evaluated although the gradient function already returned the value",
                       text="when the gradient function also returns the value, h() on a visited state costs no density evaluation")
        # momentum refresh does not invalidate position-dependent entries
        w.ex.setattr(st, "mom", w.space.atom("p_new"))
        before = w.calls["grad_neg_log_dens"]
        w.ex.call(w.ex.getattr(w.system, "grad_neg_log_dens"), [st], {})
        ok = w.calls["grad_neg_log_dens"] == before
        ctx.run.ob(tag + "/momentum-refresh-keeps-gradient", core.DISCHARGED if ok else core.FAILED, "pyvc",
                   detail="" if ok else "assigning mom invalidated the gradient entry")
    it.explore(h, "integrator-costs", roots=[[i, j, k] for i in range(len(kinds)) for j in range(2) for k in range(2)])


def cache_encapsulation(run_):
    """The cost contract is a property of the cache protocol in states.py: it holds for the library as a whole only if nothing else reaches
    into a state's memo tables.  Frame obligation (Engine C, on the real source): outside states.py no module reads or writes the private
    members `_cache`, `_dependencies`, `_call_counts`, `_variables`, `_read_only` of any object -- e.g. an adapter or transition that clears
    `state._cache` discards gradients at unchanged positions (extra user-function evaluations)."""
    import ast
    from .. import frames
    private = {"_cache", "_dependencies", "_call_counts", "_variables", "_read_only"}
    hits = []
    for modname in ("adapters", "integrators", "samplers", "solvers", "stagers", "systems", "transitions", "matrices", "utils", "progressbars", "interop"):
        try:
            tree, _ = frames.parse_module(modname)
        except Exception:  # noqa: BLE001
            continue
        for node in ast.walk(tree):
            if isinstance(node, ast.Attribute) and node.attr in private and not (isinstance(node.value, ast.Name) and node.value.id == "self" and modname == "matrices"):
                hits.append(f"{modname}.py:{node.lineno} `{ast.unparse(node)}`")
            if isinstance(node, ast.Call) and isinstance(node.func, ast.Name) and node.func.id in ("getattr", "setattr", "delattr") and len(node.args) >= 2 and \
                    isinstance(node.args[1], ast.Constant) and node.args[1].value in private:
                hits.append(f"{modname}.py:{node.lineno} `{ast.unparse(node)}`")
    run_.ob("library/state-memo-tables-touched-only-by-states.py", core.DISCHARGED if not hits else core.FAILED, "frames",
            detail="" if not hits else "; ".join(hits[:6]) + " -- cached values at unchanged variables are discarded / bypassed outside the cache protocol",
            witness=None if not hits else {"accesses": hits[:6]},
            text="no module other than states.py accesses ChainState._cache / _dependencies / _call_counts / _variables / _read_only")


def run(run_, tier):
    it = Interp(run_)
    install_std(it)
    run_.assume("user functions are pure; small-model argument for the cache protocol as in C09")
    run_.assume("tree transitions step twice from the start state (forward and backward sub-trees): n + 2 from a *fresh* start state, n in steady state "
                "-- stated, not tightened; the per-step contract below is what is proved")
    run_.trust("metric object is a contract stub (inverse as an abstract symmetric operator)")
    run_.replay_for("", lambda w: {"script": "c18_costs.py", "args": [json.dumps(w or {})]})
    c09.protocol(run_, it, "C18")
    c09.aux_chain_universe(run_, it, "C18")
    c09.static_layers(run_, "C18")
    cache_encapsulation(run_)
    it2 = Interp(run_)
    install_std(it2)
    integrator_costs(run_, it2)
    try:
        from . import trans_model
        trans_model.c18_obligations(run_, tier)
    except (ImportError, AttributeError):
        run_.notes.append("transition-level cost contracts: not built in this run")
    run_.extraction_drops.extend(sorted(it.dropped | it2.dropped))
