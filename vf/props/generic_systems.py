"""Engine D on mici/systems.py: the Euclidean-family systems for ALL dimensions.

The real `EuclideanMetricSystem` / `DenseConstrainedEuclideanMetricSystem` methods and the real `ChainState` are executed with
  position / momentum  = vector atoms q, p of symbolic dimension n,
  metric               = a contract stub: an arbitrary positive definite matrix object (atom a, sqrt w with w w^T = a),
                         or the library's own IdentityMatrix / PositiveDiagonalMatrix / DensePositiveDefiniteMatrix on symbolic arrays,
  constraint Jacobian  = an arbitrary k x n atom J (full row rank: the Gram matrix J M^-1 J^T is positive definite -- recorded hypothesis),
  generator            = a stub whose standard_normal(shape) returns a vector atom z,
and the obligations are decided by rewriting in the typed non-commutative algebra (vf/ncalg.py).  They are the dimension-generic
counterparts of the fixed-dimension (n = 2) Engine B obligations of C04 / C05 / C07 / C08:
  C08  sample_momentum == w z with w w^T == metric;   constrained: == P w z,  J M^-1 (P w z) == 0
  C04  project_onto_cotangent_space(p) == p - J^T (J M^-1 J^T)^-1 J M^-1 p:  annihilates J M^-1, idempotent, differs from p by J^T lambda
  C07  h2_flow(t): q' == q + t M^-1 p, p' == p;  flow(s) o flow(t) == flow(s + t);  flow(-t) o flow(t) == id;  h2 conserved;
       dh2_flow_dmom == (t M^-1, I)
  C05  dh2_dmom == M^-1 p == d h2 / d p with h2 == 1/2 p^T M^-1 p (formal derivative of the scalar polynomial);  dh2_dpos == 0
"""
from __future__ import annotations

import importlib
import sys
import time
import traceback

import sympy as sp

from .. import core, ncalg
from ..ncalg import Base, DiagVec, NCArr, Poly, Scal, Undecided
from . import c10_generic

n, k = c10_generic.n, c10_generic.k
DIMS = [{n: 3, k: 1, c10_generic.m: 2}, {n: 4, k: 2, c10_generic.m: 3}]


def load():
    M = c10_generic.load()
    S = importlib.import_module("mici.systems")
    ST = importlib.import_module("mici.states")
    return M, S, ST


def grad_wrt(p, vec_base):
    """formal gradient of a 1 x 1 polynomial with respect to the vector atom `vec_base` (column n x 1):
    d/dv of  c * (v^T A ... )  and  c * ( ... A v)  -- every occurrence contributes the rest of the monomial as a column"""
    out = Poly.zero(vec_base.rows, ncalg.ONE)
    for m, c in p.terms.items():
        for i, o in enumerate(m):
            if o[0] is not vec_base:
                continue
            if i == len(m) - 1 and not o[1]:  # ... A v : derivative is (prefix)^T
                pre = m[:i]
                term = Poly({tuple(ncalg.occ_T(x) for x in reversed(pre)): c}, vec_base.rows, ncalg.ONE)
            elif i == 0 and o[1]:  # v^T A ... : derivative is the suffix
                term = Poly({m[1:]: c}, vec_base.rows, ncalg.ONE)
            else:
                raise Undecided("vector atom in the interior of a scalar monomial")
            out = out + term
    return out


class Rng:
    def __init__(self, z):
        self.z, self.calls = z, []

    def standard_normal(self, size=None):
        self.calls.append(size)
        return self.z

    def normal(self, loc=0.0, scale=1.0, size=None):
        self.calls.append(size)
        return self.z


def metrics(M, F):
    """label -> thunk() -> (metric argument, M polynomial)"""
    return {
        "any positive definite matrix object (contract stub)": lambda: (lambda A: (A, A._view))(F.posdef("a", "n")),
        "default (identity of implicit size)": lambda: (None, Poly.identity(n)),
        "IdentityMatrix(n)": lambda: (M.IdentityMatrix(n), Poly.identity(n)),
        "positive scaled identity": lambda: (lambda s_: (M.PositiveScaledIdentityMatrix(s_, n), Poly.identity(n).scale(s_.e)))(F.scalar("s", "pos")),
        "1-D array of positive diagonal entries": lambda: (lambda d: (d, d.mat()))(F.diagvec("d", "n", positive=True)),
        "2-D positive definite array": lambda: (lambda a: (a, a.p))(F.array("a", "n", "n", sym=True, pd=True)),
        "positive definite low-rank update of a diagonal": lambda: (lambda f, d: (M.PositiveDefiniteLowRankUpdateMatrix(M.DenseRectangularMatrix(f), M.PositiveDiagonalMatrix(d)),
                                                                                   d.mat() + f.p * f.p.T()))(F.array("f", "n", "k"), F.diagvec("d", "n", positive=True)),
    }


def _work(arg):
    label, constrained, reassigned = arg
    out = []
    shown = label + ("; metric attribute reassigned after construction" if reassigned else "")

    def ob(oid, st, secs=0.0):
        status, backend, detail, wit = st
        out.append((f"generic-systems/{'DenseConstrained' if constrained else 'Euclidean'}[{shown}]/{oid}",
                    {"discharged": core.DISCHARGED, "failed": core.FAILED, "unknown": core.UNKNOWN}[status], backend, secs, detail,
                    None if (wit is None and status != "failed") else dict(wit or {}, metric=label, constrained=constrained, reassigned=reassigned, obligation=oid)))

    def attempt(oid, fn):
        t0 = time.time()
        try:
            st = fn()
        except Undecided as e:
            st = ("unknown", "nc-rewrite", f"outside the modelled fragment: {e}", None)
        except Exception as e:  # noqa: BLE001
            tb = traceback.format_exc().strip().splitlines()
            if __import__("os").environ.get("VF_DEBUG"):
                print("\n".join(tb))
            where = next((l.strip() for l in reversed(tb) if "mici/" in l), tb[-1])
            if isinstance(e, (TypeError, AttributeError)) and any(t in str(e) for t in c10_generic.STANDINS + ("Rng",)):
                st = ("unknown", "nc-rewrite", f"outside the modelled fragment: {type(e).__name__}: {e} at {where}", None)
            else:
                st = ("failed", "nc-exception", f"{type(e).__name__}: {e} escapes at {where}", None)
        ob(oid, st, time.time() - t0)

    def eq(oid, got_fn, want_fn):
        box = {}

        def run_code():  # exceptions raised here escape the real code (or its stand-ins): classified by attempt()
            box["got"], box["want"] = got_fn(), want_fn()
            return ("discharged", "nc-trace", "", None)
        t0 = time.time()
        n0 = len(out)
        attempt(oid, run_code)
        if out[-1][1] != core.DISCHARGED:
            return
        del out[n0:]
        try:  # exceptions raised here are the checker's own: undecided, never a violation
            got, want = box["got"], box["want"]
            got = got.p if isinstance(got, NCArr) else got
            want = want.p if isinstance(want, NCArr) else want
            if not isinstance(got, Poly):
                raise Undecided(f"result of type {type(got).__name__}")
            st = ncalg.decide_equal(got, want, DIMS)
        except Undecided as e:
            st = ("unknown", "nc-rewrite", f"outside the modelled fragment: {e}", None)
        except Exception as e:  # noqa: BLE001
            st = ("unknown", "nc-checker-error", f"{type(e).__name__}: {e}", None)
        ob(oid, st, time.time() - t0)

    M, S, ST = load()
    with ncalg.shimmed(M), ncalg.shimmed(S):
        ncalg.reset()
        F = c10_generic.SymbolicFactory(M)
        try:
            marg, Mp = metrics(M, F)[label]()
            marg0 = marg
            if reassigned:
                # the system is constructed with ANOTHER positive definite metric first; the metric adapters (and users) then assign system.metric,
                # and every method must follow the metric attribute as it is when the method is called
                marg0 = F.posdef("a0", "n")
            qb, pb, zb, gb = Base("q", n, ncalg.ONE), Base("p", n, ncalg.ONE), Base("z", n, ncalg.ONE), Base("g", n, ncalg.ONE)
            q, p, z = (NCArr(Poly.atom(b), 1) for b in (qb, pb, zb))
            g = NCArr(Poly.atom(gb), 1)
            Jb, cb = Base("J", k, n), Base("c", k, ncalg.ONE)
            J = NCArr(Poly.atom(Jb), 2)

            def nld(x):
                raise Undecided("neg_log_dens value is not needed by these obligations")
            if constrained:
                system = S.DenseConstrainedEuclideanMetricSystem(nld, lambda x: NCArr(Poly.atom(cb), 1), metric=marg0, grad_neg_log_dens=lambda x: g,
                                                                 jacob_constr=lambda x: J, mhp_constr=lambda x: None)
            else:
                system = S.EuclideanMetricSystem(nld, metric=marg0, grad_neg_log_dens=lambda x: g)
            if reassigned:
                system.metric = marg
            t, s_ = Scal(sp.Symbol("t", positive=True)), Scal(-sp.Symbol("s", positive=True))  # a forward and a backward time

            def state():
                return ST.ChainState(pos=q, mom=p, dir=1)
            # the specification's inverses are formed after the code has made its own factorisations (lazy Cholesky / eigen factors), so that both
            # are expressed over the same defined atoms
            try:
                system.dh2_dmom(state())
                system.metric.sqrt
                if constrained:
                    system.inv_gram(state()) @ NCArr(Poly.identity(k), 2)
            except Undecided:
                raise
            except Exception:  # noqa: BLE001  (reported by the obligations below)
                pass
            if isinstance(system.metric, M.IdentityMatrix):
                Minv = Poly.identity(n)
            else:
                # the specification's M^-1 is the view of the metric object's own inverse, once  M * view(metric.inv) == 1  is proved
                cand = ncalg.nf(c10_generic.view(system.metric.inv, M))
                st_inv = ncalg.decide_equal(Mp * cand, Poly.identity(n), DIMS)
                ob("metric-inverse-is-the-inverse", st_inv)
                Minv = cand if st_inv[0] == "discharged" else ncalg.inverse(Mp)
            # ---- C05: value and derivatives of the kinetic term
            eq("dh2_dmom-is-inverse-metric-times-momentum", lambda: system.dh2_dmom(state()), lambda: Minv * p.p)
            eq("h2-is-half-quadratic-form", lambda: system.h2(state()), lambda: (p.p.T() * Minv * p.p).scale(sp.Rational(1, 2)))
            eq("dh2_dmom-is-gradient-of-h2", lambda: system.dh2_dmom(state()), lambda: grad_wrt(ncalg.nf(system.h2(state()).p), pb))
            eq("dh2_dpos-is-zero", lambda: system.dh2_dpos(state()), lambda: Poly.zero(n, ncalg.ONE))
            # ---- C07: the drift is the exact flow of h2
            def flow(st_, dt):
                system.h2_flow(st_, dt)
                return st_
            eq("h2_flow-position", lambda: flow(state(), t).pos, lambda: q.p + (Minv * p.p).scale(t.e))
            eq("h2_flow-momentum-unchanged", lambda: flow(state(), t).mom, lambda: p.p)
            eq("h2_flow-group-law", lambda: flow(flow(state(), t), s_).pos, lambda: flow(state(), t + s_).pos.p)
            eq("h2_flow-inverse", lambda: flow(flow(state(), t), -t).pos, lambda: q.p)
            eq("h2-conserved-along-h2_flow", lambda: system.h2(flow(state(), t)), lambda: system.h2(state()).p)
            if constrained:
                X = NCArr(Poly.atom(Base("X", n, c10_generic.m)), 2)

                def blocks():
                    a_, b_ = system.dh2_flow_dmom(state(), t)
                    return a_, b_
                eq("dh2_flow_dmom-position-block", lambda: blocks()[0] @ X, lambda: (Minv * X.p).scale(t.e))
                eq("dh2_flow_dmom-momentum-block", lambda: blocks()[1] @ X, lambda: X.p)
            # ---- C08: momentum draws
            rng = Rng(z)
            sq = ncalg.nf(c10_generic.view(system.metric.sqrt, M)) if not isinstance(system.metric, M.IdentityMatrix) else Poly.identity(n)

            def factor_ok():
                return ncalg.decide_equal(sq * sq.T(), Mp, DIMS)
            attempt("metric-sqrt-times-transpose-is-the-metric", factor_ok)
            if not constrained:
                eq("sample_momentum-is-sqrt-times-standard-normal-draw", lambda: system.sample_momentum(state(), rng), lambda: sq * z.p)
            else:
                G = J.p * Minv * J.p.T()
                Ginv = ncalg.inverse(G, "Gram matrix J M^-1 J^T is non-singular (constraint Jacobian has full row rank)")
                Pp = Poly.identity(n) - J.p.T() * Ginv * J.p * Minv
                v = NCArr(Poly.atom(Base("v", n, ncalg.ONE)), 1)

                def proj(x):
                    return system.project_onto_cotangent_space(x, state())
                # ---- C04: closed-form cotangent projection
                eq("projection-formula", lambda: proj(v), lambda: Pp * v.p)
                eq("projection-annihilates-J-Minv", lambda: NCArr(J.p * Minv, 2) @ proj(v), lambda: Poly.zero(k, ncalg.ONE))
                eq("projection-idempotent", lambda: proj(proj(v)), lambda: proj(v).p)
                eq("projection-moves-along-range-of-J-transpose", lambda: proj(v), lambda: v.p - J.p.T() * (Ginv * J.p * Minv * v.p))
                eq("gram-is-J-Minv-J-transpose", lambda: system.gram(state()).array, lambda: G)
                eq("inv_gram-is-its-inverse", lambda: NCArr(G, 2) @ (system.inv_gram(state()) @ NCArr(Poly.identity(k), 2)), lambda: Poly.identity(k))
                # ---- C08 (constrained): projected draw
                eq("sample_momentum-is-projected-sqrt-times-draw", lambda: system.sample_momentum(state(), rng), lambda: Pp * sq * z.p)
                eq("sampled-momentum-in-cotangent-space", lambda: NCArr(J.p * Minv, 2) @ system.sample_momentum(state(), rng), lambda: Poly.zero(k, ncalg.ONE))
            ok_draw = bool(rng.calls) and all(c == (n,) for c in rng.calls)
            ob("sample_momentum-draws-a-vector-of-the-position-shape", ("discharged" if ok_draw else "failed", "nc-trace", "" if ok_draw else f"draw sizes {rng.calls}", None))
        except Undecided as e:
            ob("constructs", ("unknown", "nc-trace", f"outside the modelled fragment: {e}", None))
        except Exception as e:  # noqa: BLE001
            tb = traceback.format_exc().strip().splitlines()
            where = next((l.strip() for l in reversed(tb) if "mici/" in l), tb[-1])
            ob("constructs", ("failed", "nc-exception", f"{type(e).__name__}: {e} escapes at {where}", None))
        hyps = list(ncalg.CTX.hyps)
    return out, hyps


def run_generic_systems(run, keep=None, procs=16):
    """adds the dimension-generic system obligations selected by keep(oid)"""
    import multiprocessing as mp
    import json as _json
    run.replay_for("generic-systems/", lambda w: {"script": "generic_systems.py", "args": [_json.dumps(w or {})], "timeout": 300})
    M, S, ST = load()
    with ncalg.shimmed(M):
        ncalg.reset()
        labels = list(metrics(M, c10_generic.SymbolicFactory(M)))
    tasks = [(lab, con, False) for lab in labels for con in (False, True) if not (con and lab.startswith("default"))]
    # the metric attribute is public and assigned by the metric adapters at the end of warm-up: same obligations on a system whose metric was assigned
    # after construction (for the variants whose constructor argument already is a matrix object)
    tasks += [(lab, con, True) for lab in labels for con in (False, True) if "contract stub" in lab or "positive scaled" in lab or "low-rank" in lab]
    with mp.get_context("fork").Pool(min(procs, len(tasks))) as pool:
        results = pool.map(_work, tasks, chunksize=1)
    nobs = 0
    for obs, hyps in results:
        for oid, status, backend, secs, detail, wit in obs:
            if keep is not None and not keep(oid):
                continue
            nobs += 1
            run.ob(oid, status, backend, secs, detail=detail, witness=wit,
                   text=f"for all dimensions n (and k constraints), all metric objects satisfying the positive definite matrix contract: {oid.split('/', 1)[1]}")
    run.function("mici.systems.EuclideanMetricSystem / DenseConstrainedEuclideanMetricSystem: h2, dh2_dmom, dh2_dpos, h2_flow, dh2_flow_dmom, sample_momentum, "
                 "project_onto_cotangent_space, gram, inv_gram (generic dimension, Engine D)")
    run.notes.append(f"Engine D on systems: {len(tasks)} system x metric configurations, {nobs} obligations kept")
    return nobs
