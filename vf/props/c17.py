"""C17 -- adapters compute the estimators they document, for any history.

Engine A on mici/adapters.py (real arithmetic, A1):
  DualAveragingStepSizeAdapter.update / finalize / initialize, the three reducers
  DualAveragingStepSizeAdapter._find_and_set_init_step_size (loop invariant: returns only on a log-2 crossing)
  OnlineVarianceMetricAdapter.update (Welford invariant) / finalize (Chan merge, loop invariant over any number
     of chains, regularisation, metric = inverse, momenta refreshed after the metric is installed)
  OnlineCovarianceMetricAdapter.update / finalize (2-component arrays: every (i,j) index pattern)
"""
from __future__ import annotations

import json

import z3

from .. import core, mathlib
from ..mathlib import POW, SQRT, exp_term
from ..models import Opaque
from ..pyvc import (Exec, Interp, LoopSpec, Namespace, Native, Obj, OutsideSubset, PathEnd, PyRaise, exc_name, is_z3, lift,
                    to_real)
from .integ_model import install_std

MOD = "mici.adapters"
P = "adapters."


def _replay(kind):
    return lambda w: {"script": "c17_adapters.py", "args": [kind, json.dumps(w or {})]}


class Cell:
    """Mutable numpy-like scalar array standing for one generic component of an array:
    in-place operators mutate the cell (aliasing is modelled)."""

    def __init__(self, v):
        self.v = to_real(v)

    def _pv_binop(self, ex, op, other):
        o = other.v if isinstance(other, Cell) else other
        if isinstance(o, (CVec, CMat)):
            return NotImplemented
        a = self.v
        o = to_real(o)
        if op in ("__add__", "__radd__"):
            return Cell(a + o)
        if op == "__sub__":
            return Cell(a - o)
        if op == "__rsub__":
            return Cell(o - a)
        if op in ("__mul__", "__rmul__"):
            return Cell(a * o)
        if op == "__truediv__":
            ex.div_guard(o)
            return Cell(a / o)
        if op == "__rtruediv__":
            ex.div_guard(a)
            return Cell(o / a)
        if op == "__pow__" and not is_z3(other) and other == 2:
            return Cell(a * a)
        return NotImplemented

    def _pv_inplace(self, ex, name, val):
        r = self._pv_binop(ex, {"__iadd__": "__add__", "__isub__": "__sub__", "__imul__": "__mul__", "__itruediv__": "__truediv__"}[name], val)
        if r is NotImplemented:
            raise OutsideSubset(f"Cell {name} {val!r}")
        self.v = r.v
        return self

    def _pv_copy(self, ex):
        return Cell(self.v)


class CVec:
    """Two-component vector (components a, b stand for generic indices i != j)."""

    def __init__(self, a, b, marker=None):
        self.c = [to_real(a), to_real(b)]
        self.marker = marker  # None | 'row' ([None, :]) | 'col' ([:, None])

    def _pv_getitem(self, ex, key):
        if key == (None, slice(None)):
            return CVec(self.c[0], self.c[1], "row")
        if key == (slice(None), None):
            return CVec(self.c[0], self.c[1], "col")
        raise OutsideSubset(f"CVec index {key}")

    def _pv_binop(self, ex, op, other):
        if isinstance(other, CVec):
            if self.marker and other.marker and self.marker != other.marker and op in ("__mul__", "__rmul__"):
                row = self if self.marker == "row" else other
                col = other if self.marker == "row" else self
                return CMat([[col.c[i] * row.c[j] for j in range(2)] for i in range(2)])
            f = {"__add__": lambda x, y: x + y, "__sub__": lambda x, y: x - y, "__mul__": lambda x, y: x * y}.get(op)
            if f is None or self.marker != other.marker:
                return NotImplemented
            return CVec(f(self.c[0], other.c[0]), f(self.c[1], other.c[1]), self.marker)
        if isinstance(other, (CMat, Cell)):
            return NotImplemented
        o = to_real(other)
        if op in ("__mul__", "__rmul__"):
            return CVec(self.c[0] * o, self.c[1] * o, self.marker)
        if op == "__truediv__":
            ex.div_guard(o)
            return CVec(self.c[0] / o, self.c[1] / o, self.marker)
        return NotImplemented

    def _pv_inplace(self, ex, name, val):
        r = self._pv_binop(ex, {"__iadd__": "__add__", "__isub__": "__sub__", "__imul__": "__mul__", "__itruediv__": "__truediv__"}[name], val)
        if r is NotImplemented:
            raise OutsideSubset(f"CVec {name} {val!r}")
        self.c = r.c
        return self

    def _pv_copy(self, ex):
        return CVec(self.c[0], self.c[1])


class CMat:
    def __init__(self, rows):
        self.m = [[to_real(x) for x in r] for r in rows]

    def _pv_binop(self, ex, op, other):
        if isinstance(other, CMat):
            f = {"__add__": lambda x, y: x + y, "__sub__": lambda x, y: x - y}.get(op)
            if f is None:
                return NotImplemented
            return CMat([[f(self.m[i][j], other.m[i][j]) for j in range(2)] for i in range(2)])
        if isinstance(other, (CVec, Cell)):
            return NotImplemented
        o = to_real(other)
        if op in ("__mul__", "__rmul__"):
            return CMat([[x * o for x in r] for r in self.m])
        if op == "__truediv__":
            ex.div_guard(o)
            return CMat([[x / o for x in r] for r in self.m])
        return NotImplemented

    def _pv_inplace(self, ex, name, val):
        r = self._pv_binop(ex, {"__iadd__": "__add__", "__isub__": "__sub__", "__imul__": "__mul__", "__itruediv__": "__truediv__"}[name], val)
        if r is NotImplemented:
            raise OutsideSubset(f"CMat {name} {val!r}")
        self.m = r.m
        return self


class DiagView:
    """np.einsum('ii->i', M): a writable *view* of the diagonal."""

    def __init__(self, mat):
        self.mat = mat

    def _pv_inplace(self, ex, name, val):
        if name != "__iadd__":
            raise OutsideSubset("diag view op")
        v = to_real(val)
        for i in range(2):
            self.mat.m[i][i] = self.mat.m[i][i] + v
        return self


def make_interp(run):
    it = Interp(run, timeout_ms=30000)
    install_std(it)

    def outer(ex, a, b):
        return CMat([[a.c[i] * b.c[j] for j in range(2)] for i in range(2)])

    def einsum(ex, spec, m):
        if spec != "ii->i" or not isinstance(m, CMat):
            raise OutsideSubset("einsum")
        return DiagView(m)
    it.ext_modules["numpy"] = Namespace("np", isnan=Native(mathlib.np_isnan, "np.isnan"), outer=Native(outer, "np.outer"),
                                        einsum=Native(einsum, "np.einsum"), nan=float("nan"))
    mats = []

    def mk_matrix(kind):
        def ctor(ex, arr):
            o = Opaque(kind, array=arr)
            o._attrs["inv"] = Opaque(kind + ".inv", of=o)
            # members of the matrix contract (C10) an adapter might use besides assigning the metric
            o._attrs["inv"]._attrs["sqrt"] = Opaque(kind + ".inv.sqrt", __matmul__=Native(lambda ex_, v: Opaque("sqrt(metric) @ draw", draw=v), "sqrt.__matmul__"))
            mats.append(o)
            return o
        return Native(ctor, kind)
    it.overrides[(MOD, "PositiveDiagonalMatrix")] = mk_matrix("PositiveDiagonalMatrix")
    it.overrides[(MOD, "DensePositiveDefiniteMatrix")] = mk_matrix("DensePositiveDefiniteMatrix")
    return it


def _rng_stub(c):
    """contract of numpy.random.Generator as far as a momentum refresh could use it directly"""
    return Opaque(f"rng{c}", standard_normal=Native(lambda ex_, size=None: Opaque(f"standard-normal-draw<rng{c}>", size=size), "rng.standard_normal"),
                  normal=Native(lambda ex_, *a, **k: Opaque(f"normal-draw<rng{c}>"), "rng.normal"))


def new_adapter(it, ctx, cls_name, **attrs):
    mod = it.module(MOD)
    cls = mod.resolve(cls_name, ctx)
    return Obj(cls, dict(attrs)), Exec(it, ctx, mod, mod.env, "harness")


# ---------------------------------------------------------------------------------------
# dual averaging


def dual_averaging(run, it, only_search=False):
    cls = "DualAveragingStepSizeAdapter"
    for m in ("update", "finalize", "initialize", "_find_and_set_init_step_size"):
        run.function(f"mici.adapters.{cls}.{m}")
    run.replay_for(P + cls, _replay("dual"))

    def settings(ctx):
        delta, gamma, kappa = z3.Real("adapt_stat_target"), z3.Real("reg_coefficient"), z3.Real("iter_decay_coeff")
        t0 = z3.Int("iter_offset")
        ctx.assume(gamma > 0)
        ctx.assume(t0 >= 0)
        return delta, gamma, kappa, t0

    def h_update(ctx):
        delta, gamma, kappa, t0 = settings(ctx)
        stat_fn = it.module(MOD).resolve("default_adapt_stat_func", ctx)
        ad, ex = new_adapter(it, ctx, cls, adapt_stat_target=delta, log_step_size_reg_coefficient=gamma, iter_decay_coeff=kappa,
                             iter_offset=t0, adapt_stat_func=stat_fn)
        m0 = z3.Int("iter")
        ctx.assume(m0 >= 0)
        hbar, sm, mu, alpha = z3.Real("adapt_stat_error"), z3.Real("smoothed_log_step_size"), z3.Real("reg_target"), z3.Real("accept_stat")
        state = {"iter": m0, "smoothed_log_step_size": sm, "adapt_stat_error": hbar, "log_step_size_reg_target": mu}
        integ = Opaque("integrator", step_size=z3.Real("old_step_size"))
        trans = Opaque("transition", integrator=integ)
        tag = P + cls + ".update"
        try:
            ex.call(ex.getattr(ad, "update"), [state, Opaque("chain_state"), {"accept_stat": alpha, "n_step": 3}, trans], {})
        except PyRaise as pr:
            ctx.run.ob(tag + "/no-exception", core.FAILED, "pyvc", detail=f"{exc_name(pr.exc)} {pr.exc.attrs.get('args')}")
            return
        m = m0 + 1
        mr = z3.ToReal(m)
        ctx.prove(tag + "/iteration-counter", lift(state["iter"]) == m)
        hbar1 = (1 - 1 / (mr + z3.ToReal(t0))) * hbar + (delta - alpha) / (mr + z3.ToReal(t0))
        ctx.prove(tag + "/error-average-recursion", to_real(state["adapt_stat_error"]) == hbar1,
                  text="Hbar_m = (1 - 1/(m+t0)) Hbar_{m-1} + (delta - alpha_m)/(m+t0)")
        log_eps = mu - hbar1 * SQRT(mr) / gamma
        w = POW(1 / mr, kappa)
        ctx.prove(tag + "/smoothed-iterate-recursion", to_real(state["smoothed_log_step_size"]) == w * log_eps + (1 - w) * sm,
                  text="log eps_bar_m = m^-kappa log eps_m + (1 - m^-kappa) log eps_bar_{m-1}, log eps_m = mu - sqrt(m)/gamma Hbar_m")
        ss = integ._attrs["step_size"]
        ctx.prove(tag + "/step-size-is-exp-of-current-iterate", to_real(ss) == exp_term(ctx, log_eps), text="step_size = exp(log eps_m)")
        ctx.prove(tag + "/step-size-positive", to_real(ss) > 0)
        ctx.prove(tag + "/regularisation-target-unchanged", to_real(state["log_step_size_reg_target"]) == mu)
    if not only_search:
        it.explore(h_update, "dual.update")

    def h_finalize(ctx):
        which = ctx.choose(5, "case")  # 0 single dict, 1..3 chains with each built-in reducer, 4 chains with ANY user-supplied reducer (contract stub)
        mod = it.module(MOD)
        integ = Opaque("integrator", step_size=z3.Real("old_step_size"))
        trans = Opaque("transition", integrator=integ)
        tag = P + cls + ".finalize"
        if which == 4:
            # "combined across chains by the chosen reducer": for any reducer, also one that is not the identity on a single value (a cap, a safety factor),
            # and for a LIST of one adapter state (what the samplers pass for a single chain)
            nchain = ctx.choose(3, "nchain") + 1
            calls, reduced = [], z3.Real("reduced_by_the_chosen_reducer")
            ctx.assume(reduced > 0)

            def reducer(ex_, vals):
                calls.append(list(ex_.iterate_concrete(vals)))
                return reduced
            ad, ex = new_adapter(it, ctx, cls, log_step_size_reducer=Native(reducer, "user_reducer"))
            sms = [z3.Real(f"smoothed{c}") for c in range(nchain)]
            sts = [{"iter": z3.Int(f"iter{c}"), "smoothed_log_step_size": sms[c], "adapt_stat_error": z3.Real(f"e{c}"),
                    "log_step_size_reg_target": z3.Real(f"mu{c}")} for c in range(nchain)]
            try:
                ex.call(ex.getattr(ad, "finalize"), [sts, [Opaque("cs")] * nchain, trans, [Opaque("rng")] * nchain], {})
            except PyRaise as pr:
                ctx.run.ob(tag + "/list-of-chains-is-combined-by-the-chosen-reducer", core.FAILED, "pyvc", detail=f"{exc_name(pr.exc)}")
                return
            got = integ._attrs["step_size"]
            ok = len(calls) == 1 and len(calls[0]) == nchain and all(is_z3(a) and a.eq(b) for a, b in zip(calls[0], sms)) and is_z3(got) and got.eq(reduced)
            ctx.run.ob(tag + "/list-of-chains-is-combined-by-the-chosen-reducer", core.DISCHARGED if ok else core.FAILED, "pyvc",
                       detail="" if ok else f"{nchain} chain(s): reducer called {len(calls)} time(s) with {calls[:1]}; step_size set to {got}",
                       witness={"n_chain": nchain},
                       text="finalize(list of n >= 1 adapter states): step_size = reducer([smoothed_0, ..., smoothed_{n-1}]), the reducer called once with every chain's smoothed iterate in order")
            return
        if which == 0:
            ad, ex = new_adapter(it, ctx, cls, log_step_size_reducer=mod.resolve("arithmetic_mean_log_step_size_reducer", ctx))
            sm = z3.Real("smoothed")
            st = {"iter": z3.Int("iter"), "smoothed_log_step_size": sm, "adapt_stat_error": z3.Real("e"), "log_step_size_reg_target": z3.Real("mu")}
            ex.call(ex.getattr(ad, "finalize"), [st, Opaque("chain_state"), trans, Opaque("rng")], {})
            ctx.prove(tag + "/single-chain-uses-smoothed-iterate", to_real(integ._attrs["step_size"]) == exp_term(ctx, sm),
                      text="finalize (one chain): step_size = exp(smoothed log step size)")
            return
        nchain = ctx.choose(3, "nchain") + 1
        red_name = ["arithmetic_mean_log_step_size_reducer", "geometric_mean_log_step_size_reducer", "min_log_step_size_reducer"][which - 1]
        ad, ex = new_adapter(it, ctx, cls, log_step_size_reducer=mod.resolve(red_name, ctx))
        sms = [z3.Real(f"smoothed{c}") for c in range(nchain)]
        sts = [{"iter": z3.Int(f"iter{c}"), "smoothed_log_step_size": sms[c], "adapt_stat_error": z3.Real(f"e{c}"),
                "log_step_size_reg_target": z3.Real(f"mu{c}")} for c in range(nchain)]
        try:
            ex.call(ex.getattr(ad, "finalize"), [sts, [Opaque("cs")] * nchain, trans, [Opaque("rng")] * nchain], {})
        except PyRaise as pr:
            ctx.run.ob(tag + f"/{red_name}", core.FAILED, "pyvc", detail=f"{exc_name(pr.exc)}")
            return
        got = to_real(integ._attrs["step_size"])
        es = [exp_term(ctx, s) for s in sms]
        if which == 1:
            ctx.prove(tag + "/arithmetic-mean-reducer", got * nchain == sum(es[1:], es[0]), text="arithmetic mean of exp(smoothed_c)")
        elif which == 2:
            ctx.prove(tag + "/geometric-mean-reducer", got == exp_term(ctx, sum(sms[1:], sms[0]) / nchain), text="exp(mean of smoothed_c)")
        else:
            ctx.prove(tag + "/min-reducer", z3.And(z3.Or(*[got == e for e in es]), *[got <= e for e in es]), text="min_c exp(smoothed_c)")
    if not only_search:
        it.explore(h_finalize, "dual.finalize", roots=[[0], [1], [2], [3], [4]])

    def h_initialize(ctx):
        has_target = ctx.choose(2, "target")
        target = z3.Real("user_reg_target") if has_target else None
        ad, ex = new_adapter(it, ctx, cls, log_step_size_reg_target=target)
        init = z3.Real("init_step_size")
        ctx.assume(init > 0)
        it.call_contracts[cls + "._find_and_set_init_step_size"] = Native(lambda ex_, self_, st, sy, ig: init, "find-init")
        try:
            trans = Opaque("transition", integrator=Opaque("integrator", step_size=None), system=Opaque("system"))
            st = ex.call(ex.getattr(ad, "initialize"), [Opaque("chain_state"), trans], {})
        finally:
            del it.call_contracts[cls + "._find_and_set_init_step_size"]
        tag = P + cls + ".initialize"
        ok = st["iter"] == 0 and st["smoothed_log_step_size"] == 0 and st["adapt_stat_error"] == 0
        ctx.run.ob(tag + "/zero-initial-state", core.DISCHARGED if ok else core.FAILED, "pyvc", detail="" if ok else str(st))
        if has_target:
            ctx.prove(tag + "/user-regularisation-target-respected", to_real(st["log_step_size_reg_target"]) == target,
                      text="an explicitly given log_step_size_reg_target (any real, including 0) is used as given")
        else:
            ctx.prove(tag + "/default-regularisation-target", exp_term(ctx, st["log_step_size_reg_target"]) == 10 * init,
                      text="default target = log(10 * init_step_size)")
    if not only_search:
        it.explore(h_initialize, "dual.initialize")

    # --- initial step size search: returns only on a log-2 crossing --------------------------
    q = cls + "._find_and_set_init_step_size"
    BIG = z3.Function("BIG", z3.RealSort(), z3.BoolSort())  # probe at this step size is 'too big' (error, NaN or |dh| > log 2)

    def h_search(ctx):
        ad, ex = new_adapter(it, ctx, cls, max_init_step_size_iters=z3.Int("max_iters"))
        ctx.assume(z3.Int("max_iters") >= 0)
        prev = [None, z3.Real("previous_step_size")][ctx.choose(2, "integrator-has-a-previous-step-size")]
        integ = Opaque("integrator", step_size=prev)
        thr_holder = {}
        first_probe = []
        h_init_nan = ctx.choose(2, "h_init_nan")
        h_init = float("nan") if h_init_nan else z3.Real("h_init")
        probes = []

        def step(ex_, st):
            S = to_real(integ._attrs["step_size"])
            if not first_probe and ex_.ctx.ghost.get("loop_index", 0) is not None:
                first_probe.append((S, ex_.ctx.ghost.get("loop_index", 0)))
            if ex_.ctx.choose(2, "step-outcome") == 1:
                ex_.ctx.assume(BIG(S))
                ie = ex_.interp.module("mici.errors").resolve("ConvergenceError", ex_.ctx)
                raise PyRaise(ex_.call(ie, ["x"], {}))
            return Opaque("stepped", at=S)
        integ._attrs["step"] = Native(step, "integrator.step")

        def sys_h(ex_, st):
            if isinstance(st, Opaque) and st._name == "stepped":
                S = st._attrs["at"]
                if ex_.ctx.choose(2, "h-outcome") == 1:
                    ex_.ctx.assume(BIG(S))
                    return float("nan")
                hv = ex_.ctx.fresh("h_new", "real")
                d = z3.If(h_init - hv >= 0, h_init - hv, hv - h_init)
                ex_.ctx.assume(BIG(S) == (d > mathlib.log_term(ex_.ctx, 2)))
                probes.append((S, hv))
                return hv
            return h_init
        system = Opaque("system", h=Native(sys_h, "system.h"))
        state = Opaque("state", copy=Native(lambda ex_: Opaque("init_copy"), "copy"))

        def havoc(ex_):
            c = ex_.ctx
            c.ghost["loop_index"] = c.fresh("s", "int")
            if c.choose(2, "first-iteration") == 0:
                c.assume(c.ghost["loop_index"] == 0)  # iteration 0 runs from the exact entry state
                return
            c.assume(c.ghost["loop_index"] >= 1)
            S = c.fresh("S", "real")
            integ._attrs["step_size"] = S
            ex_.env.set("step_size_too_big", c.fresh("too_big", "bool"))

        def inv(ex_):
            s = lift(ex_.ctx.ghost.get("loop_index", 0))
            S = to_real(integ._attrs["step_size"])
            try:
                tb = ex_.env.lookup("step_size_too_big")
                tb = lift(tb)
                rel = z3.Implies(s >= 1, z3.And(z3.Implies(tb, BIG(2 * S)), z3.Implies(z3.Not(tb), z3.Not(BIG(S / 2)))))
            except KeyError:
                rel = s == 0
            return z3.And(s >= 0, S > 0, rel)
        it.loop_specs[(q, 0)] = LoopSpec(inv, havoc)
        tag = P + q

        def check_first(ctx_):
            # the search is a function of the chain's own inputs: its first probe is at step size 1 whatever value an earlier chain
            # / an earlier stage left in the (shared) integrator
            if first_probe:
                S0, idx = first_probe[0]
                if not is_z3(idx) or ctx_._check(lift(idx) != 0) == z3.unsat:
                    ctx_.prove(tag + "/search-starts-from-step-size-one", S0 == 1,
                               text="the initial step-size search starts from 1 independently of the integrator's previous step size (shared between chains)")
        try:
            try:
                res = ex.call(ex.getattr(ad, "_find_and_set_init_step_size"), [state, system, integ], {})
            except PathEnd:
                check_first(ctx)
                raise
            except PyRaise as pr:
                ok = pr.exc.cls.name == "AdaptationError"
                ctx.run.ob(tag + "/only-adaptation-error-escapes", core.DISCHARGED if ok else core.FAILED, "pyvc",
                           detail="" if ok else f"{exc_name(pr.exc)} {pr.exc.attrs.get('args')} escaped the search")
                return
        finally:
            del it.loop_specs[(q, 0)]
        check_first(ctx)
        if h_init_nan:
            ctx.run.ob(tag + "/nan-initial-energy-raises", core.FAILED, "pyvc", detail="search returned although the initial Hamiltonian is NaN")
            return
        S = to_real(res)
        tb = lift(ex_env_lookup(ctx, "tb"))
        ctx.prove(tag + "/returns-current-step-size", S == to_real(integ._attrs["step_size"]))
        ctx.prove(tag + "/returns-only-on-a-log2-crossing",
                  z3.Or(z3.And(z3.Not(BIG(S)), BIG(2 * S)), z3.And(BIG(S), z3.Not(BIG(S / 2)))),
                  text="normal return => the probe at the returned step size is on the other side of log 2 than the probe at the neighbouring (doubled/halved) step size")
        ctx.prove(tag + "/returned-step-size-positive", S > 0)

    def ex_env_lookup(ctx, key):
        return ctx.ghost.get(key, z3.BoolVal(True))
    it.explore(h_search, "dual.search", roots=[[a, b] for a in range(2) for b in range(2)])


# ---------------------------------------------------------------------------------------
# variance adapter


def _trans_stats(ctx):
    """statistics of the transition that produced the position: the documented estimator is over ALL positions seen, whatever the transition
    reported (rejections, divergences and integrator errors leave the chain at a position that still counts)"""
    k = ctx.choose(3, "trans_stats")
    if k == 0:
        return None
    if k == 1:
        return {"accept_stat": 0.5, "n_step": 3}
    return {"accept_stat": 0.0, "n_step": 1, "diverging": True, "convergence_error": True, "non_reversible_step": True}


def variance(run, it):
    cls = "OnlineVarianceMetricAdapter"
    for m in ("update", "finalize", "_regularize_var_est"):
        run.function(f"mici.adapters.{cls}.{m}")
    run.replay_for(P + cls, _replay("variance"))

    def h_update(ctx):
        ad, ex = new_adapter(it, ctx, cls)
        n = z3.Int("iter")
        ctx.assume(n >= 0)
        mean, m2, x = z3.Real("mean"), z3.Real("sum_diff_sq"), z3.Real("pos")
        st = {"iter": n, "mean": Cell(mean), "sum_diff_sq": Cell(m2)}
        pos = Cell(x)
        cs = Opaque("chain_state", pos=pos)
        ex.call(ex.getattr(ad, "update"), [st, cs, _trans_stats(ctx), Opaque("transition")], {})
        tag = P + cls + ".update"
        n1 = z3.ToReal(n + 1)
        nr = z3.ToReal(n)
        mean1, m21 = st["mean"].v, st["sum_diff_sq"].v
        ctx.prove(tag + "/count", lift(st["iter"]) == n + 1)
        ctx.prove(tag + "/welford-mean", n1 * mean1 == nr * mean + x, text="n' mean' == n mean + x  (running mean of all positions)")
        ctx.prove(tag + "/welford-sum-of-squares", m21 + n1 * mean1 * mean1 == m2 + nr * mean * mean + x * x,
                  text="M2' + n' mean'^2 == M2 + n mean^2 + x^2  (M2 = sum of squared deviations)")
        ctx.prove(tag + "/position-not-modified", pos.v == x)
    it.explore(h_update, "var.update")

    # finalize: merge loop over any number of chains (invariant), then regularise / invert / refresh momenta
    q = cls + ".finalize"
    class ChainList:
        """adapt_states of unknown length K >= 1; element i is a dict of fresh sufficient statistics (n_i >= 1, mean_i, M2_i).
        Ghost sums over the chains consumed so far live in ctx.ghost['G'] = (count, sum, sum of squares)."""

        def __init__(self, K):
            self.K = K

        def _pv_enumerate(self, ex_, start=0):
            if start != 0:
                raise OutsideSubset("enumerate(adapt_states, start != 0)")
            outer = self

            class EnumView:
                def _pv_generic(self, ex2):
                    return outer._pv_generic(ex2, pairs=True)
            return EnumView()

        def _pv_generic(self, ex_, pairs=False):
            idx = ex_.ctx.ghost["loop_index"]

            def cond():
                return ex_.ctx.branch(z3.And(idx >= 0, idx < self.K))

            def bind():
                c = ex_.ctx
                nc, mc, vc = c.fresh("chain_n", "real"), c.fresh("chain_mean", "real"), c.fresh("chain_m2", "real")
                c.assume(nc >= 1)  # precondition: every chain made at least one update in the stage
                g = c.ghost["G"]
                c.ghost["G"] = (g[0] + nc, g[1] + nc * mc, g[2] + vc + nc * mc * mc)
                elem = {"iter": nc, "mean": Cell(mc), "sum_diff_sq": Cell(vc)}
                return (idx, elem) if pairs else elem
            return cond, bind

    def h_finalize(ctx):
        single = ctx.choose(2, "single")
        reg_on = ctx.choose(2, "regularise")
        r_off = z3.Int("reg_iter_offset")
        r_scale = z3.Real("reg_scale")
        if reg_on:
            ctx.assume(r_off >= 1)
        ad, ex = new_adapter(it, ctx, cls, reg_iter_offset=(r_off if reg_on else 0), reg_scale=r_scale)
        sampled = []
        system = Opaque("system", metric="old-metric")

        def sample_momentum(ex_, cs, rng):
            sampled.append((cs, rng, system._attrs["metric"]))
            return Opaque("fresh-momentum", for_state=cs, rng=rng, metric=system._attrs["metric"])
        system._attrs["sample_momentum"] = Native(sample_momentum, "system.sample_momentum")
        trans = Opaque("transition", system=system)
        tag = P + q
        K = z3.Int("n_chains")
        if single:
            n = z3.Int("iter")
            ctx.assume(n >= 0)
            m2 = z3.Real("sum_diff_sq")
            states = {"iter": n, "mean": Cell(z3.Real("mean")), "sum_diff_sq": Cell(m2)}
            chain_states, rngs = Opaque("chain_state0", mom="old", pos=Opaque("pos0", shape=("n",))), _rng_stub(0)
            total_n, S1sq_over_n_plus = n, None
        else:
            ctx.assume(K >= 1)
            ctx.ghost["G"] = (z3.RealVal(0), z3.RealVal(0), z3.RealVal(0))
            states = ChainList(K)
            chain_states = [Opaque(f"chain_state{c}", mom="old", pos=Opaque(f"pos{c}", shape=("n",))) for c in range(2)]
            rngs = [_rng_stub(c) for c in range(2)]

            def havoc(ex_):
                c = ex_.ctx
                i = c.fresh("i", "int")
                c.ghost["loop_index"] = i
                c.assume(i >= 0)
                # for i >= 1 the pooled statistics are bound; for i == 0 they are not yet
                if c.choose(2, "i>=1") == 1:
                    c.assume(i >= 1)
                    c.ghost["G"] = (c.fresh("ghost_n", "real"), c.fresh("ghost_s1", "real"), c.fresh("ghost_s2", "real"))
                    ex_.env.set("n_iter", c.fresh("n_pool", "real"))
                    ex_.env.set("mean_est", Cell(c.fresh("mean_pool", "real")))
                    ex_.env.set("var_est", Cell(c.fresh("m2_pool", "real")))
                else:
                    c.assume(i == 0)

            def inv(ex_):
                i = lift(ex_.ctx.ghost.get("loop_index", 0))
                try:
                    n_ = lift(ex_.env.lookup("n_iter"))
                    me = ex_.env.lookup("mean_est").v
                    ve = ex_.env.lookup("var_est").v
                except KeyError:
                    return i == 0
                g = ex_.ctx.ghost["G"]
                return z3.And(i >= 1, i <= K, n_ >= 1, n_ == g[0], n_ * me == g[1], ve + n_ * me * me == g[2])
            it.loop_specs[(q, 0)] = LoopSpec(inv, havoc)
        try:
            try:
                ex.call(ex.getattr(ad, "finalize"), [states, chain_states, trans, rngs], {})
            except PyRaise as pr:
                ok = pr.exc.cls.name == "AdaptationError"
                ctx.run.ob(tag + "/only-adaptation-error", core.DISCHARGED if ok else core.FAILED, "pyvc",
                           detail="" if ok else f"{exc_name(pr.exc)} {pr.exc.attrs.get('args')}")
                if ok:
                    tot = n if single else ctx.ghost["G"][0]
                    ctx.prove(tag + "/adaptation-error-only-below-two-samples", tot < 2, text="AdaptationError iff fewer than two pooled samples")
                return
        finally:
            it.loop_specs.pop((q, 0), None)
        metric = system._attrs["metric"]
        ok = isinstance(metric, Opaque) and metric._name == "PositiveDiagonalMatrix.inv"
        ctx.run.ob(tag + "/metric-is-inverse-of-diagonal-variance", core.DISCHARGED if ok else core.FAILED, "pyvc",
                   detail="" if ok else f"metric set to {metric}", text="system.metric = PositiveDiagonalMatrix(var_est).inv")
        if not ok:
            return
        var = metric._attrs["of"]._attrs["array"].v
        if single:
            N, S2c = z3.ToReal(n), m2  # M2 is already the centred sum
            raw = S2c / (N - 1)
            ctx.prove(tag + "/needs-two-samples", n >= 2)
        else:
            g = ctx.ghost["G"]
            N = g[0]
            raw = (g[2] - g[1] * g[1] / N) / (N - 1)
            ctx.prove(tag + "/needs-two-samples", N >= 2)
        if reg_on:
            ro = z3.ToReal(r_off)
            want = N / (ro + N) * raw + r_scale * (ro / (ro + N))
        else:
            want = raw
        ctx.prove(tag + "/pooled-regularised-variance", var == want,
                  text="var_est == n/(n+r) * (pooled unbiased sample variance of all positions) + reg_scale * r/(n+r); "
                       "pooled over chains via ghost sums => independent of the split and order of chains")
        exp_states = [chain_states] if single else chain_states
        exp_rngs = [rngs] if single else rngs
        good = [s for s, _, _ in sampled] == exp_states and [r for _, r, _ in sampled] == exp_rngs and all(m is metric for _, _, m in sampled)
        ctx.run.ob(tag + "/momenta-refreshed-under-new-metric", core.DISCHARGED if good else core.FAILED, "pyvc",
                   detail="" if good else f"sample_momentum calls {sampled}", text="every chain state's momentum is redrawn, with its own rng, after the new metric is installed")
        moms_ok = all(isinstance(s._attrs["mom"], Opaque) and s._attrs["mom"]._attrs.get("for_state") is s for s in exp_states)
        ctx.run.ob(tag + "/momenta-assigned", core.DISCHARGED if moms_ok else core.FAILED, "pyvc", detail="" if moms_ok else "chain_state.mom not replaced")
    it.explore(h_finalize, "var.finalize", roots=[[a, b] for a in range(2) for b in range(2)])


# ---------------------------------------------------------------------------------------
# covariance adapter (2 generic components)


def covariance(run, it, tier):
    cls = "OnlineCovarianceMetricAdapter"
    for m in ("update", "finalize", "_regularize_covar_est"):
        run.function(f"mici.adapters.{cls}.{m}")
    run.replay_for(P + cls, _replay("covariance"))

    def h_update(ctx):
        ad, ex = new_adapter(it, ctx, cls)
        n = z3.Int("iter")
        ctx.assume(n >= 0)
        mean = [z3.Real("mean_i"), z3.Real("mean_j")]
        x = [z3.Real("pos_i"), z3.Real("pos_j")]
        C = [[z3.Real(f"C_{a}{b}") for b in "ij"] for a in "ij"]
        st = {"iter": n, "mean": CVec(*mean), "sum_diff_outer": CMat(C)}
        cs = Opaque("chain_state", pos=CVec(*x))
        ex.call(ex.getattr(ad, "update"), [st, cs, _trans_stats(ctx), Opaque("transition")], {})
        tag = P + cls + ".update"
        n1, nr = z3.ToReal(n + 1), z3.ToReal(n)
        m1 = st["mean"].c
        C1 = st["sum_diff_outer"].m
        ctx.prove(tag + "/welford-mean", z3.And(*[n1 * m1[a] == nr * mean[a] + x[a] for a in range(2)]))
        ctx.prove(tag + "/welford-cross-products",
                  z3.And(*[C1[a][b] + n1 * m1[a] * m1[b] == C[a][b] + nr * mean[a] * mean[b] + x[a] * x[b] for a in range(2) for b in range(2)]),
                  text="C'_ab + n' mean'_a mean'_b == C_ab + n mean_a mean_b + x_a x_b for every index pair (a,b)")
    it.explore(h_update, "cov.update")

    qf = cls + ".finalize"

    class CovChainList:
        """adapt_states of unknown length K >= 1; element i is a dict of fresh sufficient statistics (n_i >= 1, mean_i (2 generic components), C_i (2x2)).
        Ghost sums over the chains consumed so far live in ctx.ghost['GC'] = (count, [sum_a], [[sum of x_a x_b]])."""

        def __init__(self, K):
            self.K = K

        def _pv_enumerate(self, ex_, start=0):
            if start != 0:
                raise OutsideSubset("enumerate(adapt_states, start != 0)")
            outer = self

            class EnumView:
                def _pv_generic(self, ex2):
                    return outer._pv_generic(ex2, pairs=True)
            return EnumView()

        def _pv_generic(self, ex_, pairs=False):
            idx = ex_.ctx.ghost["loop_index"]

            def cond():
                return ex_.ctx.branch(z3.And(idx >= 0, idx < self.K))

            def bind():
                c = ex_.ctx
                nc = c.fresh("chain_n", "real")
                mc = [c.fresh("chain_mean_i", "real"), c.fresh("chain_mean_j", "real")]
                Cc = [[c.fresh(f"chain_C_{a}{b}", "real") for b in "ij"] for a in "ij"]
                c.assume(nc >= 1)  # precondition: every chain made at least one update in the stage
                n0, s1, s2 = c.ghost["GC"]
                c.ghost["GC"] = (n0 + nc, [s1[a] + nc * mc[a] for a in range(2)],
                                 [[s2[a][b] + Cc[a][b] + nc * mc[a] * mc[b] for b in range(2)] for a in range(2)])
                elem = {"iter": nc, "mean": CVec(*mc), "sum_diff_outer": CMat(Cc)}
                return (idx, elem) if pairs else elem
            return cond, bind

    def h_finalize(ctx):
        k = ctx.choose(5, "chains")  # 0: single dict; 1..3 chains (explicit); 4: ANY number of chains K >= 1, merge loop cut by an invariant over ghost sums
        if k == 4:
            return h_finalize_any(ctx)
        return h_finalize_fixed(ctx, k)

    def h_finalize_any(ctx):
        r_off, r_scale = z3.Int("reg_iter_offset"), z3.Real("reg_scale")
        ctx.assume(r_off >= 0)
        ad, ex = new_adapter(it, ctx, cls, reg_iter_offset=r_off, reg_scale=r_scale)
        sampled = []
        system = Opaque("system", metric="old-metric")

        def sample_momentum(ex_, cs, rng):
            sampled.append((cs, rng, system._attrs["metric"]))
            return Opaque("fresh-momentum", for_state=cs)
        system._attrs["sample_momentum"] = Native(sample_momentum, "system.sample_momentum")
        trans = Opaque("transition", system=system)
        tag = P + cls + ".finalize"
        K = z3.Int("n_chains")
        ctx.assume(K >= 1)
        zero = z3.RealVal(0)
        ctx.ghost["GC"] = (zero, [zero, zero], [[zero, zero], [zero, zero]])
        states = CovChainList(K)
        css = [Opaque(f"cs{c}", mom="old", pos=Opaque(f"pos{c}", shape=("n",))) for c in range(2)]
        rngs = [_rng_stub(c) for c in range(2)]

        def havoc(ex_):
            c = ex_.ctx
            i = c.fresh("i", "int")
            c.ghost["loop_index"] = i
            c.assume(i >= 0)
            if c.choose(2, "i>=1") == 1:
                c.assume(i >= 1)
                # an arbitrary state satisfying the invariant, parametrised by the pooled statistics themselves (the ghost sums are DEFINED from them), so
                # that preservation is a rational identity in (pooled, next chain) statistics
                npool = c.fresh("n_pool", "real")
                mp = [c.fresh("mean_pool_i", "real"), c.fresh("mean_pool_j", "real")]
                Cp = [[c.fresh(f"C_pool_{a}{b}", "real") for b in "ij"] for a in "ij"]
                c.assume(npool >= 1)
                c.ghost["GC"] = (npool, [npool * mp[a] for a in range(2)], [[Cp[a][b] + npool * mp[a] * mp[b] for b in range(2)] for a in range(2)])
                ex_.env.set("n_iter", npool)
                ex_.env.set("mean_est", CVec(*mp))
                ex_.env.set("covar_est", CMat(Cp))
            else:
                c.assume(i == 0)

        def inv(ex_):
            i = lift(ex_.ctx.ghost.get("loop_index", 0))
            try:
                n_ = lift(ex_.env.lookup("n_iter"))
                me = ex_.env.lookup("mean_est").c
                ce = ex_.env.lookup("covar_est").m
            except KeyError:
                return i == 0
            n0, s1, s2 = ex_.ctx.ghost["GC"]
            return z3.And(i >= 1, i <= K, n_ >= 1, n_ == n0, *[n_ * me[a] == s1[a] for a in range(2)],
                          *[ce[a][b] + n_ * me[a] * me[b] == s2[a][b] for a in range(2) for b in range(2)])
        it.loop_specs[(qf, 0)] = LoopSpec(inv, havoc)
        try:
            try:
                ex.call(ex.getattr(ad, "finalize"), [states, css, trans, rngs], {})
            except PyRaise as pr:
                ok = pr.exc.cls.name == "AdaptationError"
                ctx.run.ob(tag + "/only-adaptation-error", core.DISCHARGED if ok else core.FAILED, "pyvc", detail="" if ok else exc_name(pr.exc))
                if ok:
                    ctx.prove(tag + "/adaptation-error-only-below-two-samples", ctx.ghost["GC"][0] < 2)
                return
        finally:
            it.loop_specs.pop((qf, 0), None)
        metric = system._attrs["metric"]
        ok = isinstance(metric, Opaque) and metric._name == "DensePositiveDefiniteMatrix.inv"
        ctx.run.ob(tag + "/metric-is-inverse-of-covariance", core.DISCHARGED if ok else core.FAILED, "pyvc", detail="" if ok else str(metric))
        if not ok:
            return
        cov = metric._attrs["of"]._attrs["array"].m
        N, S1, S2 = ctx.ghost["GC"]
        ro = z3.ToReal(r_off)
        ctx.prove(tag + "/needs-two-samples", N >= 2)
        conds = []
        for a in range(2):
            for b in range(2):
                raw = (S2[a][b] - S1[a] * S1[b] / N) / (N - 1)
                want = N / (ro + N) * raw + (r_scale * (ro / (ro + N)) if a == b else 0)
                conds.append(cov[a][b] * (ro + N) * (N - 1) * N == want * (ro + N) * (N - 1) * N)
        ctx.prove(tag + "/pooled-regularised-covariance[any number of chains]", z3.And(*conds), prefer="algebra",
                  text="for ANY number of chains (merge loop cut by the invariant n == sum n_c, n mean_a == sum of positions_a, C_ab + n mean_a mean_b == sum of x_a x_b over "
                       "the chains consumed): covar_est == n/(n+r) * pooled unbiased sample covariance + reg_scale*r/(n+r) on the diagonal => independent of split and order")
        good = [s_ for s_, _, _ in sampled] == css and [r for _, r, _ in sampled] == rngs and all(m is metric for _, _, m in sampled)
        ctx.run.ob(tag + "/momenta-refreshed-under-new-metric", core.DISCHARGED if good else core.FAILED, "pyvc", detail="" if good else str(sampled))

    def h_finalize_fixed(ctx, k):
        r_off, r_scale = z3.Int("reg_iter_offset"), z3.Real("reg_scale")
        ctx.assume(r_off >= 0)
        ad, ex = new_adapter(it, ctx, cls, reg_iter_offset=r_off, reg_scale=r_scale)
        sampled = []
        system = Opaque("system", metric="old-metric")

        def sample_momentum(ex_, cs, rng):
            sampled.append((cs, rng, system._attrs["metric"]))
            return Opaque("fresh-momentum", for_state=cs)
        system._attrs["sample_momentum"] = Native(sample_momentum, "system.sample_momentum")
        trans = Opaque("transition", system=system)
        nch = max(k, 1)
        ns = [z3.Int(f"n{c}") for c in range(nch)]
        means = [[z3.Real(f"mean{c}_{a}") for a in "ij"] for c in range(nch)]
        Cs = [[[z3.Real(f"C{c}_{a}{b}") for b in "ij"] for a in "ij"] for c in range(nch)]
        for n_ in ns:
            ctx.assume(n_ >= 1)
        sts = [{"iter": ns[c], "mean": CVec(*means[c]), "sum_diff_outer": CMat(Cs[c])} for c in range(nch)]
        css = [Opaque(f"cs{c}", mom="old", pos=Opaque(f"pos{c}", shape=("n",))) for c in range(nch)]
        rngs = [_rng_stub(c) for c in range(nch)]
        tag = P + cls + ".finalize"
        try:
            if k == 0:
                ex.call(ex.getattr(ad, "finalize"), [sts[0], css[0], trans, rngs[0]], {})
            else:
                ex.call(ex.getattr(ad, "finalize"), [sts, css, trans, rngs], {})
        except PyRaise as pr:
            ok = pr.exc.cls.name == "AdaptationError"
            ctx.run.ob(tag + "/only-adaptation-error", core.DISCHARGED if ok else core.FAILED, "pyvc", detail="" if ok else exc_name(pr.exc))
            if ok:
                ctx.prove(tag + "/adaptation-error-only-below-two-samples", sum(ns[1:], ns[0]) < 2)
            return
        metric = system._attrs["metric"]
        ok = isinstance(metric, Opaque) and metric._name == "DensePositiveDefiniteMatrix.inv"
        ctx.run.ob(tag + "/metric-is-inverse-of-covariance", core.DISCHARGED if ok else core.FAILED, "pyvc", detail="" if ok else str(metric))
        if not ok:
            return
        cov = metric._attrs["of"]._attrs["array"].m
        N = z3.ToReal(sum(ns[1:], ns[0]))
        ro = z3.ToReal(r_off)
        conds = []
        for a in range(2):
            for b in range(2):
                S1a = sum((z3.ToReal(ns[c]) * means[c][a] for c in range(1, nch)), z3.ToReal(ns[0]) * means[0][a])
                S1b = sum((z3.ToReal(ns[c]) * means[c][b] for c in range(1, nch)), z3.ToReal(ns[0]) * means[0][b])
                S2 = sum((Cs[c][a][b] + z3.ToReal(ns[c]) * means[c][a] * means[c][b] for c in range(1, nch)),
                         Cs[0][a][b] + z3.ToReal(ns[0]) * means[0][a] * means[0][b])
                raw = (S2 - S1a * S1b / N) / (N - 1)
                want = N / (ro + N) * raw + (r_scale * (ro / (ro + N)) if a == b else 0)
                conds.append(cov[a][b] * (ro + N) * (N - 1) * N == want * (ro + N) * (N - 1) * N)
        ctx.prove(tag + f"/pooled-regularised-covariance[{'single' if k == 0 else str(k) + '-chains'}]", z3.And(*conds), prefer="algebra",
                  text="covar_est == n/(n+r) * pooled unbiased sample covariance of all positions + reg_scale*r/(n+r) on the diagonal")
        good = [s for s, _, _ in sampled] == css and [r for _, r, _ in sampled] == rngs and all(m is metric for _, _, m in sampled)
        ctx.run.ob(tag + "/momenta-refreshed-under-new-metric", core.DISCHARGED if good else core.FAILED, "pyvc", detail="" if good else str(sampled))
    it.explore(h_finalize, "cov.finalize", roots=[[0], [1], [2], [3], [4]])


def large_offsets(run_):
    """BOUNDED native stand-in for the clause `positions with large offsets relative to their spread`: the contracts above are over the reals,
    where a centred (Welford / Chan) update and an uncentred second-moment formula are the same function; in double precision only the former
    keeps its digits.  The real adapters are run on 24 positions at offset 1e8 with unit spread, over 9 partitions x 3 regularisation settings,
    and compared with an extended-precision reference (relative 1e-5)."""
    import os
    import subprocess
    script = os.path.join(core.VERIF, "replays", "c17_adapters.py")
    try:
        p = subprocess.run([core.NATIVE_PY, script, "offsets"], capture_output=True, text=True, timeout=600, env=dict(os.environ, PYTHONPATH=core.SRC))
        out = p.stdout.strip()
        ok = p.returncode == 0 and "not reproduced" in out
        st = core.DISCHARGED if ok else (core.FAILED if "REPRODUCED" in out else core.ERROR)
        detail = "" if ok else (out or p.stderr)[-600:]
    except Exception as e:  # noqa: BLE001
        st, detail = core.ERROR, f"{type(e).__name__}: {e}"
    run_.ob("adapters.metric-adapters/pooled-estimate-accurate-at-large-offsets", st, "native-exec", klass="bounded", detail=detail,
            witness=None if st == core.DISCHARGED else {"offset": 1e8},
            replay=(lambda w: {"script": "c17_adapters.py", "args": ["offsets"], "timeout": 600}) if st == core.FAILED else None,
            text="bounded: variance / covariance adapters at offset 1e8, unit spread, 9 partitions x 3 settings, agree with an extended-precision reference")
    run_.bounded.append({"id": "C17/adapters.metric-adapters/pooled-estimate-accurate-at-large-offsets", "detail": "24 positions, offset 1e8, 9 partitions, 3 regularisation settings"})


def run(run_, tier):
    it = make_interp(run_)
    run_.assume("A1: real arithmetic (numerical stability for large offsets is NOT decided); m^-kappa is written (1/m)^kappa as in the code (POW uninterpreted)")
    run_.assume("arrays are lifted component-wise (one generic component for the variance adapter, two for the covariance adapter)")
    run_.trust("matrix constructors PositiveDiagonalMatrix/DensePositiveDefiniteMatrix and .inv are contract stubs (C10); sample_momentum stub (C08)")
    run_.replay_for("", _replay("all"))
    dual_averaging(run_, it)
    variance(run_, it)
    covariance(run_, it, tier)
    large_offsets(run_)
    # "for any history": an adapter object is shared by every chain and every stage of its process, the history lives in the adapt_state dictionaries.  Frame
    # (Engine C, static): no adapter method other than __init__ writes to self -- otherwise a later chain / stage starts from what an earlier one left behind
    from . import c14
    from .trans_model import FilterRun
    c14.shared_objects_frame(FilterRun(run_, lambda oid: "adapters." in oid))
    run_.extraction_drops.extend(sorted(it.dropped))
    run_.notes.append(f"paths explored: {it.paths}; solver seconds {it.solver_seconds:.2f}")
