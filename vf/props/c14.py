"""C14 -- sampling is reproducible and independent of process scheduling.

What contracts decide here (generator state abstracted to a ghost position counter):
  _get_per_chain_rngs                : chain c's stream is a function of (base state, c) only; streams pairwise distinct
  sample_chains stage loop           : the same per-chain generator objects are handed to every stage (sequential threading)
  _sample_chain                      : transitions receive the chain's own generator and nothing else
  _sample_chains_parallel + worker   : (under A14: queue items are delivered once, as pickled copies; results come back through
                                       AsyncResult.get) every chain is sampled exactly once with its own arguments, outputs are
                                       returned in chain order for every assignment of chains to workers / completion order,
                                       and the generator state advanced in the worker flows back to the parent (threading invariant)
The inference "per-chain frame disjointness + A14 => schedule independence" is trusted, not mechanised.
"""
from __future__ import annotations

import copy
import os
import itertools
import json

import z3

from .. import core
from ..models import Opaque
from ..pyvc import Exec, Namespace, Native, Obj, OutsideSubset, PyRaise, TypeTag, exc_name, make_exc
from . import samplers_model, samplers_stage
from .samplers_model import MOD

P = "samplers."


class GhostRng:
    """numpy Generator abstracted to (stream id, position); deep-copyable (pickling)."""

    class BG:
        """bit generator whose .state has the layout of numpy's: the position in the stream under "state", and the buffered half-word
        (has_uint32 / uinteger for PCG64, buffer / buffer_pos for Philox) next to it -- all of it changes as numbers are drawn"""

        def __init__(self, stream, pos):
            self.state = GhostRng.state_at(stream, pos)

    def __init__(self, stream, pos=0):
        self.bit_generator = GhostRng.BG(stream, pos)
        self.bit_generator._pv_setattr = lambda ex, name, v, _bg=self.bit_generator: setattr(_bg, name, v)

    @staticmethod
    def state_at(stream, pos):
        return {"bit_generator": "GhostBitGenerator", "state": (stream, pos), "has_uint32": pos % 2, "uinteger": f"buffered-half-word<{stream},{pos}>"}

    @property
    def position(self):
        return self.bit_generator.state["state"][1]

    def draw(self, n=1):
        s, p = self.bit_generator.state["state"]
        self.bit_generator.state = GhostRng.state_at(s, p + n)

    def _pv_getattr(self, ex, name):
        if name == "bit_generator":
            return self.bit_generator
        raise PyRaise(make_exc(ex.interp, "AttributeError", name))


def per_chain_rngs(run, it):
    run.function("mici.samplers._get_per_chain_rngs")
    tag = P + "_get_per_chain_rngs"

    def h(ctx):
        kind = ctx.choose(4, "generator-kind")  # jumped-capable, seed-sequence only, unsupported, both (every modern numpy bit generator)
        n = ctx.choose(4, "n_chain") + 1
        mod = it.module(MOD)
        ex = Exec(it, ctx, mod, mod.env, "harness")
        made = []

        def default_rng(ex_, src):
            made.append(src)
            return Opaque("rng", source=src)
        it.overrides[(MOD, "default_rng")] = Native(default_rng, "default_rng")
        if kind == 0:
            bg = Opaque("bitgen", jumped=Native(lambda ex_, i: ("base-state", "jumped", i), "jumped"))
            base = Opaque("base_rng", bit_generator=bg)
        elif kind == 1:
            ss = Opaque("seedseq", spawn=Native(lambda ex_, k: [("base-state", "spawn", j) for j in range(k)], "spawn"))
            base = Opaque("base_rng", _bit_generator=Opaque("bitgen", _seed_seq=ss))
        elif kind == 3:
            # numpy bit generators have BOTH: `jumped` is a function of the generator's state; `_seed_seq` is not part of the state -- a generator obtained by
            # jumping or by restoring a saved state carries a SeedSequence drawn from fresh OS entropy.  Reproducibility = streams derived from the state.
            ss = Opaque("seedseq", spawn=Native(lambda ex_, k: [("os-entropy-not-part-of-the-state", "spawn", j) for j in range(k)], "spawn"))
            bg = Opaque("bitgen", jumped=Native(lambda ex_, i: ("base-state", "jumped", i), "jumped"), _seed_seq=ss)
            base = Opaque("base_rng", bit_generator=bg)
        else:
            base = Opaque("base_rng")
        try:
            res = ex.call(mod.resolve("_get_per_chain_rngs", ctx), [base, n], {})
        except PyRaise as pr:
            ok = kind == 2 and pr.exc.cls.name == "ValueError"
            ctx.run.ob(tag + "/unsupported-generator-is-rejected", core.DISCHARGED if ok else core.FAILED, "pyvc", detail="" if ok else f"{exc_name(pr.exc)} for kind {kind}")
            return
        if kind == 2:
            ctx.run.ob(tag + "/unsupported-generator-is-rejected", core.FAILED, "pyvc", detail="no error for a generator without jumped / seed sequence")
            return
        srcs = [r._attrs["source"] for r in res]
        ok = len(res) == n and len(set(srcs)) == n
        ctx.run.ob(tag + "/streams-pairwise-distinct", core.DISCHARGED if ok else core.FAILED, "pyvc", detail="" if ok else str(srcs),
                   text="distinct chains get distinct generator sources")
        want = [("base-state", "jumped" if kind in (0, 3) else "spawn", c) for c in range(n)]
        okp = srcs == want
        ctx.run.ob(tag + "/stream-of-chain-c-depends-on-base-and-c-only", core.DISCHARGED if okp else core.FAILED, "pyvc",
                   detail="" if okp else f"{srcs}", text="chain c is driven by jumped(c) / spawn()[c] of the base generator, whatever the number of chains")
    it.explore(h, "_get_per_chain_rngs", roots=[[k, n] for k in range(4) for n in range(4)])
    it.overrides.pop((MOD, "default_rng"), None)


def stream_derivation(run, it):
    """relational obligation over two runs of the real sample_chains / _get_per_chain_rngs (self-composition): the same three-stage call with 2 and with 3
    chains on the same jump-capable base generator.  Which random stream drives chain c in stage k must be the same in both runs (independent of how many
    other chains are run), no stream may be handed to two chains, and a stream is never handed out again (replayed) within a run."""
    tag = "C14/" + P + "sample_chains/streams"
    probe = {}
    for n in (2, 3):
        samplers_stage.stage_loop(run, "C14", it, nch=n, stream_probe=probe)
    a, b = probe.get(2), probe.get(3)
    if not isinstance(a, list) or not isinstance(b, list):
        run.ob(tag + "/derivation-decided", core.UNKNOWN, "pyvc", detail=f"stream probe did not complete: {a if not isinstance(a, list) else b}")
        return
    bad = []
    for k, (ca, cb) in enumerate(zip(a, b)):
        for c in range(2):
            if ca[c][1] != cb[c][1]:
                bad.append(f"stage call {k}, chain {c}: stream {ca[c][1]} when 2 chains are run, {cb[c][1]} when 3 chains are run")
    ok = not bad and len(a) == len(b) == 3
    run.ob(tag + "/stream-of-chain-c-in-every-stage-is-independent-of-the-number-of-chains", core.DISCHARGED if ok else core.FAILED, "pyvc", detail="; ".join(bad[:3]),
           witness={"chain_counts": [2, 3]}, text="for every stage k and chain c < 2: the generator source of (k, c) is the same expression of the base generator in the 2-chain and the 3-chain run")
    bad2 = []
    for n, calls in ((2, a), (3, b)):
        owner = {}
        for k, call in enumerate(calls):
            for c, (oid, stream) in enumerate(call):
                prev = owner.get(stream)
                if prev is not None and (prev[0] != c or prev[1] != oid):
                    bad2.append(f"{n} chains: stream {stream} drives chain {prev[0]} (stage call {prev[2]}) and again chain {c} (stage call {k}) through "
                                f"{'another' if prev[1] != oid else 'the same'} generator object")
                owner.setdefault(stream, (c, oid, k))
    run.ob(tag + "/no-stream-is-shared-between-chains-or-handed-out-twice", core.DISCHARGED if not bad2 else core.FAILED, "pyvc", detail="; ".join(bad2[:3]),
           text="within a run a stream belongs to one chain; a later stage either continues the chain's generator object or uses a stream not handed out before")


class _StillWaiting(Exception):
    """the parent keeps polling the progress queue although an interrupt was delivered and nothing more can arrive"""


class StubQueue:
    def __init__(self, order=None):
        self.items = []
        self.order = order  # optional permutation applied when popping (scheduling perturbation)
        self.popped = 0
        self.interrupt_delivered = False
        self.gets_after_interrupt = 0
        self.n_gets = 0
        self.raise_interrupt_at_get = None  # the parent process itself receives SIGINT while waiting in its k-th get (a real Ctrl-C reaches the whole process group)

    def _pv_getattr(self, ex, name):
        if name == "put":
            return Native(lambda ex2, x: self.items.append(x), "put")
        if name == "empty":
            return Native(lambda ex2: not self.items, "empty")
        if name == "get":
            def get(ex2, block=True, timeout=None):
                self.n_gets += 1
                if self.raise_interrupt_at_get == self.n_gets:
                    raise PyRaise(Obj(ex2.interp.builtins["KeyboardInterrupt"], {"args": ()}))
                if self.interrupt_delivered:
                    self.gets_after_interrupt += 1
                    if self.gets_after_interrupt > 40:
                        raise _StillWaiting()
                if not self.items:
                    if block and timeout is None:
                        # every worker has already returned (they run to completion inside starmap_async in this model): nothing can arrive any more
                        raise _StillWaiting()
                    raise PyRaise(Obj(ex2.interp.ext_modules["queue"].Empty, {"args": ()}))
                if self.order is None and isinstance(self.items[0], Obj) and self.items[0].cls.name == "KeyboardInterrupt":
                    self.interrupt_delivered = True
                if self.order is not None:
                    # pop the remaining item that comes first in the perturbed order
                    idx = min(range(len(self.items)), key=lambda i: self.order.index(self.items[i][0]))
                    return self.items.pop(idx)
                return self.items.pop(0)
            return Native(get, "get")
        raise PyRaise(make_exc(ex.interp, "AttributeError", name))


def proxy_progress_bar(run, it):
    """contract of the worker-side progress bar that the model of _sample_chains_parallel relies on: it puts ONLY progress tuples (job, index, data) on the
    progress queue -- the start message on entry and nothing on exit, normal or exceptional.  `None` (chain terminated early) and exception objects are
    reserved messages of _sample_chains_worker; a bar that emitted one of them would make the parent count a chain twice / stop waiting before the worker's
    own report arrives"""
    run.function("mici.progressbars._ProxySequenceProgressBar.__enter__/__exit__")
    tag = "progressbars._ProxySequenceProgressBar"
    PB = "mici.progressbars"

    def h(ctx):
        how = ctx.choose(3, "exit")  # 0 normal exit, 1 left by KeyboardInterrupt, 2 left by another exception
        mod = it.module(PB)
        ex = Exec(it, ctx, mod, mod.env, "harness")
        q = StubQueue()
        try:
            bar = ex.call(mod.resolve("_ProxySequenceProgressBar", ctx), [[10, 11, 12], 7, q], {})
            ent = ex.call(ex.getattr(bar, "__enter__"), [], {})
            ok_enter = q.items == [(7, 0, None)] and ent is bar
            ctx.run.ob(f"{run.prop}/{tag}.__enter__/announces-the-job-with-a-progress-tuple", core.DISCHARGED if ok_enter else core.FAILED, "pyvc", detail="" if ok_enter else str(q.items))
            n0 = len(q.items)
            if how == 0:
                args = [None, None, None]
            else:
                ecls = it.builtins["KeyboardInterrupt" if how == 1 else "ValueError"]
                args = [ecls, Obj(ecls, {"args": ()}), Opaque("traceback")]
            ret = ex.call(ex.getattr(bar, "__exit__"), args, {})
        except PyRaise as pr:
            ctx.run.ob(f"{run.prop}/{tag}.__exit__/puts-nothing-on-the-progress-queue", core.FAILED, "pyvc", detail=f"{exc_name(pr.exc)} {pr.exc.attrs.get('args')}")
            return
        extra = q.items[n0:]
        ok = not extra and not ret
        ctx.run.ob(f"{run.prop}/{tag}.__exit__/puts-nothing-on-the-progress-queue", core.DISCHARGED if ok else core.FAILED, "pyvc",
                   detail="" if ok else f"exit {['normal', 'by KeyboardInterrupt', 'by ValueError'][how]}: queued {extra}, returned {ret} "
                   "(None is the worker's 'chain terminated early' message: the parent would count this chain as finished before the worker reports the interrupt)",
                   witness={"exit": how}, text="__exit__ (normal or exceptional) queues no message and does not swallow the exception")
    it.explore(h, "proxy-progress-bar", roots=[[0], [1], [2]])


def parallel(run, it, prop="C14"):
    run.function("mici.samplers._sample_chains_parallel")
    run.function("mici.samplers._sample_chains_worker")
    tag = P + "_sample_chains_parallel"
    NCH = 3
    perms = list(itertools.permutations(range(NCH)))

    def h(ctx):
        perm = list(perms[ctx.choose(len(perms), "worker-pickup-order")])
        n_proc = ctx.choose(2, "n_process") + 2
        # C15: no interrupt / one worker interrupted at chain c / the interrupt reaches EVERY worker (Ctrl-C goes to the whole process group):
        # each worker is then interrupted in the chain it is running and the chains still queued are never started
        interrupt_chain = (ctx.choose(NCH + 2, "interrupted-chain") - 1) if prop == "C15" else -1
        interrupt_all = interrupt_chain == NCH
        # ... and the parent: with every worker interrupted, the parent may receive the same SIGINT inside its own wait on the progress queue, before it has
        # read the workers' reports
        parent_interrupt_at = ctx.choose(3, "parent-interrupted-in-get") if interrupt_all else 0
        mod = it.module(MOD)
        ex = Exec(it, ctx, mod, mod.env, "harness")
        empty_cls = it.builtins["Exception"]
        from ..pyvc import Cls
        it.ext_modules["queue"] = Namespace("queue", Empty=Cls("Empty", [it.builtins["Exception"]], {}, module="queue"))
        it.overrides[(MOD, "THREADPOOLCTL_AVAILABLE")] = False
        it.overrides[(MOD, "MULTIPROCESS_AVAILABLE")] = False
        it.overrides[(MOD, "PicklingError")] = it.builtins["PicklingError"]
        g = {"sampled": [], "queues": []}

        class Manager:
            def _pv_getattr(self_, ex_, name):
                if name == "Queue":
                    def mk(ex2):
                        q = StubQueue(order=perm if len(g["queues"]) == 1 else None)  # 2nd queue created is the chain queue
                        if not g["queues"] and parent_interrupt_at:
                            q.raise_interrupt_at_get = parent_interrupt_at
                        g["queues"].append(q)
                        return q
                    return Native(mk, "Queue")
                raise PyRaise(make_exc(ex_.interp, "AttributeError", name))

        class Results:
            def __init__(self_, vals):
                self_.vals = vals

            def _pv_getattr(self_, ex_, name):
                if name == "get":
                    return Native(lambda ex2: self_.vals, "get")
                raise PyRaise(make_exc(ex_.interp, "AttributeError", name))

        class Pool:
            def _pv_getattr(self_, ex_, name):
                if name == "starmap_async":
                    def starmap_async(ex2, func, arglist):
                        # A14: each worker runs func on *pickled copies* of its arguments; queues are shared manager proxies
                        outs = []
                        for (cq, iq, common) in arglist:
                            outs.append(copy.deepcopy(ex2.call(func, [cq, iq, copy.deepcopy(common)], {})))
                        return Results(outs)
                    return Native(starmap_async, "starmap_async")
                raise PyRaise(make_exc(ex_.interp, "AttributeError", name))

        def ctxmgr(obj):
            return Opaque("cm", __enter__=Native(lambda e: obj, "enter"), __exit__=Native(lambda e, *a: False, "exit"))
        it.overrides[(MOD, "_ignore_sigint_manager")] = Native(lambda ex_: ctxmgr(Manager()), "_ignore_sigint_manager")
        it.overrides[(MOD, "_pool_context_manager")] = Native(lambda ex_, n: ctxmgr(Pool()), "_pool_context_manager")

        class Stack:
            def _pv_getattr(self_, ex_, name):
                if name == "enter_context":
                    return Native(lambda ex2, cm: ex2.call(ex2.getattr(cm, "__enter__"), [], {}), "enter_context")
                if name == "__enter__":
                    return Native(lambda ex2: self_, "enter")
                if name == "__exit__":
                    return Native(lambda ex2, *a: False, "exit")
                raise PyRaise(make_exc(ex_.interp, "AttributeError", name))
        it.overrides[(MOD, "ExitStack")] = Native(lambda ex_: Stack(), "ExitStack")
        it.overrides[(MOD, "_ProxySequenceProgressBar")] = Native(lambda ex_, seq, job, q: ("proxy", len(seq), job, q), "_ProxySequenceProgressBar")

        def sample_chain(ex_, **kw):
            c = kw["chain_index"]
            # the queue item was pickled on its way to the worker (A14): the worker holds copies
            g["sampled"].append(dict(chain=c, init=kw["init_state"], rng_stream=kw["rng"].bit_generator.state["state"], traces=kw["chain_traces"], common=kw.get("transitions")))
            kw["rng"].draw(5)  # the chain consumes random numbers: the *worker's copy* of the generator advances
            _, n_iter, job, q = kw["chain_iterator"]
            if c == interrupt_chain or interrupt_all:
                return (Opaque(f"final<{c}>"), {}, Obj(ex_.interp.builtins["KeyboardInterrupt"], {"args": ()}))
            q.items.append((job, n_iter, {}))  # progress message of the last iteration
            return (Opaque(f"final<{c}>"), {}, None)
        it.call_contracts["_sample_chain"] = Native(sample_chain, "_sample_chain")
        rngs = [GhostRng(f"stream{c}") for c in range(NCH)]
        iters = [samplers_model.ChainIter(2) for _ in range(NCH)]
        for ci in iters:
            ci.update_calls = []
            orig = ci._pv_getattr

            def ga(ex_, name, _ci=ci, _orig=orig):
                if name == "update":
                    return Native(lambda ex2, i, d: _ci.update_calls.append(i), "update")
                return _orig(ex_, name)
            ci._pv_getattr = ga
        pck = [{"init_state": f"init{c}", "rng": rngs[c], "chain_traces": f"traces{c}", "chain_stats": f"stats{c}"} for c in range(NCH)]

        class PickledQueueProxy:
            pass
        # chain_queue.put pickles the item: emulate by deep-copying on put for the chain queue
        try:
            try:
                orig_put = StubQueue._pv_getattr

                def patched(self_, ex_, name):
                    if name == "put" and self_.order is not None:
                        return Native(lambda ex2, x: self_.items.append(copy.deepcopy(x)), "put")
                    return orig_put(self_, ex_, name)
                StubQueue._pv_getattr = patched
                states, ad, exc = ex.call(mod.resolve("_sample_chains_parallel", ctx), [], dict(
                    chain_iterators=iters, per_chain_kwargs=pck, n_process=n_proc, transitions="TRANSITIONS", monitor_stats=None,
                    sampling_index_offset=0, trace_funcs=None, adapters=None, max_threads_per_process=None))
            finally:
                StubQueue._pv_getattr = orig_put
        except PyRaise as pr:
            ctx.run.ob(tag + "/returns-normally", core.FAILED, "pyvc", detail=f"{exc_name(pr.exc)} {pr.exc.attrs.get('args')} (pickup order {perm})")
            return
        except _StillWaiting:
            ctx.run.ob(tag + "/parent-stops-waiting-once-an-interrupt-is-reported", core.FAILED, "pyvc",
                       detail=f"the parent blocks on (or keeps polling) the progress queue although every worker has returned and nothing more can arrive (n_process={n_proc}, "
                       f"{'every worker interrupted' if interrupt_all else f'chain {interrupt_chain} interrupted'}, chains never started: "
                       f"{sorted(set(range(NCH)) - set(s_['chain'] for s_ in g['sampled']))}): sample_chains does not return",
                       witness={"n_process": n_proc, "all_workers_interrupted": interrupt_all},
                       text="termination: after the first KeyboardInterrupt item the parent performs no further get on the progress queue")
            return
        finally:
            it.call_contracts.pop("_sample_chain", None)
            for k in ("_ignore_sigint_manager", "_pool_context_manager", "ExitStack", "_ProxySequenceProgressBar", "THREADPOOLCTL_AVAILABLE",
                      "MULTIPROCESS_AVAILABLE", "PicklingError"):
                it.overrides.pop((MOD, k), None)
        if prop == "C15":
            if interrupt_chain >= 0:
                pq = g["queues"][0] if g["queues"] else None
                polls = pq.gets_after_interrupt if pq is not None else 0
                ctx.run.ob(tag + "/parent-stops-waiting-once-an-interrupt-is-reported", core.DISCHARGED if polls == 0 else core.FAILED, "pyvc",
                           detail="" if polls == 0 else f"{polls} further polls of the progress queue after the interrupt was delivered",
                           text="termination: after the first KeyboardInterrupt item the parent performs no further get on the progress queue")
            sampled = sorted(s_["chain"] for s_ in g["sampled"])
            got = [getattr(s_, "_name", None) for s_ in states]
            if parent_interrupt_at:
                okp = isinstance(exc, Obj) and exc.cls.name == "KeyboardInterrupt"
                ctx.run.ob(tag + "/interrupt-received-by-the-parent-itself-is-reported-to-the-stage-loop", core.DISCHARGED if okp else core.FAILED, "pyvc",
                           detail="" if okp else f"the parent was interrupted in its get #{parent_interrupt_at} on the progress queue; _sample_chains_parallel returned exception={exc}: "
                           "sample_chains would finalize the adapters and start the next stage",
                           witness={"parent_interrupted_in_get": parent_interrupt_at, "n_process": n_proc},
                           text="a KeyboardInterrupt raised in the parent's own wait is returned as the stage's exception (so that no later stage is started)")
            if interrupt_chain >= 0:
                oki = isinstance(exc, Obj) and exc.cls.name == "KeyboardInterrupt"
                ctx.run.ob(tag + "/worker-interrupt-is-reported-to-the-parent", core.DISCHARGED if oki else core.FAILED, "pyvc", detail="" if oki else str(exc))
            okr = got == [f"final<{c}>" for c in sampled]
            ctx.run.ob(tag + "/outputs-of-every-sampled-chain-are-returned-in-chain-order", core.DISCHARGED if okr else core.FAILED, "pyvc",
                       detail="" if okr else f"chains sampled {sampled} (chain {interrupt_chain} interrupted, pickup order {perm}) but returned states {got}",
                       text="under A14: the outputs of every chain a worker sampled -- including the interrupted one -- come back, sorted by chain index")
            return
        ok1 = sorted(s["chain"] for s in g["sampled"]) == list(range(NCH))
        ctx.run.ob(tag + "/every-chain-sampled-exactly-once", core.DISCHARGED if ok1 else core.FAILED, "pyvc", detail="" if ok1 else str(g["sampled"]))
        ok2 = all(s["init"] == f"init{s['chain']}" and s["rng_stream"][0] == f"stream{s['chain']}" and s["traces"] == f"traces{s['chain']}" for s in g["sampled"])
        ctx.run.ob(tag + "/each-chain-gets-its-own-arguments", core.DISCHARGED if ok2 else core.FAILED, "pyvc", detail="" if ok2 else str(g["sampled"]),
                   text="whatever worker picks a chain up, it is sampled with that chain's init state, generator and arrays")
        ok3 = [getattr(s, "_name", None) for s in states] == [f"final<{c}>" for c in range(NCH)]
        ctx.run.ob(tag + "/outputs-in-chain-order-for-every-completion-order", core.DISCHARGED if ok3 else core.FAILED, "pyvc",
                   detail="" if ok3 else f"pickup order {perm}: returned {states}", text="final states are returned sorted by chain index for every pickup/completion order")
        # threading invariant: the draws made by chain c in this stage are visible in the parent's generator c afterwards
        # the WHOLE state: a generator restored to the right stream position but with a stale buffered half-word continues a different stream
        stale = [c for c in range(NCH) if rngs[c].bit_generator.state != GhostRng.state_at(f"stream{c}", 5)]
        ctx.run.ob(tag + "/generator-state-flows-back-to-the-parent", core.DISCHARGED if not stale else core.FAILED, "pyvc",
                   witness={"chains_with_unadvanced_generators": stale},
                   detail="" if not stale else f"after a parallel stage in which every chain drew random numbers, the parent's generators of chains {stale} are at their "
                   "old state or carry only part of the state their workers' copies ended in (stream position AND buffered half-word must both flow back): the next stage "
                   "replays or leaves the random stream",
                   text="threading invariant: position of chain c's generator at the start of stage k+1 == position at the end of stage k (both chain functions)")
        okp = all(ci.update_calls for ci in iters)
        ctx.run.ob(tag + "/progress-messages-routed-to-own-bar", core.DISCHARGED if okp else core.FAILED, "pyvc")
    it.explore(h, "_sample_chains_parallel", roots=[[i, j] for i in range(len(perms)) for j in range(2)])



def base_generator_use(run, it):
    """HamiltonianMonteCarlo.sample_chains: the state of the base generator from which the per-chain generators are derived
    must not depend on the number of chains (else chain c's stream changes when other chains are added)."""
    run.function("mici.samplers.HamiltonianMonteCarlo.sample_chains")
    run.function("mici.samplers.HamiltonianMonteCarlo._preprocess_init_state")
    tag = P + "HamiltonianMonteCarlo.sample_chains"
    positions = {}

    class Arr:
        pass

    def h(ctx):
        n = ctx.choose(3, "n_chain") + 1
        same_object = bool(ctx.choose(2, "same-initial-array-object-for-every-chain")) if n > 1 else False
        mod = it.module(MOD)
        ex = Exec(it, ctx, mod, mod.env, "harness")
        it.ext_modules["numpy"].ndarray = TypeTag("ndarray", lambda o: isinstance(o, Arr))
        it.overrides[(MOD, "IndependentMomentumTransition")] = Native(lambda ex_, system: Opaque("momentum_transition"), "IndependentMomentumTransition")
        it.overrides[(MOD, "DualAveragingStepSizeAdapter")] = Native(lambda ex_: Opaque("adapter"), "DualAveragingStepSizeAdapter")
        base = GhostRng("base")
        seen = {}

        def sample_momentum(ex_, state, rng):
            rng.draw(1)
            return Arr()
        system = Opaque("system", sample_momentum=Native(sample_momentum, "sample_momentum"))

        def mcmc_sample_chains(ex_, self_, n_w, n_m, init_states, **kw):
            seen["base_position"] = base.position
            seen["states"] = list(init_states)
            cls = mod.resolve("MCMCSampleChainsOutputs", ex_.ctx)
            return ex_.call(cls, [list(init_states), None, {}], {})
        it.call_contracts["MarkovChainMonteCarloMethod.sample_chains"] = Native(mcmc_sample_chains, "MarkovChainMonteCarloMethod.sample_chains")
        try:
            cls = mod.resolve("HamiltonianMonteCarlo", ctx)
            hmc = ex.call(cls, [system, base, Opaque("integration_transition")], {})
            one = Arr()
            ex.call(ex.getattr(hmc, "sample_chains"), [2, 3, [one] * n if same_object else [Arr() for _ in range(n)]], {})
        except PyRaise as pr:
            ctx.run.ob(tag + "/no-exception", core.FAILED, "pyvc", detail=f"{exc_name(pr.exc)} {pr.exc.attrs.get('args')}")
            return
        finally:
            it.call_contracts.pop("MarkovChainMonteCarloMethod.sample_chains", None)
            it.overrides.pop((MOD, "IndependentMomentumTransition"), None)
            it.overrides.pop((MOD, "DualAveragingStepSizeAdapter"), None)
        sts = seen.get("states", [])
        okd = len(sts) == n and len({id(x) for x in sts}) == n
        ctx.run.ob(tag + "/every-chain-gets-its-own-state-object", core.DISCHARGED if okd else core.FAILED, "pyvc",
                   witness={"n_chain": n, "same_initial_array_object": same_object},
                   detail="" if okd else f"{n} chains (initial states given as {'one array object repeated' if same_object else 'distinct arrays'}) are handed {len({id(x) for x in sts})} distinct "
                   "state object(s): transitions update states in place, so in a sequential run a chain would start from what the previous chain left behind, while worker "
                   "processes receive pristine pickled copies -- the output would depend on n_process",
                   text="the chain states handed to the stage loop are pairwise distinct objects, also when the caller repeats one array / state object for all chains")
        pos = seen.get("base_position")
        ok = pos == 0
        ctx.run.ob(tag + "/per-chain-generators-derived-from-a-chain-count-independent-base-state", core.DISCHARGED if ok else core.FAILED, "pyvc",
                   witness={"n_chain": n, "base_draws_before_deriving_per_chain_generators": pos},
                   detail="" if ok else f"with {n} array initial states the base generator has made {pos} draws (one initial momentum per chain) before the per-chain "
                   "generators are derived from it by jumped()/spawn(): chain c's random stream, hence its whole trajectory, depends on how many chains are run",
                   text="the base generator state used to derive per-chain generators does not depend on the number of chains")
    it.explore(h, "HamiltonianMonteCarlo.sample_chains", roots=[[0], [1, 0], [1, 1], [2, 0], [2, 1]])


def unseeded_sources(run):
    """determinism: no call to an unseeded random / time source in value positions of the sampling modules"""
    import ast
    from .. import frames
    bad = []
    for modname in ("samplers", "transitions", "integrators", "systems", "adapters", "stagers", "solvers", "states"):
        tree, _ = frames.parse_module(modname)
        for n in ast.walk(tree):
            if isinstance(n, ast.Call):
                s = ast.unparse(n.func)
                if s.startswith(("np.random.", "numpy.random.", "random.", "time.", "os.urandom", "uuid.")) and not s.startswith(("np.random.Generator", "np.random.RandomState")):
                    bad.append(f"{modname}: {s}")
                if s == "default_rng" and not n.args:
                    bad.append(f"{modname}: default_rng() without a seed")
    run.ob("library/no-unseeded-randomness-or-clock-reads", core.DISCHARGED if not bad else core.FAILED, "frames", detail="; ".join(bad),
           text="no module-level numpy/random/time/urandom call in the sampling code path")


def shared_objects_frame(run):
    """Adapter, transition and integrator objects are shared by all chains of a process (and copied to worker processes per stage): per-chain
    state lives in the `adapt_state` dictionaries, the chain states and the per-chain generators.  Frame obligation (Engine C, on the real source):
    outside `__init__` (and property setters, which are the public configuration interface) no method of these classes assigns, augments or
    deletes an attribute of `self` -- otherwise what one chain computes or draws leaks into the chains the same process handles later, and the
    result depends on the chain-to-process schedule."""
    import ast
    from .. import frames
    n = 0
    for modname, what in (("adapters", "adapter"), ("transitions", "transition"), ("integrators", "integrator")):
        tree, _ = frames.parse_module(modname)
        for cls in [x for x in tree.body if isinstance(x, ast.ClassDef)]:
            for fn in [x for x in cls.body if isinstance(x, (ast.FunctionDef, ast.AsyncFunctionDef)) and x.name != "__init__"]:
                if any(isinstance(d, ast.Attribute) and d.attr == "setter" for d in fn.decorator_list):
                    continue
                writes = []
                for node in ast.walk(fn):
                    targets = []
                    if isinstance(node, ast.Assign):
                        targets = node.targets
                    elif isinstance(node, (ast.AugAssign, ast.AnnAssign)):
                        targets = [node.target]
                    elif isinstance(node, ast.Delete):
                        targets = node.targets
                    elif isinstance(node, ast.Call) and isinstance(node.func, ast.Name) and node.func.id == "setattr" and node.args and \
                            isinstance(node.args[0], ast.Name) and node.args[0].id == "self":
                        writes.append(f"setattr(self, ...) at line {node.lineno}")
                    for t in targets:
                        for x in ast.walk(t):
                            if isinstance(x, ast.Attribute) and isinstance(x.value, ast.Name) and x.value.id == "self":
                                writes.append(f"self.{x.attr} at line {node.lineno}")
                n += 1
                run.ob(f"{modname}.{cls.name}.{fn.name}/does-not-write-the-shared-{what}-object", core.DISCHARGED if not writes else core.FAILED, "frames",
                       detail="" if not writes else f"{cls.name}.{fn.name} writes {writes}: the {what} object is shared by every chain (and stage) its process handles",
                       witness=None if not writes else {"class": cls.name, "method": fn.name, "writes": writes},
                       text=f"{what} methods other than __init__ keep per-chain state out of the shared object (frame: no write to self.*)")
    if n == 0:
        run.ob("library/does-not-write-shared-objects", core.ERROR, "frames", detail="no methods found")


def run(run_, tier):
    it = samplers_model.make_interp(run_)
    run_.assume("A10: numpy Generator draws, jumped(i) and SeedSequence.spawn behave as documented (non-overlapping streams determined by (state, i))")
    run_.assume("A14 (trusted): multiprocessing delivers each queued item once as a pickled copy, AsyncResult.get returns the workers' return values, nothing else flows back; "
                "per-chain frame disjointness + A14 => schedule independence is an informal inference")
    run_.replay_for("", lambda w: {"script": "c14_parallel.py", "args": [json.dumps(w or {})], "timeout": 900})
    per_chain_rngs(run_, it)
    samplers_stage.stage_loop(run_, "C14", it)
    stream_derivation(run_, it)
    samplers_stage.sequential_loop(run_, it, "C14")
    parallel(run_, it)
    base_generator_use(run_, it)
    unseeded_sources(run_)
    shared_objects_frame(run_)
    # chains share the transition / integrator objects of their process: adapter initialisation must not read what another chain left there
    from . import c17
    it17 = c17.make_interp(run_)
    c17.dual_averaging(run_, it17, only_search=True)
    run_.extraction_drops.extend(sorted(it.dropped))
    run_.notes.append(f"paths explored: {it.paths}")
