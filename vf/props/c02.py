"""C02 -- every integrator step is time-reversible or fails loudly; the input state is
never modified.

Contracts (Engine A, real source of mici.integrators + mici.states):
  Integrator.step                 : works on a copy, input variables unchanged, only IntegratorError/AdaptationError escape
  explicit integrators            : palindromic trace of group-action flows (=> Psi(-t) o Psi(t) = id, lemma below)
  implicit sub-steps (fwd)        : solver called on the documented fixed-point map, state var = solver result
  adjoint sub-steps               : explicit update is the algebraic adjoint of the implicit one *and* every normal
                                    return passed the reversibility check on a copy, with -t, against the initial value
  ConstrainedLeapfrog._step_b     : loop invariant -- each inner step: retraction, projection, reverse retraction, check
"""
from __future__ import annotations

import json

import z3

from .. import core
from ..linvec import LinVec, vec_eq
from ..pyvc import LoopSpec, Native, Obj, PathEnd, PyRaise, exc_name, is_z3, lift, to_real
from . import c06
from .integ_model import Pair, World, make_interp, positive_step, same_vars, snapshot

P = "integrators."


def _replay(kind):
    return lambda w: {"script": "c02_reversibility.py", "args": [kind, json.dumps(w or {})]}


def pair_eq(a, b):
    if isinstance(a, Pair):
        return z3.And(vec_eq(a.a, b.a), vec_eq(a.b, b.b))
    return vec_eq(a, b)


def exc_is(ex_or_interp, exc, name, it):
    cls = it.module("mici.errors").resolve(name, None)
    return isinstance(exc, Obj) and exc.cls.issub(cls)


# ---------------------------------------------------------------------------------------


def check_step_frame(run, it):
    """step(): new object, input unchanged, dir preserved, for every integrator class (real _step bodies)."""
    classes = ["LeapfrogIntegrator", "BCSSThreeStageIntegrator", "ImplicitLeapfrogIntegrator", "ImplicitMidpointIntegrator",
               "ConstrainedLeapfrogIntegrator"]
    for c in classes:
        run.function(f"mici.integrators.{c}.step")

    def h(ctx):
        k = ctx.choose(len(classes), "class")
        name = classes[k]
        w = World(it, ctx, constrained=(name == "ConstrainedLeapfrogIntegrator"))
        kw = {"step_size": positive_step(ctx)}
        if name.startswith("Implicit"):
            kw.update(fixed_point_solver=w.fixed_point_solver_stub(), reverse_check_norm=w.norm_stub(), reverse_check_tol=z3.Real("tol"))
        if name == "ConstrainedLeapfrogIntegrator":
            kw.update(projection_solver=w.projection_solver_stub(), reverse_check_norm=w.norm_stub(), reverse_check_tol=z3.Real("tol"),
                      n_inner_step=2)
        integ = w.new(name, **kw)
        st = w.make_state()
        snap = snapshot(w, st)
        tag = P + f"{name}.step"
        try:
            res = w.ex.call(w.ex.getattr(integ, "step"), [st], {})
        except PyRaise as pr:
            ok = any(exc_is(None, pr.exc, n, it) for n in ("IntegratorError",))
            ctx.run.ob(tag + "/only-integrator-errors-escape", core.DISCHARGED if ok else core.FAILED, "pyvc",
                       detail="" if ok else f"{exc_name(pr.exc)} escaped step()", text="step(): every escaping exception is an IntegratorError")
            ctx.prove(tag + "/input-state-unchanged", same_vars(ctx, w, st, snap), text="step(): input state variables unchanged (also on error)")
            return
        ctx.prove(tag + "/input-state-unchanged", same_vars(ctx, w, st, snap), text="step(): input state variables unchanged")
        new = res is not st and isinstance(res, Obj)
        ctx.run.ob(tag + "/returns-new-state", core.DISCHARGED if new else core.FAILED, "pyvc",
                   detail="" if new else "step() returned its argument", text="step() returns a new state object")
        if new:
            ctx.prove(tag + "/dir-preserved", lift(w.var(res, "dir")) == lift(snap["dir"]), text="step() does not change dir")
            shared = any(w.var(res, v) is w.var(st, v) for v in ("pos", "mom"))
            ctx.run.ob(tag + "/no-array-shared-with-input", core.DISCHARGED if not shared else core.FAILED, "pyvc",
                       detail="" if not shared else "returned state shares an array object with the input state",
                       text="returned state holds its own arrays")
    it.explore(h, "step-frame", roots=[[i] for i in range(len(classes))])

    def h_none(ctx):
        w = World(it, ctx)
        integ = w.new("LeapfrogIntegrator")
        st = w.make_state()
        try:
            w.ex.call(w.ex.getattr(integ, "step"), [st], {})
            ok = False
        except PyRaise as pr:
            ok = exc_is(None, pr.exc, "AdaptationError", it)
        ctx.run.ob(P + "Integrator.step/step-size-none-raises-adaptation-error", core.DISCHARGED if ok else core.FAILED, "pyvc",
                   detail="" if ok else "step with step_size=None did not raise AdaptationError")
    it.explore(h_none, "step-none")


# spec tables for the implicit/adjoint pairs ------------------------------------------------

def _G(w, name, q, p):
    return w.space.apply_fn(name, q, p)


PAIRS = {
    # class, implicit method, adjoint(explicit+check) method, variable moved, derivative, sign
    "B": ("ImplicitLeapfrogIntegrator", "_step_b_fwd", "_step_b_adj", "mom", "dh2_dpos", -1),
    "C": ("ImplicitLeapfrogIntegrator", "_step_c_adj", "_step_c_fwd", "pos", "dh2_dmom", +1),
}


def check_leapfrog_pairs(run, it):
    for key, (cls, m_impl, m_expl, var, deriv, sign) in PAIRS.items():
        run.function(f"mici.integrators.{cls}.{m_impl}")
        run.function(f"mici.integrators.{cls}.{m_expl}")
        other = "pos" if var == "mom" else "mom"

        def h_impl(ctx, cls=cls, m_impl=m_impl, var=var, deriv=deriv, sign=sign, other=other):
            w = World(it, ctx)
            integ = w.new(cls, step_size=positive_step(ctx), fixed_point_solver=w.fixed_point_solver_stub(),
                          reverse_check_norm=w.norm_stub(), reverse_check_tol=z3.Real("tol"))
            st = w.make_state()
            snap = snapshot(w, st)
            t = z3.Real("t")
            tag = P + f"{cls}.{m_impl}"
            try:
                w.ex.call(w.ex.getattr(integ, m_impl), [st, t], {})
            except PyRaise as pr:
                ok = exc_is(None, pr.exc, "ConvergenceError", it)
                ctx.run.ob(tag + "/raises-only-convergence-error", core.DISCHARGED if ok else core.FAILED, "pyvc",
                           detail="" if ok else f"{exc_name(pr.exc)}")
                return
            n = len(w.solver_calls)
            ctx.run.ob(tag + "/one-solve", core.DISCHARGED if n == 1 else core.FAILED, "pyvc", detail="" if n == 1 else f"{n} solves")
            if n != 1:
                return
            c = w.solver_calls[0]
            ctx.prove(tag + "/initial-guess-is-current-value", vec_eq(c["x0"], snap[var]), text="fixed-point iteration starts from the current value")
            args = (snap["pos"], c["x"]) if var == "mom" else (c["x"], snap["mom"])
            want = snap[var]._pv_binop(w.ex, "__add__", _G(w, deriv, *args).scaled(sign * t))
            ctx.prove(tag + "/fixed-point-map", vec_eq(c["fx"], want),
                      text=f"{m_impl}: func(x) == {var}_init {'+' if sign > 0 else '-'} t * {deriv}(state with {var}=x)")
            ctx.prove(tag + "/result-is-solution", vec_eq(w.var(st, var), c["x"]), text="state variable set to the solver's fixed point")
            ctx.prove(tag + "/other-variable-unchanged", vec_eq(w.var(st, other), snap[other]))
        it.explore(h_impl, f"{key}.implicit")

        def h_expl(ctx, cls=cls, m_impl=m_impl, m_expl=m_expl, var=var, deriv=deriv, sign=sign, other=other):
            w = World(it, ctx)
            integ = w.new(cls, step_size=positive_step(ctx), fixed_point_solver=w.fixed_point_solver_stub(),
                          reverse_check_norm=w.norm_stub(), reverse_check_tol=z3.Real("tol"))
            st = w.make_state()
            snap = snapshot(w, st)
            t = z3.Real("t")
            tag = P + f"{cls}.{m_expl}"
            back_calls = []

            extra_args = []

            def impl_contract(ex, self_, state, tt, *more, **kwmore):
                # the check must compute what a reverse step from the new state would compute: the implicit sub-step is called exactly as
                # _step calls it -- (state, time) and nothing that steers the solve (e.g. an initial guess at the value it is compared with)
                extra_args.append((more, kwmore))
                back_calls.append((state, tt, snapshot(w, state)))
                ex.setattr(state, var, w.space.atom(f"back_{var}"))
            it.call_contracts[f"{cls}.{m_impl}"] = Native(impl_contract, m_impl)
            try:
                raised = None
                try:
                    w.ex.call(w.ex.getattr(integ, m_expl), [st, t], {})
                except PyRaise as pr:
                    raised = pr.exc
            finally:
                del it.call_contracts[f"{cls}.{m_impl}"]
            want = snap[var]._pv_binop(w.ex, "__add__", _G(w, deriv, snap["pos"], snap["mom"]).scaled(sign * t))
            ctx.prove(tag + "/explicit-update-is-adjoint", vec_eq(w.var(st, var), want),
                      text=f"{m_expl}: {var}' == {var} {'+' if sign > 0 else '-'} t * {deriv}(pos, mom) (algebraic adjoint of {m_impl})")
            ctx.prove(tag + "/other-variable-unchanged", vec_eq(w.var(st, other), snap[other]))
            ok = len(back_calls) == 1 and len(w.norm_calls) == 1
            ctx.run.ob(tag + "/reversibility-check-performed", core.DISCHARGED if ok else core.FAILED, "pyvc",
                       detail="" if ok else f"{len(back_calls)} reverse solves, {len(w.norm_calls)} norm evaluations",
                       text="exactly one reverse implicit solve and one norm evaluation on every path")
            if not ok:
                return
            bstate, bt, bsnap = back_calls[0]
            plain = all(not m and not k for m, k in extra_args)
            ctx.run.ob(tag + "/check-solves-exactly-as-a-reverse-step-would", core.DISCHARGED if plain else core.FAILED, "pyvc",
                       detail="" if plain else f"the reverse solve receives extra arguments {[(len(m), sorted(k)) for m, k in extra_args]}: it is not the computation a reverse step performs",
                       text=f"the reversibility check calls {m_impl}(state_copy, -t) with the arguments _step itself uses")
            on_copy = bstate is not st
            ctx.run.ob(tag + "/check-runs-on-a-copy", core.DISCHARGED if on_copy else core.FAILED, "pyvc",
                       detail="" if on_copy else "reverse solve applied to the step state itself")
            ctx.prove(tag + "/check-uses-reversed-time", to_real(bt) == -t)
            ctx.prove(tag + "/check-starts-from-updated-state", z3.And(vec_eq(bsnap["pos"], w.var(st, "pos")), vec_eq(bsnap["mom"], w.var(st, "mom"))),
                      text="the reverse solve starts from the state after the explicit update")
            diff, r = w.norm_calls[0]
            want_diff = w.space.atom(f"back_{var}")._pv_binop(w.ex, "__sub__", snap[var])
            ctx.prove(tag + "/check-compares-with-initial-value", vec_eq(diff, want_diff),
                      text=f"norm argument == (reverse-integrated {var}) - (initial {var})")
            tol = z3.Real("tol")
            if raised is None:
                ctx.prove(tag + "/normal-return-implies-check-passed", r <= tol, text="every normal return has rev_diff <= reverse_check_tol")
            else:
                ok2 = exc_is(None, raised, "NonReversibleStepError", it)
                ctx.run.ob(tag + "/failure-is-non-reversible-step-error", core.DISCHARGED if ok2 else core.FAILED, "pyvc",
                           detail="" if ok2 else exc_name(raised))
                ctx.prove(tag + "/raises-only-when-check-fails", r > tol, text="NonReversibleStepError only when rev_diff > tol")
        it.explore(h_expl, f"{key}.explicit")


def check_midpoint_pair(run, it):
    cls = "ImplicitMidpointIntegrator"
    run.function(f"mici.integrators.{cls}._step_a_fwd")
    run.function(f"mici.integrators.{cls}._step_a_adj")

    def h_impl(ctx):
        w = World(it, ctx)
        integ = w.new(cls, step_size=positive_step(ctx), fixed_point_solver=w.fixed_point_solver_stub(),
                      reverse_check_norm=w.norm_stub(), reverse_check_tol=z3.Real("tol"))
        st = w.make_state()
        snap = snapshot(w, st)
        t = z3.Real("t")
        tag = P + f"{cls}._step_a_fwd"
        try:
            w.ex.call(w.ex.getattr(integ, "_step_a_fwd"), [st, t], {})
        except PyRaise as pr:
            ok = exc_is(None, pr.exc, "ConvergenceError", it)
            ctx.run.ob(tag + "/raises-only-convergence-error", core.DISCHARGED if ok else core.FAILED, "pyvc", detail="" if ok else exc_name(pr.exc))
            return
        if len(w.solver_calls) != 1:
            ctx.run.ob(tag + "/one-solve", core.FAILED, "pyvc", detail=f"{len(w.solver_calls)} solves")
            return
        ctx.run.ob(tag + "/one-solve", core.DISCHARGED, "pyvc")
        c = w.solver_calls[0]
        x = c["x"]
        want = Pair(snap["pos"]._pv_binop(w.ex, "__add__", _G(w, "dh_dmom", x.a, x.b).scaled(t)),
                    snap["mom"]._pv_binop(w.ex, "__sub__", _G(w, "dh_dpos", x.a, x.b).scaled(t)))
        ctx.prove(tag + "/fixed-point-map", pair_eq(c["fx"], want), text="implicit Euler map: (q,p) = (q0,p0) + t*(dh_dmom(q,p), -dh_dpos(q,p))")
        ctx.prove(tag + "/initial-guess-is-current-value", pair_eq(c["x0"], Pair(snap["pos"], snap["mom"])))
        ctx.prove(tag + "/result-is-solution", z3.And(vec_eq(w.var(st, "pos"), x.a), vec_eq(w.var(st, "mom"), x.b)))
    it.explore(h_impl, "midpoint.implicit")

    def h_expl(ctx):
        w = World(it, ctx)
        integ = w.new(cls, step_size=positive_step(ctx), fixed_point_solver=w.fixed_point_solver_stub(),
                      reverse_check_norm=w.norm_stub(), reverse_check_tol=z3.Real("tol"))
        st = w.make_state()
        snap = snapshot(w, st)
        t = z3.Real("t")
        tag = P + f"{cls}._step_a_adj"
        back_calls = []

        extra_args = []

        def impl_contract(ex, self_, state, tt, *more, **kwmore):
            extra_args.append((more, kwmore))
            back_calls.append((state, tt, snapshot(w, state)))
            ex.setattr(state, "pos", w.space.atom("back_pos"))
            ex.setattr(state, "mom", w.space.atom("back_mom"))
        it.call_contracts[f"{cls}._step_a_fwd"] = Native(impl_contract, "_step_a_fwd")
        raised = None
        try:
            try:
                w.ex.call(w.ex.getattr(integ, "_step_a_adj"), [st, t], {})
            except PyRaise as pr:
                raised = pr.exc
        finally:
            del it.call_contracts[f"{cls}._step_a_fwd"]
        wq = snap["pos"]._pv_binop(w.ex, "__add__", _G(w, "dh_dmom", snap["pos"], snap["mom"]).scaled(t))
        wp = snap["mom"]._pv_binop(w.ex, "__sub__", _G(w, "dh_dpos", snap["pos"], snap["mom"]).scaled(t))
        ctx.prove(tag + "/explicit-update-is-adjoint", z3.And(vec_eq(w.var(st, "pos"), wq), vec_eq(w.var(st, "mom"), wp)),
                  text="explicit Euler update evaluated at the *initial* state (adjoint of implicit Euler)")
        ok = len(back_calls) == 1 and len(w.norm_calls) == 1
        ctx.run.ob(tag + "/reversibility-check-performed", core.DISCHARGED if ok else core.FAILED, "pyvc",
                   detail="" if ok else f"{len(back_calls)} reverse solves, {len(w.norm_calls)} norms")
        if not ok:
            return
        bstate, bt, bsnap = back_calls[0]
        plain = all(not m and not k for m, k in extra_args)
        ctx.run.ob(tag + "/check-solves-exactly-as-a-reverse-step-would", core.DISCHARGED if plain else core.FAILED, "pyvc",
                   detail="" if plain else "the reverse solve receives extra arguments: it is not the computation a reverse step performs",
                   text="the reversibility check calls _step_a_fwd(state_copy, -t) with the arguments _step itself uses")
        ctx.run.ob(tag + "/check-runs-on-a-copy", core.DISCHARGED if bstate is not st else core.FAILED, "pyvc")
        ctx.prove(tag + "/check-uses-reversed-time", to_real(bt) == -t)
        ctx.prove(tag + "/check-starts-from-updated-state", z3.And(vec_eq(bsnap["pos"], w.var(st, "pos")), vec_eq(bsnap["mom"], w.var(st, "mom"))))
        diff, r = w.norm_calls[0]
        want = Pair(w.space.atom("back_pos")._pv_binop(w.ex, "__sub__", snap["pos"]), w.space.atom("back_mom")._pv_binop(w.ex, "__sub__", snap["mom"]))
        ok3 = isinstance(diff, Pair)
        ctx.prove(tag + "/check-compares-with-initial-value", pair_eq(diff, want) if ok3 else False,
                  text="norm argument == (back.pos - pos0, back.mom - mom0): both components are checked")
        tol = z3.Real("tol")
        if raised is None:
            ctx.prove(tag + "/normal-return-implies-check-passed", r <= tol)
        else:
            ok2 = exc_is(None, raised, "NonReversibleStepError", it)
            ctx.run.ob(tag + "/failure-is-non-reversible-step-error", core.DISCHARGED if ok2 else core.FAILED, "pyvc", detail="" if ok2 else exc_name(raised))
            ctx.prove(tag + "/raises-only-when-check-fails", r > tol)
    it.explore(h_expl, "midpoint.explicit")


def check_constrained_inner(run, it):
    cls = "ConstrainedLeapfrogIntegrator"
    q = f"{cls}._step_b"
    tag = P + q
    run.function(f"mici.integrators.{q}")

    def havoc(ex):
        ex.ctx.ghost["loop_index"] = ex.ctx.fresh("inner_i", "int")
        w = ex.ctx.ghost["world"]
        st = ex.ctx.ghost["state"]
        # arbitrary iteration: the step state holds arbitrary values
        ex.setattr(st, "pos", w.space.atom("q_iter"))
        ex.setattr(st, "mom", w.space.atom("p_iter"))

    def inv(ex):
        i = lift(ex.ctx.ghost.get("loop_index", 0))
        return z3.And(i >= 0, i <= z3.Int("n_inner_step"))

    def h(ctx):
        w = World(it, ctx, constrained=True)
        N = z3.Int("n_inner_step")
        ctx.assume(N >= 1)
        tol = z3.Real("tol")
        integ = w.new(cls, step_size=positive_step(ctx), n_inner_step=N, projection_solver=w.projection_solver_stub(),
                      reverse_check_norm=w.norm_stub(), reverse_check_tol=tol)
        st = w.make_state()
        t = z3.Real("t")
        ctx.ghost["world"], ctx.ghost["state"] = w, st
        mark = {}

        def on_body(ex):
            mark["start"] = len(w.trace)
            mark["snap"] = snapshot(w, st)
            mark["norms"] = len(w.norm_calls)
        it.loop_specs[(q, 0)] = LoopSpec(inv, havoc, on_body=on_body)
        raised = None
        try:
            try:
                w.ex.call(w.ex.getattr(integ, "_step_b"), [st, t], {})
            except PyRaise as pr:
                raised = pr.exc
                if "start" not in mark:
                    return
            except PathEnd:
                pass
            else:
                if "start" not in mark:
                    ctx.run.ob(tag + "/loop-exit", core.DISCHARGED, "pyvc", text="normal exit only after all inner iterations")
                    return
        finally:
            del it.loop_specs[(q, 0)]
        evs = w.trace[mark["start"]:]
        kinds = [(e[0], "step" if (len(e) > 1 and e[1] is st) else "other") for e in evs if e[0] in
                 ("h2_flow", "projection_solver", "project_onto_cotangent_space", "norm")]
        if raised is not None:
            ok = exc_is(None, raised, "IntegratorError", it)
            ctx.run.ob(tag + "/raises-only-integrator-errors", core.DISCHARGED if ok else core.FAILED, "pyvc", detail="" if ok else exc_name(raised))
            if exc_is(None, raised, "NonReversibleStepError", it) and len(w.norm_calls) > mark["norms"]:
                ctx.prove(tag + "/raises-only-when-check-fails", w.norm_calls[-1][1] > tol)
            return
        want = [("h2_flow", "step"), ("projection_solver", "step"), ("project_onto_cotangent_space", "step"),
                ("h2_flow", "other"), ("projection_solver", "other"), ("norm", "other")]
        got = [(k, who) for k, who in kinds]
        ok = got == want
        ctx.run.ob(tag + "/inner-step-sequence", core.DISCHARGED if ok else core.FAILED, "pyvc", detail="" if ok else f"{got}",
                   text="inner step: h2 retraction, solver, cotangent projection, then reverse retraction on a copy and the norm check")
        if not ok:
            return
        fwd = [e for e in evs if e[0] == "h2_flow" and e[1] is st][0]
        bwd = [e for e in evs if e[0] == "h2_flow" and e[1] is not st][0]
        ctx.prove(tag + "/reverse-retraction-uses-negated-time", to_real(bwd[2]) == -to_real(fwd[2]))
        ps = [e for e in evs if e[0] == "projection_solver"]
        # forward: (state, state_prev) with state_prev a copy holding the pre-step values
        prev = ps[0][2]
        ctx.prove(tag + "/forward-solver-previous-state-is-pre-step-copy",
                  z3.And(z3.BoolVal(prev is not st), vec_eq(w.var(prev, "pos"), mark["snap"]["pos"]), vec_eq(w.var(prev, "mom"), mark["snap"]["mom"])))
        # backward: retraction of a copy of the *new* state, with the new state as previous state
        ok_b = ps[1][1] is not st and ps[1][2] is st
        ctx.run.ob(tag + "/reverse-solver-anchored-at-new-state", core.DISCHARGED if ok_b else core.FAILED, "pyvc",
                   detail="" if ok_b else "reverse retraction not anchored at the new state / not on a copy")
        diff, r = w.norm_calls[-1]
        back_pos = w.var(ps[1][1], "pos")
        ctx.prove(tag + "/check-compares-with-initial-position", vec_eq(diff, back_pos._pv_binop(w.ex, "__sub__", mark["snap"]["pos"])),
                  text="norm argument == reverse-integrated position - position before the inner step")
        ctx.prove(tag + "/normal-iteration-implies-check-passed", r <= tol)
    it.explore(h, "constrained.inner")


def check_substep_errors_propagate(run, it):
    """`or fails loudly`: an integrator error raised by any sub-step of `_step` leaves `_step` as that very exception and no
    further sub-step runs afterwards -- in particular `_step` never handles a failed solve by switching to another map (which
    map is applied would then depend on where the solver happens to converge, and the reverse step need not make the same
    choice).  The sub-steps are callee contracts that may raise at any call (decision explored for every call position)."""
    from ..pyvc import Native
    cases = [("ImplicitLeapfrogIntegrator", list(c06.LEAP_LABEL), {}), ("ImplicitMidpointIntegrator", ["_step_a_fwd", "_step_a_adj"], {}),
             ("ConstrainedLeapfrogIntegrator", ["_step_a", "_step_b"], {"constrained": True}),
             # one level down: the retractions (forward and reverse-check) and cotangent projections called by _step_b itself
             ("ConstrainedLeapfrogIntegrator", ["_h2_flow_retraction_onto_manifold", "_project_onto_cotangent_space"], {"constrained": True, "entry": "_step_b"})]
    errs = ["ConvergenceError", "NonReversibleStepError"]
    MAXC = 8

    def h(ctx):
        cls, names, wkw = cases[ctx.choose(len(cases), "class")]
        wkw = dict(wkw)
        entry = wkw.pop("entry", "_step")
        err = errs[ctx.choose(len(errs), "error")]
        fail_at = ctx.choose(MAXC, "failing-call")
        w = World(it, ctx, **wkw)
        kw = {"step_size": positive_step(ctx)}
        if wkw:
            kw.update(projection_solver=w.projection_solver_stub(), n_inner_step=1, reverse_check_norm=w.norm_stub(), reverse_check_tol=z3.Real("tol"))
        integ = w.new(cls, **kw)
        st = w.make_state()
        t = z3.Real("t")
        calls, box = [], {}

        def rec(ex, self_, *a, _n=None):
            calls.append(_n)
            if len(calls) - 1 == fail_at:
                ecls = ex.interp.module("mici.errors").resolve(err, ex.ctx)
                box["exc"] = ex.call(ecls, ["injected"], {})
                box["at"] = len(calls)
                raise PyRaise(box["exc"])
        for n_ in names:
            it.call_contracts[f"{cls}.{n_}"] = Native(lambda ex, self_, *a, _n=n_: rec(ex, self_, *a, _n=_n), n_)
        tag = P + f"{cls}.{entry}/sub-step-error-propagates"
        try:
            try:
                w.ex.call(w.ex.getattr(integ, entry), [st, t], {})
                raised = None
            except PyRaise as pr:
                raised = pr.exc
        finally:
            for n_ in names:
                del it.call_contracts[f"{cls}.{n_}"]
        if "exc" not in box:
            return  # fewer sub-step calls than the chosen position: nothing to show on this path
        ok = raised is box["exc"] and len(calls) == box["at"]
        detail = "" if ok else (f"{err} raised by sub-step call #{box['at']} ({calls[box['at'] - 1]}) " +
                                ("was handled inside _step" if raised is None else f"left _step as {exc_name(raised)}" if raised is not box["exc"] else "propagated") +
                                f"; sub-step calls made: {calls}")
        ctx.run.ob(tag, core.DISCHARGED if ok else core.FAILED, "pyvc", detail=detail, witness=None if ok else {"class": cls, "error": err, "failing_call": box["at"]},
                   text="an IntegratorError raised by a sub-step leaves _step unchanged and no further sub-step is attempted (no silent fallback to another map)")
    it.explore(h, "substep-errors", roots=[[c, e] for c in range(4) for e in range(len(errs))])
    for cls, names, _ in cases:
        run.function(f"mici.integrators.{cls}._step (error propagation)")


def lemma_palindrome(run):
    """Lemma `rev`: for group actions phi_k (phi_k(s) o phi_k(-s) = id) composed in a palindromic order with
    palindromic times, running the composition with -t after t is the identity.  Telescoping step, checked in z3
    over an abstract state space: inner-most pair cancels, leaving a shorter palindrome (induction on length)."""
    import time
    t0 = time.time()
    S = z3.DeclareSort("State")
    phi = z3.Function("phi", z3.IntSort(), z3.RealSort(), S, S)  # flow label, time, state
    x = z3.Const("x", S)
    k = z3.Int("k")
    s = z3.Real("s")
    group = z3.ForAll([k, s, x], phi(k, -s, phi(k, s, x)) == x)
    # inductive step: if Rest(-t) o Rest(t) = id (Rest an arbitrary map pair) then phi_k(-c t) o Rest(-t) o Rest(t) o phi_k(c t) = id
    rest = z3.Function("rest", S, S)
    rest_back = z3.Function("rest_back", S, S)
    hyp = z3.ForAll([x], rest_back(rest(x)) == x)
    c, t = z3.Reals("c t")
    goal = phi(k, -(c * t), rest_back(rest(phi(k, c * t, x)))) == x
    sol = z3.Solver()
    sol.set("timeout", 20000)
    sol.add(group, hyp, z3.Not(goal))
    r = sol.check()
    run.ob("lemma/palindromic-composition-of-group-actions-is-reversible", core.DISCHARGED if r == z3.unsat else core.UNKNOWN, "z3",
           time.time() - t0, text="induction step: phi_k(-ct) o R' o R o phi_k(ct) = id given R' o R = id and the group law; the time-reversed run of a "
           "palindromic trace applies the flows in the same order with negated times, so the innermost pair is adjacent")


def run(run_, tier):
    it = make_interp(run_)
    run_.assume("A8: implicit equations have a locally unique solution (the run-time reversibility check guards it)")
    run_.assume("A1: reals for floats; 'up to solver tolerance' is not quantified")
    run_.trust("component flows are group actions in time (C07's obligation); FixedPointSolver / ProjectionSolver contracts (C12/C04)")
    for pref, kind in (("", "all"),):
        run_.replay_for(P, _replay("all"))
    check_step_frame(run_, it)
    c06.check_leapfrog(run_, it)
    c06.check_composition(run_, it, tier)
    c06.check_implicit_leapfrog(run_, it)
    c06.check_implicit_midpoint(run_, it)
    check_leapfrog_pairs(run_, it)
    check_midpoint_pair(run_, it)
    check_constrained_inner(run_, it)
    check_substep_errors_propagate(run_, it)
    lemma_palindrome(run_)
    # the integrator-level argument treats the system's derivative methods as functions of the state: a method that returns a different value on a
    # second evaluation at the same state (e.g. by accumulating in place into a cached array shared with copies) breaks reversal and writes the input state
    from . import symla_systems
    symla_systems.run_cases(run_, "c05_cases", keep=lambda oid: any(k in oid for k in ("stable-under-repeated-evaluation", "grad-cache-not-corrupted")))
    # the explicit schemes reverse because each component flow is a one-parameter GROUP in time (flow(-t) o flow(t) = id, flow(s) o flow(t) = flow(s+t)):
    # C07's obligations on the real h1_flow / h2_flow of every system and metric type, imported (a flow that is merely energy-like but not a group --
    # e.g. a rotation with mismatched amplitude factors -- composes to a non-reversible step that no run-time check guards)
    symla_systems.run_cases(run_, "c07_cases", keep=lambda oid: any(k in oid for k in ("h2_flow-group-law", "h2_flow-inverse", "h1_flow-kicks", "h1_flow-leaves", "h2_flow-leaves-momentum", "h2_flow-drifts")))
    from . import generic_systems
    generic_systems.run_generic_systems(run_, keep=lambda oid: any(k in oid for k in ("h2_flow-group-law", "h2_flow-inverse")))
    # ... and as functions of the state *for the system that is stepping*: the state cache is transparent and keyed per (system object, method)
    from . import premises
    premises.cache_protocol(run_)
    run_.extraction_drops.extend(sorted(it.dropped))
    run_.notes.append(f"paths explored: {it.paths}; solver seconds {it.solver_seconds:.2f}")
