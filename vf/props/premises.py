"""Premises shared by several properties, imported as obligations (not assumed): a property about `integrator.step` or about the
system's value / derivative methods is stated over the real methods *as reached through the state cache*, so the cache contract
(C09) and the gradient contracts of the position-dependent metric classes (C11) are part of what each of those checks decides.
A change that breaks one of these premises is then reported by every check that rests on it, with the premise's own obligation id."""
from __future__ import annotations

import json


def cache_protocol(run_):
    """C09 layer 1: the real states.py (decorators, ChainState, copy, pickle) over the complete small configuration universe"""
    from ..pyvc import Interp
    from . import c09
    from .integ_model import install_std
    it = Interp(run_)
    install_std(it)
    run_.replay_for("states.", lambda w: {"script": "c09_cache.py", "args": [json.dumps(w or {})]})
    c09.protocol(run_, it, "C09")
    run_.extraction_drops.extend(sorted(it.dropped))


def softabs_gradients(run_):
    """C11: gradient contracts of the SoftAbs metric class (symbolic softabs_coeff, distinct and repeated eigenvalues) -- what
    SoftAbsRiemannianMetricSystem.dh1_dpos / dh2_dpos are built from"""
    from . import c11
    run_.replay_for("matrices.SoftAbs", lambda w: {"script": "c11_gradients.py", "args": [json.dumps(w or {})], "timeout": 600})
    c11.run_obligations(run_, keep=lambda oid: "SoftAbs" in oid)
