"""C11 -- differentiable matrices report the true parameter gradients.

Engine B: for every DifferentiableMatrix class / option the real grad_log_abs_det and grad_quadratic_form_inv are executed on
exact symbolic parameters and compared with the *symbolic derivative* (sympy.diff) of log|det view| and v^T view^-1 v:
   < grad , d(theta)/dp >  ==  d/dp f(view(theta(p)))      for every free symbol p of the parameter theta,
plus the structural clauses (result has the parameter's shape; entries outside a triangular parameter's triangle are zero;
symmetric for symmetric-array parameters; tuple arity for block matrices).  When theta's entries are independent symbols
this is the entrywise gradient; for symmetric-array parameters the directions d(theta)/dp span all symmetric directions.
Includes parameter values with repeated eigenvalues (SoftAbs at H = lambda I).
"""
from __future__ import annotations

import json
import multiprocessing as mp
import time
import traceback

import numpy as np
import sympy as sp

from .. import core
from .. import symla
from ..symla import SE, Undecided, compare, dense_det, dense_inv, eye, mat, orth, posvec, register_eigh, shimmed, sym, to_obj, tri, vec
from .c10 import load


def _expr_array(a):
    a = to_obj(np.asarray(a, dtype=object))
    return a


def ddp(arr, p):
    arr = to_obj(np.asarray(arr, dtype=object))
    out = np.empty(arr.shape, dtype=object)
    for idx in np.ndindex(arr.shape):
        out[idx] = SE(sp.diff(arr[idx].e, p))
    return out


def inner(g, d):
    g, d = to_obj(np.asarray(g, dtype=object)), to_obj(np.asarray(d, dtype=object))
    if g.shape != d.shape:
        raise ValueError(f"gradient shape {g.shape} differs from parameter shape {d.shape}")
    return SE(sum((g[i].e * d[i].e for i in np.ndindex(d.shape)), sp.Integer(0)))


def cases(M):
    """-> list of (label, matrix object, view array, parameter array theta, structure dict)"""
    out = []
    s = sym("s", positive=True)
    sn = sym("s", negative=True)
    out.append(("ScaledIdentity s>0 n=2", M.ScaledIdentityMatrix(s, 2), s * eye(2), np.array(s), {}))
    out.append(("ScaledIdentity s<0 n=2", M.ScaledIdentityMatrix(sn, 2), sn * eye(2), np.array(sn), {}))
    out.append(("PositiveScaledIdentity n=3", M.PositiveScaledIdentityMatrix(s, 3), s * eye(3), np.array(s), {}))
    d = vec("d", 2)
    dp = posvec("d", 2)
    out.append(("Diagonal", M.DiagonalMatrix(d), np.diag(d), d, {}))
    out.append(("PositiveDiagonal", M.PositiveDiagonalMatrix(dp), np.diag(dp), dp, {}))
    for lower in (True, False):
        for sign in (1, -1):
            L = tri("l", 2, lower=lower)
            out.append((f"TriangularFactoredDefinite lower={lower} sign={sign}", M.TriangularFactoredDefiniteMatrix(L, sign=sign, factor_is_lower=lower),
                        sign * (L @ L.T), L, {"triangle": "lower" if lower else "upper"}))
    # a factor with diagonal entries of either sign (any non-singular triangular factor defines sign * F F^T; log_abs_det takes absolute values)
    Lm = tri("l", 2)
    Lm[1, 1] = -1 * Lm[1, 1]
    out.append(("TriangularFactoredDefinite lower, negative diagonal entry", M.TriangularFactoredDefiniteMatrix(Lm, sign=1, factor_is_lower=True), Lm @ Lm.T, Lm, {"triangle": "lower"}))
    out.append(("TriangularFactoredPositiveDefinite lower, negative diagonal entry", M.TriangularFactoredPositiveDefiniteMatrix(Lm), Lm @ Lm.T, Lm, {"triangle": "lower"}))
    L = tri("l", 2)
    out.append(("TriangularFactoredDefinite TriangularMatrix-factor (no flag)", M.TriangularFactoredDefiniteMatrix(M.TriangularMatrix(L, lower=True), sign=1),
                L @ L.T, L, {"triangle": "lower"}))
    Lu = tri("u", 2, lower=False)
    out.append(("TriangularFactoredDefinite upper TriangularMatrix-factor", M.TriangularFactoredDefiniteMatrix(M.TriangularMatrix(Lu, lower=False), sign=-1),
                -1 * (Lu @ Lu.T), Lu, {"triangle": "upper"}))
    out.append(("TriangularFactoredPositiveDefinite", M.TriangularFactoredPositiveDefiniteMatrix(L), L @ L.T, L, {"triangle": "lower"}))
    out.append(("TriangularFactoredPositiveDefinite upper", M.TriangularFactoredPositiveDefiniteMatrix(Lu, factor_is_lower=False), Lu @ Lu.T, Lu, {"triangle": "upper"}))
    A = L @ L.T
    out.append(("DensePositiveDefinite", M.DensePositiveDefiniteMatrix(A), A, A, {"symmetric": True}))
    out.append(("DenseDefinite negative", M.DenseDefiniteMatrix(-1 * A, is_posdef=False), -1 * A, -1 * A, {"symmetric": True}))
    # the library's convention matrix = factor @ factor.T for EITHER orientation of the factor: an upper factor supplied by the caller, and the upper
    # inverse-triangular factor the library itself attaches to the inverse of a dense definite matrix (gradient requested before anything else)
    Au = Lu @ Lu.T
    out.append(("DensePositiveDefinite upper factor given", M.DensePositiveDefiniteMatrix(Au, factor=M.TriangularMatrix(Lu, lower=False)), Au, Au, {"symmetric": True}))
    Ai = dense_inv(to_obj(A))
    out.append(("DensePositiveDefinite inverse object", M.DensePositiveDefiniteMatrix(A).inv, Ai, Ai, {"symmetric": True}))
    R = mat("r", 1, 2)
    pd = posvec("w", 2)
    out.append(("DensePositiveDefiniteProduct identity inner", M.DensePositiveDefiniteProductMatrix(R), R @ R.T, R, {}))
    out.append(("DensePositiveDefiniteProduct diagonal inner", M.DensePositiveDefiniteProductMatrix(R, M.PositiveDiagonalMatrix(pd)), R @ np.diag(pd) @ R.T, R, {}))
    Q, lam = orth("q", 2), vec("w", 2)
    c = sym("c", positive=True)
    H = Q @ np.diag(lam) @ Q.T
    register_eigh(H, lam, Q)
    soft = np.array([SE(x.e / sp.tanh(x.e * c.e)) for x in lam], dtype=object)
    out.append(("SoftAbs distinct eigenvalues", M.SoftAbsRegularizedPositiveDefiniteMatrix(H, c), Q @ np.diag(soft) @ Q.T, H, {"symmetric": True}))
    # a spectrum symmetric about zero (Hessians of bilinear terms, [[0, B], [B^T, 0]]): the UNREGULARISED eigenvalues w and -w are distinct although their
    # softabs values coincide (softabs is even): the divided difference between them is 0, not softabs'(w)
    lam_pm = np.array([lam[0], -1 * lam[0]], dtype=object)
    Hpm = Q @ np.diag(lam_pm) @ Q.T
    register_eigh(Hpm, lam_pm, Q)
    soft_pm = np.array([SE(x.e / sp.tanh(x.e * c.e)) for x in lam_pm], dtype=object)
    out.append(("SoftAbs eigenvalues w and -w", M.SoftAbsRegularizedPositiveDefiniteMatrix(Hpm, c), Q @ np.diag(soft_pm) @ Q.T, Hpm, {"symmetric": True}))
    F = mat("f", 2, 1)
    for sign in (1, -1):
        out.append((f"PositiveDefiniteLowRankUpdate sign={sign}", M.PositiveDefiniteLowRankUpdateMatrix(M.DenseRectangularMatrix(F), M.PositiveDiagonalMatrix(dp), sign=sign),
                    np.diag(dp) + sign * (F @ F.T), F, {}))
    k = sym("k", positive=True)
    out.append(("PositiveDefiniteLowRankUpdate scalar inner", M.PositiveDefiniteLowRankUpdateMatrix(M.DenseRectangularMatrix(F), M.PositiveDiagonalMatrix(dp), M.PositiveScaledIdentityMatrix(k, 1)),
                np.diag(dp) + k * (F @ F.T), F, {}))
    return out


def one_case(M, label, X, V, theta, struct, C):
    tag = f"matrices.{type(X).__name__}[{label}]"
    V = to_obj(V)
    theta = to_obj(np.asarray(theta, dtype=object))
    n = V.shape[0]
    v = vec("x", n)
    f_logdet = SE(sp.log(sp.Abs(dense_det(V).e)))
    Vinv = dense_inv(V)
    f_quad = SE((v @ Vinv @ v).e)
    syms = sorted({s_ for idx in np.ndindex(theta.shape) for s_ in theta[idx].e.free_symbols} if theta.shape else theta[()].e.free_symbols, key=lambda s_: s_.name)

    def grad_checks(kind, get, f):
        t0 = time.time()
        try:
            g = get()
            g = to_obj(np.asarray(g, dtype=object))
        except Undecided as e:
            C.append((tag + f"/{kind}", core.UNKNOWN, "symla", time.time() - t0, f"undecided: {e}", None))
            return
        except Exception as e:  # noqa: BLE001
            from ..symla import is_artefact
            C.append((tag + f"/{kind}", core.UNKNOWN if is_artefact(e) else core.FAILED, "symla", time.time() - t0, f"{type(e).__name__}: {e}", None))
            return
        shape_ok = g.shape == theta.shape
        C.append((tag + f"/{kind}-has-parameter-shape", core.DISCHARGED if shape_ok else core.FAILED, "symla", 0.0,
                  "" if shape_ok else f"gradient shape {g.shape}, parameter shape {theta.shape}", None))
        if not shape_ok:
            return
        bad = [str(x.e) for x in g.flat if x.e.has(sp.nan, sp.zoo, sp.oo)]
        if bad:
            C.append((tag + f"/{kind}", core.FAILED, "symla", time.time() - t0, f"gradient contains non-finite entries {bad[:2]} (0/0 for coincident eigenvalues)", None))
            return
        for p in syms:
            t1 = time.time()
            st, be, detail, wit = compare(inner(g, ddp(theta, p)), SE(sp.diff(f.e, p)))
            if st == "differs":
                C.append((tag + f"/{kind}", core.FAILED, "symla:" + be, time.time() - t1, f"d/d{p}: <grad, dtheta/d{p}> != d f/d{p}: {detail}", wit))
            elif st == "numeric-only":
                C.append((tag + f"/{kind}", "bounded-ok", "symla:numeric-only", time.time() - t1, f"d/d{p}", None))
            else:
                C.append((tag + f"/{kind}", core.DISCHARGED, "symla:" + be, time.time() - t1, "", None))
        if struct.get("triangle") and g.ndim == 2:
            lower = struct["triangle"] == "lower"
            off = [g[i, j] for i in range(n) for j in range(n) if (j > i if lower else i > j)]
            z = all(compare(x, SE(0))[0] != "differs" for x in off)
            C.append((tag + f"/{kind}-zero-outside-the-parameter-triangle", core.DISCHARGED if z else core.FAILED, "symla", 0.0,
                      "" if z else f"non-zero entry outside the {struct['triangle']} triangle of the factor parameter", None))
            # inside the triangle the parameter entries are independent symbols: entrywise gradient
        if struct.get("symmetric") and g.ndim == 2:
            st, be, detail, wit = compare(g, g.T)
            C.append((tag + f"/{kind}-symmetric", core.DISCHARGED if st != "differs" else core.FAILED, "symla", 0.0, detail, wit))
    grad_checks("grad_log_abs_det", lambda: X.grad_log_abs_det, f_logdet)
    grad_checks("grad_quadratic_form_inv", lambda: X.grad_quadratic_form_inv(v), f_quad)


def softabs_repeated(M, C):
    """H = lambda * I (both eigenvalues equal): view = softabs(lambda) I; the true gradients follow from the isotropic limit."""
    tag = "matrices.SoftAbsRegularizedPositiveDefiniteMatrix[repeated eigenvalue]"
    lam = sym("w", positive=True)
    c = sym("c", positive=True)
    H = lam * eye(2)
    register_eigh(H, np.array([lam, lam], dtype=object), eye(2))
    v = vec("x", 2)
    t0 = time.time()
    try:
        X = M.SoftAbsRegularizedPositiveDefiniteMatrix(H, c)
        g = to_obj(np.asarray(X.grad_quadratic_form_inv(v), dtype=object))
        s = lam.e / sp.tanh(lam.e * c.e)
        ds = sp.diff(s, lam.e)
        # f(H) = v^T softabs(H)^-1 v ; for H = lam I + eps E:  df = -(softabs'(lam)/softabs(lam)^2) v^T E v  (isotropic point)
        want = np.array([[SE(-ds / s ** 2 * v[i].e * v[j].e) for j in range(2)] for i in range(2)], dtype=object)
        bad = [str(x.e) for x in g.flat if x.e.has(sp.nan, sp.zoo, sp.oo)]
        if bad:
            C.append((tag + "/grad_quadratic_form_inv", core.FAILED, "symla", time.time() - t0,
                      f"NaN / infinite entries {bad[:2]}: 0/0 in the divided-difference matrix when two eigenvalues coincide (e.g. Hessian 2*I of an isotropic Gaussian)", None))
        else:
            st, be, detail, wit = compare(g, want)
            C.append((tag + "/grad_quadratic_form_inv", core.DISCHARGED if st != "differs" else core.FAILED, "symla:" + be, time.time() - t0, detail, wit))
        g2 = to_obj(np.asarray(X.grad_log_abs_det, dtype=object))
        want2 = (SE(ds / s)) * eye(2)
        st, be, detail, wit = compare(g2, want2)
        C.append((tag + "/grad_log_abs_det", core.DISCHARGED if st != "differs" else core.FAILED, "symla:" + be, time.time() - t0, detail, wit))
    except Undecided as e:
        C.append((tag + "/grad_quadratic_form_inv", core.UNKNOWN, "symla", time.time() - t0, f"undecided: {e}", None))
    except Exception as e:  # noqa: BLE001
        from ..symla import is_artefact
        C.append((tag + "/grad_quadratic_form_inv", core.UNKNOWN if is_artefact(e) else core.FAILED, "symla", time.time() - t0, f"{type(e).__name__}: {e}", None))


def block_diagonal(M, C):
    tag = "matrices.PositiveDefiniteBlockDiagonalMatrix"
    dp = posvec("d", 2)
    s = sym("s", positive=True)
    L = tri("l", 2)
    X = M.PositiveDefiniteBlockDiagonalMatrix((M.PositiveDiagonalMatrix(dp), M.PositiveScaledIdentityMatrix(s, 1), M.TriangularFactoredPositiveDefiniteMatrix(L)))
    v = vec("x", 5)
    parts = [v[:2], v[2:3], v[3:]]
    blocks = [M.PositiveDiagonalMatrix(dp), M.PositiveScaledIdentityMatrix(s, 1), M.TriangularFactoredPositiveDefiniteMatrix(L)]
    try:
        g1, g2 = X.grad_log_abs_det, X.grad_quadratic_form_inv(v)
        ok = isinstance(g1, tuple) and isinstance(g2, tuple) and len(g1) == len(g2) == 3
        C.append((tag + "/tuple-of-block-gradients", core.DISCHARGED if ok else core.FAILED, "symla", 0.0, "" if ok else f"{type(g1).__name__}/{type(g2).__name__}", None))
        if ok:
            for k, (b, part) in enumerate(zip(blocks, parts)):
                for name, got, want in (("grad_log_abs_det", g1[k], b.grad_log_abs_det), ("grad_quadratic_form_inv", g2[k], b.grad_quadratic_form_inv(part))):
                    st, be, detail, wit = compare(got, want)
                    C.append((tag + f"/block-{name}-uses-own-block-and-vector-part", core.DISCHARGED if st != "differs" else core.FAILED, "symla:" + be, 0.0, detail, wit))
    except Exception as e:  # noqa: BLE001
        C.append((tag + "/tuple-of-block-gradients", core.FAILED, "symla", 0.0, f"{type(e).__name__}: {e}", None))
    # blocks that are EQUAL AS MATRICES (== / hash) but built from different parameters: R R^T == (-R)(-R)^T, gradients with respect to R and -R differ in sign
    tage = tag + "[two blocks equal as matrices, parameters R and -R]"
    try:
        R = mat("r", 1, 2)
        be = [M.DensePositiveDefiniteProductMatrix(R), M.DensePositiveDefiniteProductMatrix(-1 * R)]
        Y = M.PositiveDefiniteBlockDiagonalMatrix(tuple(be))
        w = vec("y", 2)
        e1, e2 = Y.grad_log_abs_det, Y.grad_quadratic_form_inv(w)
        for k, b in enumerate(be):
            fresh = M.DensePositiveDefiniteProductMatrix(R if k == 0 else -1 * R)
            for name, got, want in (("grad_log_abs_det", e1[k], fresh.grad_log_abs_det), ("grad_quadratic_form_inv", e2[k], fresh.grad_quadratic_form_inv(w[k:k + 1]))):
                st, be_, detail, wit = compare(got, want)
                C.append((tage + f"/block-{k}-{name}-is-with-respect-to-its-own-parameter", core.DISCHARGED if st != "differs" else core.FAILED, "symla:" + be_, 0.0, detail, wit))
    except Exception as e:  # noqa: BLE001
        from ..symla import is_artefact
        C.append((tage + "/constructs", core.UNKNOWN if is_artefact(e) else core.FAILED, "symla", 0.0, f"{type(e).__name__}: {e}", None))
    # "gradient with the structure of the parameter": a block that is itself block diagonal has a nested parameter (a, (b, c))
    tagn = tag + "[nested block]"
    try:
        inner = M.PositiveDefiniteBlockDiagonalMatrix((M.PositiveScaledIdentityMatrix(s, 1), M.TriangularFactoredPositiveDefiniteMatrix(L)))
        Z = M.PositiveDefiniteBlockDiagonalMatrix((M.PositiveDiagonalMatrix(dp), inner))
        h1, h2 = Z.grad_log_abs_det, Z.grad_quadratic_form_inv(v)

        def shape_of(g):
            return tuple(shape_of(x) for x in g) if isinstance(g, tuple) else "leaf"
        want_shape = ("leaf", ("leaf", "leaf"))
        ok = shape_of(h1) == want_shape and shape_of(h2) == want_shape
        C.append((tagn + "/gradient-has-the-nested-structure-of-the-parameter", core.DISCHARGED if ok else core.FAILED, "symla", 0.0,
                  "" if ok else f"parameter structure (a, (b, c)); grad_log_abs_det has {shape_of(h1)}, grad_quadratic_form_inv has {shape_of(h2)}", None))
        if ok:
            flat = [(h1[0], h2[0], blocks[0], parts[0]), (h1[1][0], h2[1][0], blocks[1], parts[1]), (h1[1][1], h2[1][1], blocks[2], parts[2])]
            for g_l, g_q, b, part in flat:
                for name, got, want in (("grad_log_abs_det", g_l, b.grad_log_abs_det), ("grad_quadratic_form_inv", g_q, b.grad_quadratic_form_inv(part))):
                    st, be, detail, wit = compare(got, want)
                    C.append((tagn + f"/block-{name}-uses-own-block-and-vector-part", core.DISCHARGED if st != "differs" else core.FAILED, "symla:" + be, 0.0, detail, wit))
    except Exception as e:  # noqa: BLE001
        C.append((tagn + "/gradient-has-the-nested-structure-of-the-parameter", core.FAILED, "symla", 0.0, f"{type(e).__name__}: {e}", None))
    Y = M.PositiveDefiniteBlockDiagonalMatrix((M.PositiveDiagonalMatrix(dp), M.EigendecomposedPositiveDefiniteMatrix(eye(1), posvec("e", 1))))
    try:
        Y.grad_log_abs_det
        C.append((tag + "/non-differentiable-block-is-reported", core.FAILED, "symla", 0.0, "no error although a block is not differentiable", None))
    except RuntimeError:
        C.append((tag + "/non-differentiable-block-is-reported", core.DISCHARGED, "symla", 0.0, "", None))


def _work(k):
    M = load()
    C = []
    try:
        with shimmed(M):
            cs = cases(M)
            if k < len(cs):
                # methods that branch on symbolic scalars are re-executed once per decision vector (path constraints restrict the sample points)
                def go(path, k=k):
                    lab, X, V, theta, struct = cases(M)[k]
                    C2 = []
                    one_case(M, lab, X, V, theta, struct, C2)
                    C.extend(C2)
                symla.run_paths(go)
            elif k == len(cs):
                symla.run_paths(lambda path: softabs_repeated(M, C))
            else:
                block_diagonal(M, C)
    except Exception:  # noqa: BLE001
        C.append((f"matrices.case{k}/harness", core.ERROR, "symla", 0.0, traceback.format_exc()[-1200:], None))
    return C


def run(run_, tier):
    from .. import symla
    run_.assume("A1 reals; gradients checked at fixed shapes (dimension 2, rank-1 updates; scalar/diagonal/triangular/dense/tuple structures), for all real parameter values of that shape")
    for k, v in symla.SHIM_TABLE.items():
        run_.trust(f"shim {k}: {v}")
    run_.trust("sympy differentiation / simplification")
    for c in ("ScaledIdentityMatrix", "DiagonalMatrix", "TriangularFactoredDefiniteMatrix", "DenseDefiniteMatrix", "DensePositiveDefiniteProductMatrix",
              "SoftAbsRegularizedPositiveDefiniteMatrix", "PositiveDefiniteBlockDiagonalMatrix", "PositiveDefiniteLowRankUpdateMatrix"):
        run_.function(f"mici.matrices.{c}.grad_log_abs_det")
        run_.function(f"mici.matrices.{c}.grad_quadratic_form_inv")
    run_.replay_for("", lambda w: {"script": "c11_gradients.py", "args": [json.dumps(w or {})], "timeout": 600})
    run_obligations(run_)
    dtype_independence(run_)


def dtype_independence(run_):
    """BOUNDED native stand-in (Engine B computes over the reals and cannot see dtypes): results depend on the values of the
    parameter arrays, not on their dtype -- integer-valued parameters stored as int64 and as float64 give the same gradients,
    inverse products, log-determinant and array, for one instance per differentiable class."""
    import os
    import subprocess
    script = os.path.join(core.VERIF, "replays", "c11_dtype.py")
    try:
        p = subprocess.run([core.NATIVE_PY, script, "json"], capture_output=True, text=True, timeout=300, env=dict(os.environ, PYTHONPATH=core.SRC))
        res = json.loads(p.stdout.strip().splitlines()[-1])
    except Exception as e:  # noqa: BLE001
        run_.ob("matrices/results-independent-of-parameter-dtype", core.ERROR, "native-exec", detail=f"{type(e).__name__}: {e}", klass="bounded")
        return
    for name, diffs in res.items():
        run_.ob(f"matrices.{name}/results-independent-of-parameter-dtype", core.DISCHARGED if not diffs else core.FAILED, "native-exec", klass="bounded",
                detail="" if not diffs else "; ".join(f"{k}: {v}" for k, v in diffs.items())[:600], witness=diffs or None,
                replay=(lambda w: {"script": "c11_dtype.py", "args": ["check"], "timeout": 300}) if diffs else None,
                text="bounded (one integer-valued instance per class): int64 and float64 parameter arrays of equal values give equal results; a reported gradient is not "
                     "changed by later evaluations on the same object (no reused output buffer)")
    run_.bounded.append({"id": "C11/matrices.*/results-independent-of-parameter-dtype", "detail": "one integer-valued instance per differentiable class, native execution"})


def run_obligations(run_, keep=None):
    """all gradient obligations (or the subset selected by keep(oid)); other properties import subsets (C05: SoftAbs metric class)"""
    M = load()
    with shimmed(M):
        n = len(cases(M))
    ctxm = mp.get_context("fork")
    with ctxm.Pool(16) as pool:
        results = pool.map(_work, list(range(n + 2)), chunksize=1)
    for obs in results:
        for oid, st, be, secs, detail, wit in obs:
            if keep is not None and not keep(oid):
                continue
            if st == "bounded-ok":
                run_.ob(oid, core.DISCHARGED, be, secs, detail=detail, klass="bounded")
            else:
                run_.ob(oid, st, be, secs, detail=detail, witness=wit)
