"""Engine-A harness over mici.transitions (C01; the containment part is reused by C12).

Orbit model (contract of the integrator, justified by C02/A6): restricted to one orbit the integrator is a bijection on states
indexed by integers -- `integrator.step(state)` returns a NEW state object with index `idx + dir` and the same `dir`, or raises an
IntegratorError.  `system.h(state)` is an uninterpreted function H(idx) of the index (optionally NaN), momenta an uninterpreted
P(idx).  Target weights, momentum sums and acceptance-probability sums over index intervals are *additive functionals*
(uninterpreted F(lo, hi) with F(i,i) = f(i) and F(lo,hi) = F(lo,mid) + F(mid+1,hi) instantiated where the code merges), so one
proof covers every system, step size, orbit and tree depth.

Random draws: `rng.uniform()` returns a draw token; comparing it with a probability p is a probabilistic choice (McIver-Morgan):
the path forks, each side records its probability factor (p / 1-p) in the ghost list `prob`, and the side obligation 0 <= p <= 1 is
generated.  A proved statement about (result, probability) on every path is a statement about the exact law of the result.
"""
from __future__ import annotations

import z3

from .. import core, mathlib
from ..models import Opaque
from ..pyvc import (INF, Bound, Exec, Func, Infeasible, Interp, LoopSpec, Namespace, Native, Obj, OutsideSubset, PathEnd, PyRaise,
                    exc_name, is_z3, lift, make_exc, to_real)
from .integ_model import install_std

TRANS = "mici.transitions"
P = "transitions."

H = z3.Function("H", z3.IntSort(), z3.RealSort())  # Hamiltonian along the orbit
HNAN = z3.Function("H_is_nan", z3.IntSort(), z3.BoolSort())
PM = z3.Function("P_mom", z3.IntSort(), z3.RealSort())  # momentum (one abstract coordinate)
ERR = z3.Function("step_fails", z3.IntSort(), z3.IntSort(), z3.BoolSort())  # step from idx in direction d raises


class UDraw:
    """rng.uniform() result: only usable in a comparison `u < p` (probabilistic choice)."""

    def __init__(self, w, k):
        self.w, self.k = w, k

    def _pv_compare(self, ex, op, other):
        if op != "__lt__":
            raise OutsideSubset(f"uniform draw used in comparison {op}")
        return PBool(self.w, other, self.k)


class PBool:
    """Bernoulli(p) outcome not yet decided; deciding it forks the path and records the probability factor."""

    def __init__(self, w, p, k):
        self.w, self.p, self.k = w, p, k
        self.value = None

    def decide(self, ex):
        if self.value is None:
            ctx = ex.ctx
            p = self.p
            if hasattr(p, "_pv_as_real"):
                p = p._pv_as_real(ex)
            if isinstance(p, float) and p != p:
                # `u < nan` is False for every u
                self.value = False
                self.w.prob.append((self.k, False, 0.0))
                self.w.prob_args.append(p)
                return False
            p = to_real(p) if is_z3(p) or not isinstance(p, float) else p
            self.w.prob_args.append(p)
            c = ctx.choose(2, f"draw{self.k}")
            self.value = bool(c)
            self.w.prob.append((self.k, self.value, p))
            pr = to_real(p) if not isinstance(p, float) else z3.RealVal(str(p))
            if not ctx.feasible((pr if self.value else 1 - pr) != 0):
                raise Infeasible()  # zero-probability outcome: contributes nothing to any expectation
        return self.value

    def _pv_truth(self, ex):
        return self.decide(ex)

    def _pv_binop(self, ex, op, other):
        v = self.decide(ex)
        if isinstance(op, str):
            import operator
            f = {"__mul__": operator.mul, "__rmul__": lambda a, b: b * a, "__add__": operator.add, "__radd__": lambda a, b: b + a,
                 "__sub__": operator.sub, "__rsub__": lambda a, b: b - a}.get(op)
            if f is None:
                return NotImplemented
            return f(int(v), other)
        return NotImplemented


def _np_minimum(ex, a, b):
    """numpy.minimum on scalars: NaN propagates (unlike the builtin min)"""
    for x in (a, b):
        if isinstance(x, float) and x != x:
            return float("nan")
    if is_z3(a) or is_z3(b):
        if isinstance(a, float) or isinstance(b, float):
            raise OutsideSubset("np.minimum with an infinite operand")
        return z3.If(to_real(a) <= to_real(b), to_real(a), to_real(b))
    return min(a, b)


def make_interp(run, timeout_ms=20000):
    it = Interp(run, timeout_ms=timeout_ms)
    install_std(it)
    it.ext_modules["numpy"] = Namespace(
        "np", isnan=Native(mathlib.np_isnan, "np.isnan"), exp=Native(mathlib.np_exp, "np.exp"), log=Native(mathlib.m_log, "np.log"),
        minimum=Native(_np_minimum, "np.minimum"), inf=INF, nan=float("nan"), asarray=Native(lambda ex, v: v, "np.asarray"), sum=Native(lambda ex, v: v, "np.sum"),
        int64="int64", float64="float64")
    it.ext_modules["logging"] = Namespace("logging", getLogger=Native(lambda ex, *a: Opaque("logger", info=Native(lambda ex2, *a2, **k2: None, "logger.info")), "getLogger"))
    return it


class TWorld:
    """Per-path harness state for the transitions module."""

    def __init__(self, it, ctx, errors=True, nan_h=False):
        self.it, self.ctx = it, ctx
        self.mod = it.module(TRANS)
        self.ex = Exec(it, ctx, self.mod, self.mod.env, "harness")
        self.errors = errors
        self.nan_h = nan_h
        self.steps = []  # ghost: completed integrator steps (from idx, dir)
        self.failed = []  # ghost: failed step attempts
        self.h_calls = []
        self.h_faults = []
        self.fault_after = 1  # the first call (start state, previously accepted) is not a fault site
        self.prob = []  # (draw number, outcome, probability of True)
        self.prob_args = []
        self.draws = 0
        self.int_draws = []
        self.int_value = None
        self.state_of = {}
        self.cs = it.module("mici.states").resolve("ChainState", ctx)
        self.system = Opaque("system", h=Native(self._h, "system.h"))
        self.step_size = z3.Real("step_size")
        ctx.assume(self.step_size > 0)
        self.integrator = Opaque("integrator", step=Native(self._step, "integrator.step"), step_size=self.step_size)
        self.rng = Opaque("rng", uniform=Native(self._uniform, "rng.uniform"), integers=Native(self._integers, "rng.integers"))

    # ---- states -------------------------------------------------------------------------------------
    def make_state(self, idx, d):
        st = self.ex.call(self.cs, [], {"pos": idx, "mom": PM(idx), "dir": d})
        return st

    def idx(self, st):
        return st.attrs["_variables"]["pos"]

    def dir(self, st):
        return st.attrs["_variables"]["dir"]

    # ---- stubs ----------------------------------------------------------------------------------------
    def _h(self, ex, state):
        i = self.idx(state)
        self.h_calls.append(i)
        if self.nan_h and ex.ctx.branch(HNAN(i)):
            # a non-finite model value either propagates as a NaN Hamiltonian or makes a library matrix constructor raise mici.errors.LinAlgError
            if len(self.h_calls) > self.fault_after and ex.ctx.choose(2, "nan-surfaces-as-LinAlgError") == 1:
                self.h_faults.append(i)
                self.raise_error(ex, "LinAlgError", "Array is not finite.")
            self.nan_returned = getattr(self, "nan_returned", 0) + 1
            return float("nan")
        return H(i)

    def raise_error(self, ex, name, msg="integrator failure"):
        cls = ex.interp.module("mici.errors").resolve(name, ex.ctx)
        raise PyRaise(ex.call(cls, [msg], {}))

    def _step(self, ex, state):
        i, d = self.idx(state), self.dir(state)
        if self.errors and ex.ctx.branch(ERR(i, lift(d))):
            kind = ex.ctx.choose(4, "error-kind")
            self.failed.append((i, d))
            self.failed_kind = ["NonReversibleStepError", "ConvergenceError", "IntegratorError", "ConvergenceError"][kind]
            if kind == 3:
                # a SUBCLASS of ConvergenceError (solvers are user-replaceable and may raise refined error types): still a convergence error
                base = ex.interp.module("mici.errors").resolve("ConvergenceError", ex.ctx)
                from ..pyvc import Cls
                sub = Cls("UserSolverDivergenceError", [base], {}, module="harness")
                raise PyRaise(ex.call(sub, ["solver diverged"], {}))
            self.raise_error(ex, ["NonReversibleStepError", "ConvergenceError", "IntegratorError"][kind])
        else:
            ex.ctx.assume(z3.Not(ERR(i, lift(d)))) if self.errors else None
        self.steps.append((i, d))
        return self.make_state(z3.simplify(lift(i) + lift(d)), d)

    def _uniform(self, ex, *a, **k):
        if a or k:
            raise OutsideSubset("rng.uniform with arguments")
        self.draws += 1
        return UDraw(self, self.draws)

    def _integers(self, ex, lo, hi=None, **k):
        if k:
            raise OutsideSubset("rng.integers with keyword arguments")
        n = self.int_value if self.int_value is not None else ex.ctx.fresh("n_draw", "int")
        # numpy Generator.integers(low, high): uniform on [low, high) -- contract of the dependency (A10)
        ex.ctx.assume(z3.And(n >= lift(lo), n < lift(hi)))
        self.int_draws.append((lo, hi, n))
        return n

    def new(self, cls_name, **kw):
        cls = self.mod.resolve(cls_name, self.ctx)
        return self.ex.call(cls, [self.system, self.integrator], kw)

    def path_prob(self):
        """product of the probability factors of the decided draws on this path"""
        out = z3.RealVal(1)
        for k, v, p in self.prob:
            p = to_real(p) if not isinstance(p, float) else z3.RealVal(str(p))
            out = out * (p if v else 1 - p)
        return out


def error_flag_matches_kind(ctx, w, stats, tag, suffix=""):
    """the statistic reported for a trajectory ended by an integrator error names the KIND of the error, by class membership: a NonReversibleStepError
    (or subclass) sets `non_reversible_step`, a ConvergenceError (or subclass) sets `convergence_error`, a plain IntegratorError sets neither"""
    kind = getattr(w, "failed_kind", None)
    if kind is None:
        return
    want = {"non_reversible_step": kind == "NonReversibleStepError", "convergence_error": kind == "ConvergenceError"}
    got = {k: stats.get(k) is True for k in want}
    ok = got == want
    ctx.run.ob(tag + "/error-flag-names-the-kind-of-integrator-error" + suffix, core.DISCHARGED if ok else core.FAILED, "pyvc",
               detail="" if ok else f"integrator.step raised a {kind} (possibly a subclass) but the statistics say {got}",
               text="non_reversible_step / convergence_error are True exactly for errors that are instances of the corresponding class")


def declared_statistics(ctx, w, tr, stats, tag, suffix=""):
    """the sampler allocates one array per key of `statistic_types` and writes every returned statistic into it: a key returned
    but not declared aborts the chain (KeyError) -- also on error paths, which return a flag per error kind"""
    try:
        declared = w.ex.getattr(tr, "statistic_types")
        extra = sorted(k for k in stats if k not in declared)
    except PyRaise as pr:
        extra = [f"<statistic_types raised {exc_name(pr.exc)}>"]
    ctx.run.ob(tag + "/error-and-normal-paths-return-only-declared-statistics" + suffix, core.DISCHARGED if not extra else core.FAILED, "pyvc",
               detail="" if not extra else f"sample() returned the undeclared statistic(s) {extra}; declared: {sorted(declared) if not isinstance(extra[0], str) or not extra[0].startswith('<') else '?'}",
               text="keys of the returned statistics dict are a subset of the keys of statistic_types on every path")


def is_err(it, exc, name):
    cls = it.module("mici.errors").resolve(name, None)
    return isinstance(exc, Obj) and exc.cls.issub(cls)


# ---------------------------------------------------------------------------------------------------------------
# Metropolis transitions


def metropolis(run, it, prop="C01"):
    q = "MetropolisIntegrationTransition._sample_n_step"
    tag = P + q
    run.function("mici.transitions." + q)
    run.function("mici.transitions.MetropolisStaticIntegrationTransition.sample")
    run.function("mici.transitions.MetropolisRandomIntegrationTransition.sample")
    run.function("mici.transitions._process_integrator_error")
    N = z3.Int("n_step")
    s0, d0 = z3.Int("s0"), z3.Int("d0")

    def harness(ctx, kind):
        w = TWorld(it, ctx, errors=True, nan_h=True)
        ctx.assume(z3.Or(d0 == 1, d0 == -1))
        entry = {}

        def havoc(ex):
            i = ex.ctx.fresh("steps_done", "int")
            ex.ctx.ghost["loop_index"] = i
            if ex.ctx.choose(2, "first-iteration") == 0:
                ex.ctx.assume(i == 0)
                ex.env.set("state_p", entry["state"])
            else:
                ex.ctx.assume(i >= 1)
                ex.env.set("state_p", w.make_state(s0 + d0 * i, d0))
            entry["i"] = i
            w.steps[:] = [("generic", i)]

        def inv(ex):
            i = lift(ex.ctx.ghost.get("loop_index", 0))
            sp = ex.env.lookup("state_p")
            return z3.And(i >= 0, i <= N, lift(w.idx(sp)) == s0 + d0 * i, lift(w.dir(sp)) == d0, (i == 0) == z3.BoolVal(sp is entry["state"]))
        it.loop_specs[(q, 0)] = LoopSpec(inv, havoc)
        try:
            if kind == "static":
                ctx.assume(N >= 1)
                tr = w.new("MetropolisStaticIntegrationTransition", n_step=N)
                n_expr = N
            else:
                lo, hi = z3.Int("n_lower"), z3.Int("n_upper")
                ctx.assume(z3.And(lo > 0, lo < hi))
                tr = w.new("MetropolisRandomIntegrationTransition", n_step_range=(lo, hi))
                w.int_value = N
            st = w.make_state(s0, d0)
            entry["state"] = st
            try:
                out, stats = w.ex.call(w.ex.getattr(tr, "sample"), [st, w.rng], {})
            except PyRaise as pr:
                ctx.run.ob(tag + f"/no-exception-escapes[{kind}]", core.FAILED, "pyvc", detail=f"{exc_name(pr.exc)} escapes sample()")
                return
        finally:
            del it.loop_specs[(q, 0)]
        if kind == "random":
            ok = len(w.int_draws) == 1 and w.int_draws[0][0] is lo and w.int_draws[0][1] is hi
            ctx.run.ob(P + "MetropolisRandomIntegrationTransition.sample/step-count-drawn-independently-of-the-state", core.DISCHARGED if ok else core.FAILED, "pyvc",
                       detail="" if ok else str(w.int_draws), text="n_step = rng.integers(*n_step_range): one draw whose law does not depend on the state (uniform on [lower, upper))")
            if not ok:
                return
            ctx.prove(P + "MetropolisRandomIntegrationTransition.sample/drawn-step-count-positive", N >= 1)
        declared_statistics(ctx, w, tr, stats, tag)
        nan_stats = sorted(k for k, v in stats.items() if isinstance(v, float) and v != v)
        ctx.run.ob(tag + "/nan-never-reaches-the-statistics", core.DISCHARGED if not nan_stats else core.FAILED, "pyvc",
                   detail="" if not nan_stats else f"statistics {nan_stats} are NaN (a NaN Hamiltonian must be reported as acceptance probability 0; NaN statistics poison the step-size adapter)",
                   text="every reported statistic is a number on every path, also when a Hamiltonian evaluates to NaN")
        if nan_stats:
            return
        failed = bool(w.failed)
        i = entry.get("i")
        oi, od = lift(w.idx(out)), lift(w.dir(out))
        fin = s0 + d0 * N
        if failed:
            # error path: the start state is returned with its direction reversed, as a rejection
            ctx.prove(tag + "/error-is-a-rejection", z3.And(z3.BoolVal(out is st), oi == s0, od == -d0), text="IntegratorError: chain stays at the start state (direction flipped as for a rejection)")
            ctx.prove(tag + "/error-accept-stat-zero", lift(stats["accept_stat"]) == 0)
            done = i if i is not None else 0
            ctx.prove(tag + "/error-n_step-counts-completed-steps", lift(stats["n_step"]) == done, text="n_step == number of integrator steps completed before the failing one")
            flags = (stats["non_reversible_step"], stats["convergence_error"])
            error_flag_matches_kind(ctx, w, stats, tag)
            ctx.run.ob(tag + "/error-draws-nothing", core.DISCHARGED if not w.prob else core.FAILED, "pyvc", detail="" if not w.prob else "a uniform draw was consumed on the error path")
            return
        # no error
        ctx.prove(tag + "/n_step-counts-steps", lift(stats["n_step"]) == N, text="n_step statistic == number of integrator steps taken")
        nan0, nan1 = HNAN(s0), HNAN(fin)
        a = stats["metrop_accept_prob"]
        areal = to_real(a) if is_z3(a) or not isinstance(a, float) else z3.RealVal(str(a))
        nan_path = any(isinstance(x, float) for x in [a])
        # acceptance probability min(1, exp(h0 - h1)) (0 if a Hamiltonian is NaN)
        pc_nan = ctx.feasible(z3.Or(nan0, nan1)) and not ctx.feasible(z3.Not(z3.Or(nan0, nan1)))
        if pc_nan:
            ctx.prove(tag + "/nan-hamiltonian-never-accepted", z3.And(areal == 0, lift(stats["accept_stat"]) == 0), text="NaN Hamiltonian: acceptance probability 0")
            ctx.prove(tag + "/nan-rejection-returns-start", z3.And(oi == s0, od == -d0))
            return
        E = mathlib.exp_term(ctx, H(s0) - H(fin))
        ctx.prove(tag + "/acceptance-probability-is-metropolis-ratio", areal == z3.If(H(s0) - H(fin) >= 0, 1, E),
                  text="metrop_accept_prob == min(1, exp(h(start) - h(end)))")
        ctx.prove(tag + "/accept-stat-is-acceptance-probability", to_real(lift(stats["accept_stat"])) == areal)
        ctx.prove(tag + "/acceptance-probability-in-unit-interval", z3.And(areal >= 0, areal <= 1))
        ok = len(w.prob) == 1
        ctx.run.ob(tag + "/exactly-one-uniform-draw", core.DISCHARGED if ok else core.FAILED, "pyvc", detail="" if ok else f"{len(w.prob)} draws")
        if not ok:
            return
        _, accepted, p = w.prob[0]
        ctx.prove(tag + "/draw-compared-with-acceptance-probability", to_real(p) == areal, text="accept iff uniform() < metrop_accept_prob")
        if accepted:
            ctx.prove(tag + "/accept-moves-to-trajectory-end", z3.And(oi == fin, od == d0), text="accept: end of the n-step trajectory, direction restored by the double flip")
        else:
            ctx.prove(tag + "/reject-stays-with-direction-reversed", z3.And(oi == s0, od == -d0), text="reject: start state with direction reversed")
        # detailed balance of the involutive proposal F(i, d) = (i + d n, -d):  w(s) a(s -> F s) == w(F s) a(F s -> s)
        E0, E1, Er = mathlib.exp_term(ctx, -H(s0)), mathlib.exp_term(ctx, -H(fin)), mathlib.exp_term(ctx, H(fin) - H(s0))
        a_fwd = z3.If(H(s0) - H(fin) >= 0, 1, E)
        a_rev = z3.If(H(fin) - H(s0) >= 0, 1, Er)
        # homomorphism instances: exp(-h0) exp(h0 - h1) == exp(-h1) and exp(-h1) exp(h1 - h0) == exp(-h0)
        t1 = mathlib.exp_hom(ctx, -H(s0), H(s0) - H(fin))
        t0 = mathlib.exp_hom(ctx, -H(fin), H(fin) - H(s0))
        ctx.prove(tag + "/detailed-balance.lemma-instances-well-formed", z3.And(t1 == E1, t0 == E0))
        ctx.prove(tag + "/detailed-balance", E0 * a_fwd == E1 * a_rev,
                  text="exp(-h(s)) min(1, exp(h(s)-h(s'))) == exp(-h(s')) min(1, exp(h(s')-h(s)))  (s' = proposal of s; the proposal map is an involution)")
    for kind in ("static", "random"):
        it.explore(lambda ctx, kind=kind: harness(ctx, kind), f"metropolis[{kind}]")

    def orbit_lemma(ctx):
        """Orbit-level invariance from the contract proved above.  On an error-free orbit the kernel is
        K((i,d) -> (i+dn, d)) = a(i, i+dn),  K((i,d) -> (i,-d)) = 1 - a(i, i+dn),  a(i,k) = min(1, exp(H(i)-H(k))).
        The only start states reaching x = (j,e) are (j-en, e) [accept] and (j,-e) [reject], so
        sum_s pi(s) K(s,x) = pi(j-en) a(j-en, j) + pi(j) (1 - a(j, j-en))  which must equal pi(j) = exp(-H(j))."""
        j, e, n = z3.Int("j"), z3.Int("e"), z3.Int("n")
        ctx.assume(z3.And(z3.Or(e == 1, e == -1), n >= 1))
        k = j - e * n
        Ek, Ej = mathlib.exp_term(ctx, -H(k)), mathlib.exp_term(ctx, -H(j))
        Ekj, Ejk = mathlib.exp_term(ctx, H(k) - H(j)), mathlib.exp_term(ctx, H(j) - H(k))
        t1 = mathlib.exp_hom(ctx, -H(k), H(k) - H(j))
        t2 = mathlib.exp_hom(ctx, -H(j), H(j) - H(k))
        ctx.prove(tag + "/orbit-invariance.lemma-instances-well-formed", z3.And(t1 == Ej, t2 == Ek))
        a_kj = z3.If(H(k) - H(j) >= 0, 1, Ekj)
        a_jk = z3.If(H(j) - H(k) >= 0, 1, Ejk)
        ctx.prove(tag + "/orbit-invariance", Ek * a_kj + Ej * (1 - a_jk) == Ej,
                  text="sum over start states of exp(-H(start)) K(start -> x) == exp(-H(x)) for every end state x (fixed n; random n is a state-independent mixture)")
    it.explore(orbit_lemma, "metropolis-orbit-lemma")


# ---------------------------------------------------------------------------------------------------------------
# Dynamic (tree) transitions

WL = z3.Function("w_leaf", z3.IntSort(), z3.RealSort())  # target weight of an orbit state (defined per class below)
WT = z3.Function("W", z3.IntSort(), z3.IntSort(), z3.RealSort())  # sum of leaf weights over an index interval
SP = z3.Function("S_mom", z3.IntSort(), z3.IntSort(), z3.RealSort())  # sum of momenta over an index interval
AL = z3.Function("a_leaf", z3.IntSort(), z3.RealSort())  # min(1, exp(h_init - H(i)))
AC = z3.Function("A_acc", z3.IntSort(), z3.IntSort(), z3.RealSort())  # sum of a_leaf over an interval
POW2 = z3.Function("pow2", z3.IntSort(), z3.IntSort())
CRIT = z3.Function("criterion", z3.IntSort(), z3.IntSort(), z3.RealSort(), z3.BoolSort())
ADDITIVE = ((WT, WL), (SP, PM), (AC, AL))
MAXDH = z3.Real("max_delta_h")
LOGU = z3.Real("log_u")


def split_axioms(ctx, lo, mid, hi):
    """instances of additivity F(lo,hi) == F(lo,mid) + F(mid+1,hi) for lo <= mid < hi (definition of the interval functionals)"""
    for F, f in ADDITIVE:
        ctx.assume(z3.Implies(z3.And(lo <= mid, mid < hi), F(lo, hi) == F(lo, mid) + F(mid + 1, hi)))


def leaf_axioms(ctx, i):
    for F, f in ADDITIVE:
        ctx.assume(F(i, i) == f(i))


def pow2_axioms(ctx, d):
    ctx.assume(POW2(0) == 1)
    ctx.assume(z3.Implies(d >= 1, POW2(d) == 2 * POW2(d - 1)))
    ctx.assume(z3.Implies(d >= 0, POW2(d) >= 1))
    ctx.assume(z3.Implies(d >= 1, POW2(d - 1) >= 1))


class DWorld(TWorld):
    """World for the dynamic transitions: class-specific leaf weights, tree objects, ghost counters."""

    def __init__(self, it, ctx, cls_name, **kw):
        super().__init__(it, ctx, **kw)
        self.cls_name = cls_name
        self.slice = cls_name.startswith("Slice")
        self.crit_calls = []
        self.tc_calls = []
        self.h_init = z3.Real("h_init")
        self.log_draw = None
        self.subtree_cls = self.mod.resolve("_SubTree", ctx)
        self.law = {}  # id(proposal state) -> (lo, hi): drawn from the interval with probability w_leaf / W (contract of _build_tree)
        self.ghost_steps = z3.IntVal(0)
        self.ghost_acc = z3.RealVal(0)

    def define_leaf(self, i):
        """definitions of the per-state quantities the additive functionals sum (instantiated for the indices that occur)"""
        ctx = self.ctx
        i = lift(i)
        if self.slice:
            ctx.assume(WL(i) == z3.If(LOGU <= -H(i), z3.RealVal(1), z3.RealVal(0)))
        else:
            ctx.assume(WL(i) == mathlib.exp_term(ctx, -H(i)))
        e = mathlib.exp_term(ctx, self.h_init - H(i))
        ctx.assume(AL(i) == z3.If(self.h_init - H(i) >= 0, 1, e))
        leaf_axioms(ctx, i)

    def functional_facts(self, lo, hi):
        """sums of non-negative terms are non-negative (and positive for exp weights): facts about the interval functionals"""
        ctx = self.ctx
        ctx.assume(z3.Implies(lo <= hi, z3.And(AC(lo, hi) >= 0, WT(lo, hi) >= 0)))
        if not self.slice:
            ctx.assume(z3.Implies(lo <= hi, WT(lo, hi) > 0))

    def new_transition(self, **kw):
        crit = Native(self._criterion, "termination_criterion")
        self.extra = kw.pop("extra", None)
        if self.extra is None:
            self.extra = z3.Bool("do_extra_subtree_checks")
        self.max_depth = z3.Int("max_tree_depth")
        self.ctx.assume(self.max_depth >= 1)
        return self.new(self.cls_name, max_tree_depth=self.max_depth, max_delta_h=MAXDH, termination_criterion=crit, do_extra_subtree_checks=self.extra, **kw)

    def _criterion(self, ex, system, s1, s2, sum_mom):
        if system is not self.system:
            ex.ctx.run.ob(P + "DynamicIntegrationTransition._termination_criterion/criterion-gets-own-system", core.FAILED, "pyvc", detail="other system object passed")
        a, b = lift(self.idx(s1)), lift(self.idx(s2))
        self.crit_calls.append((a, b, to_real(sum_mom)))
        return CRIT(a, b, to_real(sum_mom))

    def make_tree(self, lo, hi, d, depth):
        neg, pos = self.make_state(lo, d), self.make_state(hi, d)
        return self.ex.call(self.subtree_cls, [], {"negative": neg, "positive": pos, "sum_mom": SP(lo, hi), "weight": WT(lo, hi), "depth": depth})

    def tree_is(self, tree, lo, hi, depth, d=None):
        a = tree.attrs
        conds = [lift(self.idx(a["negative"])) == lo, lift(self.idx(a["positive"])) == hi, to_real(a["sum_mom"]) == SP(lo, hi), to_real(a["weight"]) == WT(lo, hi),
                 lift(a["depth"]) == depth]
        if d is not None:
            conds += [lift(self.dir(a["negative"])) == d, lift(self.dir(a["positive"])) == d]
        return z3.And(*conds)


def _logrep_contract(ex, *args, **kw):
    """contract of utils.LogRepFloat taken from C20: LogRepFloat(log_val=x) denotes the non-negative real exp(x); +, /, <, min act on the denoted reals"""
    if args and not kw:
        v = args[0]
        return to_real(v)
    x = kw["log_val"]
    if isinstance(x, float) and x == -INF:
        return z3.RealVal(0)
    return mathlib.exp_term(ex.ctx, to_real(x))


def install_dynamic(it, w_holder):
    it.overrides[(TRANS, "LogRepFloat")] = Native(_logrep_contract, "LogRepFloat")


def build_tree_contract(w):
    """Contract used for the recursive calls of _build_tree (and by `sample`); every clause is proved of the body by build_tree()."""
    def contract(ex, self_, depth, state, stats, rng, aux_vars):
        ctx = ex.ctx
        i, d = lift(w.idx(state)), lift(w.dir(state))
        depth = lift(depth)
        pow2_axioms(ctx, depth)
        n = POW2(depth)
        outcome = ctx.choose(3, "build_tree-outcome")
        if outcome == 2:
            # aborted by an IntegratorError or by a sub-tree criterion: no tree, some steps taken, at most one flag raised
            k = ctx.fresh("steps_before_abort", "int")
            acc = ctx.fresh("acc_before_abort", "real")
            ctx.assume(z3.And(k >= 0, k <= n, acc >= 0, acc <= z3.ToReal(k)))
            stats["n_step"] = lift(stats["n_step"]) + k
            stats["sum_metrop_accept_prob"] = to_real(stats["sum_metrop_accept_prob"]) + acc
            w.ghost_steps = w.ghost_steps + k
            w.ghost_acc = w.ghost_acc + acc
            flag = ctx.choose(4, "abort-flag")
            if flag:
                stats[["", "diverging", "non_reversible_step", "convergence_error"][flag]] = True
            w.aborted = True
            return True, None, None
        lo = z3.If(d == 1, i + 1, i - n)
        lo_c = ctx.fresh("lo", "int")
        ctx.assume(lo_c == lo)
        lo = lo_c
        hi = lo + n - 1
        w.functional_facts(lo, hi)
        tree = w.make_tree(lo, hi, d, depth)
        pi = ctx.fresh("proposal", "int")
        ctx.assume(z3.And(pi >= lo, pi <= hi))
        prop = w.make_state(pi, d)
        w.law[id(prop)] = (lo, hi)
        stats["n_step"] = lift(stats["n_step"]) + n
        stats["sum_metrop_accept_prob"] = to_real(stats["sum_metrop_accept_prob"]) + AC(lo, hi)
        w.ghost_steps = w.ghost_steps + n
        w.ghost_acc = w.ghost_acc + AC(lo, hi)
        w.contract_trees.append((tree, prop, lo, hi))
        w.__dict__.setdefault("bt_outcomes", []).append(outcome)
        if outcome == 1:
            # complete tree whose own top-level criterion fired (only possible for depth >= 1)
            ctx.assume(depth >= 1)
            return True, tree, prop
        return False, tree, prop
    return Native(contract, "_build_tree contract")


def tc_contract(w):
    def contract(ex, self_, tree, neg, pos):
        r = ex.ctx.fresh("terminate", "bool")
        w.tc_calls.append((tree, neg, pos, r))
        # ghost lemma application: additivity of the interval functionals at the merge point (conditional on lo <= mid < hi)
        split_axioms(ex.ctx, lift(w.idx(neg.attrs["negative"])), lift(w.idx(neg.attrs["positive"])), lift(w.idx(pos.attrs["positive"])))
        return r
    return Native(contract, "_termination_criterion contract")


CLASSES = ("MultinomialDynamicIntegrationTransition", "SliceDynamicIntegrationTransition")


def build_tree(run, it):
    """_build_tree: base case executed exactly; inductive case executed with the recursive calls replaced by the contract."""
    q = "DynamicIntegrationTransition._build_tree"
    tag = P + q
    run.function("mici.transitions." + q)
    run.function("mici.transitions.DynamicIntegrationTransition._new_leave")
    run.function("mici.transitions.DynamicIntegrationTransition._merge_subtrees")
    for c in CLASSES:
        for m in ("_weight_function", "_weight_ratio", "_check_divergence"):
            run.function(f"mici.transitions.{c}.{m}")
    install_dynamic(it, None)
    s, d = z3.Int("s"), z3.Int("d")
    N0, A0 = z3.Int("n_step_before"), z3.Real("sum_acc_before")

    def setup(ctx, cls_name, nan_h):
        w = DWorld(it, ctx, cls_name, errors=True, nan_h=nan_h)
        w.fault_after = 0
        w.contract_trees = []
        w.aborted = False
        ctx.assume(z3.Or(d == 1, d == -1))
        ctx.assume(z3.And(N0 >= 0, A0 >= 0))
        tr = w.new_transition()
        st = w.make_state(s, d)
        stats = {"n_step": N0, "sum_metrop_accept_prob": A0, "reject_prob": z3.RealVal(1), "diverging": False, "convergence_error": False, "non_reversible_step": False,
                 "step_size": w.step_size}
        aux = {"h_init": w.h_init}
        if w.slice:
            aux["log_u"] = LOGU
        return w, tr, st, stats, aux

    def base(ctx):
        cls_name = CLASSES[ctx.choose(2, "class")]
        w, tr, st, stats, aux = setup(ctx, cls_name, nan_h=True)
        c = f"[{cls_name[:5]}]"
        f = w.mod.resolve("DynamicIntegrationTransition", ctx).lookup("_build_tree")[0]
        try:
            term, tree, prop = w.ex.invoke(f, [tr, 0, st, stats, w.rng, aux], {})
        except PyRaise as pr:
            ctx.run.ob(tag + "/base/no-exception-escapes" + c, core.FAILED, "pyvc", detail=f"{exc_name(pr.exc)} escapes _build_tree")
            return
        i1 = s + d
        dn = lift(stats["n_step"]) - N0
        if getattr(w, "nan_returned", 0) or w.h_faults:
            # the Hamiltonian of the new state is NaN (returned as NaN, or surfaced as LinAlgError from a library matrix constructor): the state must not enter
            # the tree -- the trajectory ends there and the transition reports a divergence, exactly as for an infinite Hamiltonian
            ok = tree is None and term is True and prop is None and stats["diverging"] is True
            ctx.run.ob(tag + "/base/nan-hamiltonian-ends-the-trajectory-as-a-divergence" + c, core.DISCHARGED if ok else core.FAILED, "pyvc",
                       detail="" if ok else f"tree {'kept' if tree is not None else 'dropped'}, terminate={term}, diverging={stats['diverging']}",
                       text="h(new state) NaN  ==>  _build_tree returns (True, None, None) and stats['diverging'] is set")
            if tree is not None:
                return
        if tree is None:
            ok = term is True and prop is None
            ctx.run.ob(tag + "/base/abort-returns-terminate-without-tree" + c, core.DISCHARGED if ok else core.FAILED, "pyvc", detail="" if ok else f"{term}, {prop}")
            nflags = sum(1 for k in ("diverging", "convergence_error", "non_reversible_step") if stats[k] is True)
            ctx.run.ob(tag + "/base/abort-raises-a-flag-or-is-generic-integrator-error" + c, core.DISCHARGED if nflags <= 1 else core.FAILED, "pyvc", detail=str(nflags))
            ctx.prove(tag + "/base/n_step-counts-completed-steps" + c, dn == len(w.steps), text="n_step is incremented exactly when integrator.step returned (a diverging state was still visited)")
            if w.failed:
                error_flag_matches_kind(ctx, w, stats, tag + "/base", c)
                ctx.prove(tag + "/base/failed-step-not-counted" + c, z3.And(dn == 0, to_real(stats["sum_metrop_accept_prob"]) == A0))
            else:
                # divergence: raised iff the class's divergence test holds for the new state
                div = stats["diverging"] is True
                ctx.run.ob(tag + "/base/abort-without-step-error-is-divergence" + c, core.DISCHARGED if div else core.FAILED, "pyvc")
            return
        w.define_leaf(i1)
        ctx.prove(tag + "/base/leaf-tree" + c, z3.And(w.tree_is(tree, i1, i1, 0, d), z3.BoolVal(prop is tree.attrs["negative"]), z3.BoolVal(tree.attrs["negative"] is tree.attrs["positive"]),
                                                      z3.BoolVal(term is False)),
                  text="depth 0: one integrator step; tree = {new state} with weight w(new state), sum_mom = its momentum; proposal = new state; terminate False")
        ctx.prove(tag + "/base/n_step-incremented-once" + c, z3.And(dn == 1, z3.BoolVal(len(w.steps) == 1)))
        ctx.prove(tag + "/base/accept-prob-sum-incremented-by-metropolis-ratio" + c, to_real(stats["sum_metrop_accept_prob"]) == A0 + AL(i1),
                  text="sum_metrop_accept_prob += min(1, exp(h_init - h(new state)))")
        ctx.run.ob(tag + "/base/no-random-draw" + c, core.DISCHARGED if not w.prob and w.draws == 0 else core.FAILED, "pyvc")
        # no divergence was signalled: the class's divergence predicate is false
        if w.slice:
            ctx.prove(tag + "/base/slice-divergence-test-reads-only-h-and-slice-level" + c, H(i1) + LOGU <= MAXDH,
                      text="slice: no divergence <=> h(new) + log_u <= max_delta_h (a function of the shared slice level, not of the start state)")
        else:
            ctx.prove(tag + "/base/multinomial-divergence-test" + c, H(i1) - w.h_init <= MAXDH)
    it.explore(base, "build_tree.base", roots=[[0], [1]])

    def step(ctx):
        cls_name = CLASSES[ctx.choose(2, "class")]
        w, tr, st, stats, aux = setup(ctx, cls_name, nan_h=False)
        c = f"[{cls_name[:5]}]"
        D = z3.Int("depth")
        ctx.assume(D >= 1)
        pow2_axioms(ctx, D)
        m = POW2(D - 1)
        f = w.mod.resolve("DynamicIntegrationTransition", ctx).lookup("_build_tree")[0]
        it.call_contracts[q] = build_tree_contract(w)
        it.call_contracts["DynamicIntegrationTransition._termination_criterion"] = tc_contract(w)
        try:
            try:
                term, tree, prop = w.ex.invoke(f, [tr, D, st, stats, w.rng, aux], {})
            except PyRaise as pr:
                ctx.run.ob(tag + "/step/no-exception-escapes" + c, core.FAILED, "pyvc", detail=f"{exc_name(pr.exc)} escapes _build_tree")
                return
        finally:
            del it.call_contracts[q]
            del it.call_contracts["DynamicIntegrationTransition._termination_criterion"]
        dn = lift(stats["n_step"]) - N0
        ctx.prove(tag + "/step/n_step-equals-steps-taken" + c, dn == w.ghost_steps, text="n_step increases by exactly the number of integrator steps taken by the sub-trees")
        ctx.prove(tag + "/step/accept-prob-sum-equals-sum-over-visited-states" + c, to_real(stats["sum_metrop_accept_prob"]) - A0 == w.ghost_acc)
        if tree is None:
            ok = term is True and prop is None
            ctx.run.ob(tag + "/step/abort-returns-terminate-without-tree" + c, core.DISCHARGED if ok else core.FAILED, "pyvc", detail="" if ok else f"{term}, {prop}")
            ctx.run.ob(tag + "/step/abort-draws-nothing" + c, core.DISCHARGED if not w.prob else core.FAILED, "pyvc")
            # a complete sub-tree whose criterion fired is discarded
            return
        if len(w.contract_trees) != 2:
            ctx.run.ob(tag + "/step/two-sub-trees" + c, core.FAILED, "pyvc", detail=f"{len(w.contract_trees)} recursive calls produced a tree")
            return
        (t_in, p_in, lo_i, hi_i), (t_out, p_out, lo_o, hi_o) = w.contract_trees
        lo, hi = z3.If(d == 1, s + 1, s - 2 * m), z3.If(d == 1, s + 2 * m, s - 1)
        mid = lo + m - 1
        split_axioms(ctx, lo, mid, hi)
        ctx.prove(tag + "/step/sub-trees-are-adjacent-halves" + c,
                  z3.And(z3.If(d == 1, z3.And(lo_i == lo, hi_i == mid, lo_o == mid + 1, hi_o == hi), z3.And(lo_o == lo, hi_o == mid, lo_i == mid + 1, hi_i == hi))),
                  text="inner sub-tree = the 2^(depth-1) states next to the start, outer sub-tree = the following 2^(depth-1) states, in direction dir")
        ctx.prove(tag + "/step/merged-tree-is-the-interval" + c, w.tree_is(tree, lo, hi, D, d),
                  text="tree.negative/positive are the interval ends, weight = W(lo,hi), sum_mom = S(lo,hi), depth = depth (additivity instance at the midpoint)")
        ctx.prove(tag + "/step/n_step-increases-by-2^depth" + c, dn == POW2(D))
        ctx.prove(tag + "/step/accept-prob-sum-increases-by-interval-sum" + c, to_real(stats["sum_metrop_accept_prob"]) - A0 == AC(lo, hi))
        # progressive uniform sampling inside the sub-tree
        ok = len(w.prob) == 1
        ctx.run.ob(tag + "/step/exactly-one-uniform-draw" + c, core.DISCHARGED if ok else core.FAILED, "pyvc", detail="" if ok else f"{len(w.prob)} draws")
        if ok:
            _, took_outer, p = w.prob[0]
            p = to_real(p)
            ctx.prove(tag + "/step/outer-acceptance-probability-is-weight-fraction" + c, z3.Implies(WT(lo, hi) > 0, p * WT(lo, hi) == WT(lo_o, hi_o)),
                      text="P(proposal from outer sub-tree) == W(outer) / W(tree)  (uniform progressive sampling)")
            ctx.prove(tag + "/step/outer-acceptance-probability-in-unit-interval" + c, z3.And(p >= 0, p <= 1))
            sel = p_out if took_outer else p_in
            ctx.run.ob(tag + "/step/proposal-selected-by-the-draw" + c, core.DISCHARGED if prop is sel else core.FAILED, "pyvc",
                       detail="" if prop is sel else "proposal is not the sub-tree proposal selected by the draw")
        # the termination decision is evaluated on (tree, lower half, upper half) whatever the build direction
        ok = len(w.tc_calls) == 1
        ctx.run.ob(tag + "/step/criterion-evaluated-once-on-the-merged-tree" + c, core.DISCHARGED if ok else core.FAILED, "pyvc", detail=str(len(w.tc_calls)))
        if ok:
            t, ng, ps, r = w.tc_calls[0]
            ctx.prove(tag + "/step/criterion-arguments-direction-independent" + c,
                      z3.And(z3.BoolVal(t is tree), w.tree_is(ng, lo, mid, D - 1), w.tree_is(ps, mid + 1, hi, D - 1)),
                      text="_termination_criterion(tree, lower-index half, upper-index half): a function of the leaf set, not of the direction the tree was built in")
            okr = term is r
            ctx.run.ob(tag + "/step/terminate-is-the-criterion-value" + c, core.DISCHARGED if okr else core.FAILED, "pyvc")
    it.explore(step, "build_tree.step", roots=[[0], [1]])

    def lemma(ctx):
        """uniform progressive sampling: if E_in W_in == F_in, E_out W_out == F_out and the outer proposal is taken with probability
        W_out / (W_in + W_out) then E W == F for the merged tree (F additive).  This carries the selection-law clause of the contract
        through the recursion (probabilistic-choice rule: E = p E_out + (1-p) E_in)."""
        Ei, Eo, Wi, Wo, Fi, Fo, p = z3.Reals("E_in E_out W_in W_out F_in F_out p")
        ctx.assume(z3.And(Wi >= 0, Wo >= 0, Wi + Wo > 0, Ei * Wi == Fi, Eo * Wo == Fo, p * (Wi + Wo) == Wo))
        ctx.prove(tag + "/lemma/uniform-progressive-sampling-preserves-the-selection-law", (p * Eo + (1 - p) * Ei) * (Wi + Wo) == Fi + Fo, prefer=None,
                  text="(p E_out + (1-p) E_in) (W_in + W_out) == F_in + F_out")
    it.explore(lemma, "build_tree.lemma")


def dynamic_sample(run, it):
    """DynamicIntegrationTransition.sample: loop invariant over the doubling loop, with _build_tree and _termination_criterion by contract."""
    q = "DynamicIntegrationTransition.sample"
    tag = P + q
    run.function("mici.transitions." + q)
    install_dynamic(it, None)
    s0, d_in = z3.Int("s0"), z3.Int("d_in")

    def harness(ctx):
        cls_name = CLASSES[ctx.choose(2, "class")]
        c = f"[{cls_name[:5]}]"
        w = DWorld(it, ctx, cls_name, errors=False, nan_h=False)
        w.contract_trees = []
        w.aborted = False
        w.bt_calls = []
        w.bt_outcomes = []
        ctx.assume(z3.Or(d_in == 1, d_in == -1))
        ctx.assume(w.h_init == H(s0))
        if w.slice:
            ctx.assume(LOGU <= -H(s0))  # log_u = log(u) - h_init with 0 < u < 1 (proved of _init_aux_vars separately)
        tr = w.new_transition()
        st = w.make_state(s0, d_in)
        w.define_leaf(s0)
        pow2_axioms(ctx, z3.IntVal(0))
        pow2_axioms(ctx, z3.IntVal(1))
        rec = {}

        def aux_contract(ex, self_, state, rng):
            a = {"h_init": H(lift(w.idx(state)))}
            if w.slice:
                a["log_u"] = LOGU
            return a

        def cur(ex):
            tree = ex.env.lookup("tree")
            return tree, lift(w.idx(tree.attrs["negative"])), lift(w.idx(tree.attrs["positive"]))

        def havoc(ex):
            j = ex.ctx.fresh("doublings", "int")
            ex.ctx.ghost["loop_index"] = j
            if ex.ctx.choose(2, "first-iteration") == 0:
                ex.ctx.assume(j == 0)
                return
            ex.ctx.assume(j >= 1)
            pow2_axioms(ex.ctx, j)
            pow2_axioms(ex.ctx, j + 1)
            a, b = ex.ctx.fresh("a", "int"), ex.ctx.fresh("b", "int")
            ex.ctx.assume(z3.And(a <= s0, s0 <= b, b - a + 1 == POW2(j)))
            da, db = ex.ctx.fresh("dir_a", "int"), ex.ctx.fresh("dir_b", "int")
            ex.ctx.assume(z3.And(z3.Or(da == 1, da == -1), z3.Or(db == 1, db == -1)))
            tree = w.ex.call(w.subtree_cls, [], {"negative": w.make_state(a, da), "positive": w.make_state(b, db), "sum_mom": SP(a, b), "weight": WT(a, b), "depth": j})
            ex.env.set("tree", tree)
            ns = ex.ctx.fresh("next_idx", "int")
            ex.ctx.assume(z3.And(ns >= a, ns <= b))
            ex.env.set("next_state", w.make_state(ns, ex.ctx.fresh("dir_n", "int")))
            stats = ex.env.lookup("stats")
            G, SA, RP = ex.ctx.fresh("steps_so_far", "int"), ex.ctx.fresh("acc_so_far", "real"), ex.ctx.fresh("reject_so_far", "real")
            stats["n_step"], stats["sum_metrop_accept_prob"], stats["reject_prob"] = G, SA, RP
            w.ghost_steps, w.ghost_acc = G, SA
            w.functional_facts(a, b)
            w.prob[:] = []
            w.draws = 0

        def inv(ex):
            j = lift(ex.ctx.ghost.get("loop_index", 0))
            tree, a, b = cur(ex)
            stats = ex.env.lookup("stats")
            ns = lift(w.idx(ex.env.lookup("next_state")))
            flags = all(stats[k] is False for k in ("diverging", "convergence_error", "non_reversible_step"))
            conds = [j >= 0, j <= w.max_depth, a <= s0, s0 <= b, b - a + 1 == POW2(j), w.tree_is(tree, a, b, j), ns >= a, ns <= b,
                     lift(stats["n_step"]) == w.ghost_steps, to_real(stats["sum_metrop_accept_prob"]) == w.ghost_acc, lift(stats["n_step"]) >= 0,
                     to_real(stats["sum_metrop_accept_prob"]) >= 0, to_real(stats["reject_prob"]) >= 0, to_real(stats["reject_prob"]) <= 1, z3.BoolVal(flags)]
            if w.slice:
                conds.append(WT(a, b) >= 1)
            return z3.And(*conds)

        def on_body(ex):
            tree, a, b = cur(ex)
            stats = ex.env.lookup("stats")
            rec.update(j=ex.ctx.ghost["loop_index"], a=a, b=b, tree=tree, next=ex.env.lookup("next_state"), rp=to_real(stats["reject_prob"]), n0=len(w.prob), frame=ex)

        def iteration_obligations():
            if "j" not in rec:
                return
            j, a, b = rec["j"], rec["a"], rec["b"]
            ex = rec["frame"]
            draws = w.prob[rec["n0"]:]
            ok = len(draws) >= 1
            ctx.run.ob(tag + "/iteration/direction-draw" + c, core.DISCHARGED if ok else core.FAILED, "pyvc")
            if not ok:
                return
            _, is_pos, p = draws[0]
            direction = ex.env.lookup("direction")
            ctx.prove(tag + "/iteration/direction-bit-is-fair" + c, z3.And(to_real(p) * 2 == 1, z3.BoolVal(direction == (1 if is_pos else -1))),
                      text="direction = +1 with probability exactly 1/2, -1 otherwise")
            ok = len(w.bt_calls) == 1
            ctx.run.ob(tag + "/iteration/one-build-tree-call" + c, core.DISCHARGED if ok else core.FAILED, "pyvc", detail=str(len(w.bt_calls)))
            if not ok:
                return
            bd, bi, bdir = w.bt_calls[0]
            ctx.prove(tag + "/iteration/new-sub-tree-grown-from-the-edge-in-the-drawn-direction" + c,
                      z3.And(lift(bd) == j, bi == (b if direction == 1 else a), bdir == direction),
                      text="_build_tree(depth=j, state=edge of the current tree in the drawn direction with dir=direction): doubles the trajectory")
            nxt = ex.env.lookup("next_state")
            stats = ex.env.lookup("stats")
            if w.aborted or rec.get("terminated_subtree"):
                pass
            if not w.contract_trees:
                ctx.run.ob(tag + "/iteration/aborted-doubling-keeps-state-and-draws-nothing-more" + c,
                           core.DISCHARGED if (nxt is rec["next"] and len(draws) == 1) else core.FAILED, "pyvc")
                return
            new_tree, new_prop, lo_n, hi_n = w.contract_trees[0]
            terminated = bool(getattr(w, "bt_outcomes", None)) and w.bt_outcomes[-1] == 1
            if terminated or len(draws) == 1:
                # complete new sub-tree rejected by its own criterion: discarded without a selection draw and without being merged -- at EVERY depth,
                # also on the last doubling the depth limit allows (its states cannot reach the merged tree from their side, so keeping them breaks
                # the symmetry of the tree-selection probability)
                kept = nxt is rec["next"] and len(draws) == 1 and ex.env.lookup("tree") is rec["tree"]
                ctx.run.ob(tag + "/iteration/terminated-sub-tree-is-discarded" + c, core.DISCHARGED if kept else core.FAILED, "pyvc",
                           detail="" if kept else f"_build_tree reported termination for a complete sub-tree but sample() went on: {len(draws) - 1} selection draw(s), "
                           f"tree {'unchanged' if ex.env.lookup('tree') is rec['tree'] else 'merged'}, candidate {'kept' if nxt is rec['next'] else 'replaced'}",
                           text="a new sub-tree whose own criterion fired is never merged or selected from, whatever the depth")
                return
            ok = len(draws) == 2
            ctx.run.ob(tag + "/iteration/one-selection-draw" + c, core.DISCHARGED if ok else core.FAILED, "pyvc", detail=str(len(draws)))
            if not ok:
                return
            _, acc, p2 = draws[1]
            p2 = to_real(p2)
            Wn, Wo = WT(lo_n, hi_n), WT(a, b)
            ctx.prove(tag + "/iteration/biased-progressive-acceptance-probability" + c, z3.Implies(Wo > 0, p2 * Wo == z3.If(Wn >= Wo, Wo, Wn)),
                      text="P(move to the new sub-tree's proposal) == min(1, W(new) / W(old))")
            ctx.prove(tag + "/iteration/acceptance-probability-in-unit-interval" + c, z3.And(p2 >= 0, p2 <= 1))
            sel = new_prop if acc else rec["next"]
            ctx.run.ob(tag + "/iteration/next-state-selected-by-the-draw" + c, core.DISCHARGED if nxt is sel else core.FAILED, "pyvc",
                       detail="" if nxt is sel else "next_state is not the state selected by the draw")
            ctx.prove(tag + "/iteration/reject-prob-statistic" + c, to_real(stats["reject_prob"]) == rec["rp"] * (1 - p2))
            ok = len(w.tc_calls) == 1
            ctx.run.ob(tag + "/iteration/criterion-evaluated-once-on-the-merged-tree" + c, core.DISCHARGED if ok else core.FAILED, "pyvc", detail=str(len(w.tc_calls)))
            if ok:
                t, ng, ps, r = w.tc_calls[0]
                lo, hi = (a, hi_n) if direction == 1 else (lo_n, b)
                mid = b if direction == 1 else hi_n
                split_axioms(ctx, lo, mid, hi)
                ctx.prove(tag + "/iteration/merged-tree-and-criterion-arguments" + c,
                          z3.And(w.tree_is(t, lo, hi, j + 1), w.tree_is(ng, lo, mid, j), w.tree_is(ps, mid + 1, hi, j), z3.BoolVal(t is ex.env.lookup("tree"))),
                          text="merged tree = old interval + new interval (lower-index half first); _termination_criterion(merged, lower half, upper half)")

        it.call_contracts["DynamicIntegrationTransition._build_tree"] = Native(
            lambda ex, self_, depth, state, stats, rng, aux: (w.bt_calls.append((depth, lift(w.idx(state)), w.dir(state))), build_tree_contract(w).fn(ex, self_, depth, state, stats, rng, aux))[1], "bt")
        it.call_contracts["DynamicIntegrationTransition._termination_criterion"] = tc_contract(w)
        it.call_contracts["DynamicIntegrationTransition._init_aux_vars"] = Native(aux_contract, "aux")
        it.call_contracts["SliceDynamicIntegrationTransition._init_aux_vars"] = Native(aux_contract, "aux")
        it.loop_specs[(q, 0)] = LoopSpec(inv, havoc, on_body=on_body)
        try:
            try:
                out, stats = w.ex.call(w.ex.getattr(tr, "sample"), [st, w.rng], {})
            except PyRaise as pr:
                ctx.run.ob(tag + "/no-exception-escapes" + c, core.FAILED, "pyvc", detail=f"{exc_name(pr.exc)} escapes sample()")
                return
            except PathEnd:
                iteration_obligations()
                raise
        finally:
            for k in ("DynamicIntegrationTransition._build_tree", "DynamicIntegrationTransition._termination_criterion", "DynamicIntegrationTransition._init_aux_vars",
                      "SliceDynamicIntegrationTransition._init_aux_vars"):
                it.call_contracts.pop(k, None)
            del it.loop_specs[(q, 0)]
        iteration_obligations()
        # post-loop: statistics and returned state
        n = lift(stats["n_step"])
        ctx.prove(tag + "/n_step-equals-integrator-steps-taken" + c, n == w.ghost_steps, text="n_step statistic == number of integrator steps taken in the whole transition")
        flags = any(stats[k] is True for k in ("diverging", "convergence_error", "non_reversible_step"))
        av = to_real(stats["av_metrop_accept_prob"]) if not isinstance(stats["av_metrop_accept_prob"], float) else z3.RealVal(0)
        ctx.prove(tag + "/av-accept-prob-is-mean-over-visited-states" + c, z3.If(n > 0, av * z3.ToReal(n) == w.ghost_acc, av == 0),
                  text="av_metrop_accept_prob == (sum over visited states of min(1, exp(h_init - h))) / n_step")
        acs = stats["accept_stat"]
        acs = to_real(acs) if not isinstance(acs, float) else z3.RealVal(str(acs))
        ctx.prove(tag + "/accept-stat" + c, acs == (z3.RealVal(0) if flags else av), text="accept_stat == mean acceptance probability (0 when an error flag is set)")
        declared_statistics(ctx, w, tr, stats, tag, c)
        ok = "sum_metrop_accept_prob" not in stats
        ctx.run.ob(tag + "/internal-accumulator-not-reported" + c, core.DISCHARGED if ok else core.FAILED, "pyvc")
        ctx.run.ob(tag + "/returns-a-state-of-the-tree" + c, core.DISCHARGED if isinstance(out, Obj) and out.cls is w.cs else core.FAILED, "pyvc")
    it.explore(harness, "dynamic.sample", roots=[[0], [1]])

    def lemma(ctx):
        """biased progressive sampling (one doubling, old tree L of weight W_L, new tree R of weight W_R): for an end state x in L with
        sum_{s in L} w_s T_L(s,x) == w_x (induction hypothesis) the doubled kernel gives
        sum_{s in L} w_s (1 - min(1, W_R/W_L)) T_L(s,x)  +  sum_{s in R} w_s min(1, W_L/W_R) w_x / W_L  ==  w_x."""
        WL_, WR_, wx = z3.Reals("W_L W_R w_x")
        ctx.assume(z3.And(WL_ > 0, WR_ > 0, wx >= 0))
        aLR = z3.If(WR_ >= WL_, 1, WR_ / WL_)
        aRL = z3.If(WL_ >= WR_, 1, WL_ / WR_)
        ctx.prove(tag + "/lemma/biased-progressive-sampling-step", (1 - aLR) * wx + WR_ * aRL * wx / WL_ == wx,
                  text="(1 - min(1, W_R/W_L)) w_x + W_R min(1, W_L/W_R) w_x / W_L == w_x")
    it.explore(lemma, "dynamic.lemma")


def termination_and_aux(run, it):
    """_termination_criterion and SliceDynamicIntegrationTransition._init_aux_vars executed exactly."""
    q = "DynamicIntegrationTransition._termination_criterion"
    tag = P + q
    run.function("mici.transitions." + q)
    run.function("mici.transitions.SliceDynamicIntegrationTransition._init_aux_vars")
    run.function("mici.transitions.DynamicIntegrationTransition._init_aux_vars")
    install_dynamic(it, None)

    def crit(ctx):
        w = DWorld(it, ctx, CLASSES[0], errors=False)
        tr = w.new_transition()
        lo, mid, hi, D = z3.Ints("lo mid hi depth")
        ctx.assume(z3.And(lo <= mid, mid < hi, D >= 1))
        split_axioms(ctx, lo, mid, hi)
        leaf_axioms(ctx, mid)
        leaf_axioms(ctx, mid + 1)
        # S(lo, mid+1) = S(lo, mid) + p(mid+1);  S(mid, hi) = p(mid) + S(mid+1, hi)   (additivity instances)
        ctx.assume(SP(lo, mid + 1) == SP(lo, mid) + SP(mid + 1, mid + 1))
        ctx.assume(SP(mid, hi) == SP(mid, mid) + SP(mid + 1, hi))
        tree, neg, pos = w.make_tree(lo, hi, 1, D), w.make_tree(lo, mid, 1, D - 1), w.make_tree(mid + 1, hi, 1, D - 1)
        f = w.mod.resolve("DynamicIntegrationTransition", ctx).lookup("_termination_criterion")[0]
        r = w.ex.invoke(f, [tr, tree, neg, pos], {})
        calls = w.crit_calls
        contiguous = z3.And(*[sm == SP(a, b) for a, b, sm in calls]) if calls else z3.BoolVal(True)
        ctx.prove(tag + "/criterion-evaluated-on-contiguous-sub-trajectories", contiguous,
                  text="every user-criterion call receives (first state, last state, sum of momenta) of one contiguous sub-trajectory of the tree")
        spans = [(a, b) for a, b, _ in calls]
        ctx.prove(tag + "/first-check-is-the-whole-tree", z3.And(spans[0][0] == lo, spans[0][1] == hi))
        extra_on = ctx.feasible(z3.And(w.extra, D > 1)) and not ctx.feasible(z3.Not(z3.And(w.extra, D > 1)))
        if len(calls) > 1:
            ctx.prove(tag + "/extra-checks-only-when-enabled-and-depth-above-one", z3.And(w.extra, D > 1))
            exp = [(lo, mid + 1), (mid, hi)]
            ctx.prove(tag + "/extra-checks-on-the-two-overlapping-sub-trees", z3.And(*[z3.And(a == ea, b == eb) for (a, b), (ea, eb) in zip(spans[1:], exp)]),
                      text="extra checks: (lower half + first state of upper half) and (last state of lower half + upper half)")
        val = z3.Or(*[CRIT(a, b, sm) for a, b, sm in calls])
        rv_ = r if is_z3(r) else z3.BoolVal(bool(r))
        ctx.prove(tag + "/result-is-disjunction-of-the-checks", rv_ == val)
    it.explore(crit, "termination_criterion")

    def aux(ctx):
        w = DWorld(it, ctx, CLASSES[1], errors=False)
        tr = w.new_transition()
        s0 = z3.Int("s0")
        st = w.make_state(s0, 1)
        u = z3.Real("u")
        ctx.assume(z3.And(u > 0, u < 1))

        def np_log(ex, x):
            if isinstance(x, UDraw):
                w.log_draw = x
                return mathlib.log_term(ex.ctx, u)
            return mathlib.m_log(ex, x)
        old = it.ext_modules["numpy"].log
        it.ext_modules["numpy"].log = Native(np_log, "np.log")
        try:
            a = w.ex.call(w.ex.getattr(tr, "_init_aux_vars"), [st, w.rng], {})
        finally:
            it.ext_modules["numpy"].log = old
        t = P + "SliceDynamicIntegrationTransition._init_aux_vars"
        ctx.prove(t + "/h_init-is-hamiltonian-of-start", to_real(a["h_init"]) == H(s0))
        ok = w.draws == 1 and w.log_draw is not None
        ctx.run.ob(t + "/one-uniform-draw-for-the-slice-level", core.DISCHARGED if ok else core.FAILED, "pyvc")
        lu = to_real(a["log_u"])
        e = mathlib.exp_term(ctx, lu)
        t1 = mathlib.exp_hom(ctx, mathlib.LOG(u), -H(s0))
        ctx.prove(t + "/slice-level-uniform-under-the-start-density", z3.And(lu == mathlib.LOG(u) - H(s0), e == u * mathlib.exp_term(ctx, -H(s0)), lu <= -H(s0)),
                  text="log_u = log(U) - h_init, i.e. exp(log_u) = U exp(-h(start)) is uniform on (0, exp(-h(start))); the start state lies in the slice")
    it.explore(aux, "init_aux_vars")


def criteria_static(run):
    """the built-in termination criteria read nothing but their arguments (no global, random or object state): their value is a function of the
    sub-trajectory they are applied to"""
    import ast
    import os
    src = open(os.path.join(core.SRC, "mici", "transitions.py")).read()
    mod = ast.parse(src)
    for fn in mod.body:
        if isinstance(fn, ast.FunctionDef) and fn.name.endswith("_no_u_turn_criterion"):
            run.function("mici.transitions." + fn.name)
            params = {a.arg for a in fn.args.args}
            body = ast.Module(body=fn.body, type_ignores=[])
            loads = {n.id for n in ast.walk(body) if isinstance(n, ast.Name) and isinstance(n.ctx, ast.Load)}
            stores = [n for n in ast.walk(body) if isinstance(n, (ast.Assign, ast.AugAssign, ast.Global, ast.Nonlocal))]
            ok = loads <= params | {"np"} and not stores
            run.ob(P + fn.name + "/reads-only-its-arguments", core.DISCHARGED if ok else core.FAILED, "frames", detail="" if ok else f"reads {sorted(loads - params)}",
                   text="criterion value is a pure function of (system, state_1, state_2, sum_mom)")
            attrs = {(n.value.id, n.attr) for n in ast.walk(body) if isinstance(n, ast.Attribute) and isinstance(n.value, ast.Name)}
            ok2 = attrs <= {("system", "dh_dmom"), ("state_1", "pos"), ("state_2", "pos"), ("np", "sum")}
            run.ob(P + fn.name + "/reads-velocities-and-positions-only", core.DISCHARGED if ok2 else core.FAILED, "frames", detail="" if ok2 else str(sorted(attrs)))


class FilterRun:
    """view of a Run that records only the obligations selected by `keep` (other properties import subsets of these harnesses)"""

    def __init__(self, base, keep):
        object.__setattr__(self, "_base", base)
        object.__setattr__(self, "_keep", keep)

    def __getattr__(self, name):
        return getattr(self._base, name)

    def __setattr__(self, name, v):
        setattr(self._base, name, v)

    def ob(self, oid, *a, **k):
        if self._keep(oid) or "outside-subset" in oid:
            return self._base.ob(oid, *a, **k)
        return None


C12_KEYS = ("error", "abort", "no-exception-escapes", "nan", "nan-never", "failed-step", "terminated-sub-tree", "loop0")


def c12_obligations(run, tier):
    """containment part (C12): IntegratorErrors, divergences and NaN Hamiltonians inside a trajectory end in a rejection / an earlier valid
    candidate with the matching statistic flag, and no exception escapes Transition.sample"""
    fr = FilterRun(run, lambda oid: any(k in oid for k in C12_KEYS))
    it = make_interp(fr)
    metropolis(fr, it)
    it2 = make_interp(fr)
    build_tree(fr, it2)
    it3 = make_interp(fr)
    dynamic_sample(fr, it3)
    it.dropped |= it2.dropped | it3.dropped
    it.paths += it2.paths + it3.paths
    return it
