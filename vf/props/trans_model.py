"""Engine-A harness over mici.transitions (C01, C12, C08 transition part)."""


def c12_obligations(run, tier):
    return None
