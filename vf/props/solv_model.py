"""Engine-A harness over mici.solvers (real source), shared by C04 (Lagrange-multiplier form,
residual below tolerance on return) and C12 (never return unconverged, only ConvergenceError escapes).

Arrays are abstract: LinVec/LinOp words for the projection solvers (so the invariant
pos == pos0 - Phi_q mu is an algebraic identity), opaque provenance-tracking arrays for the
fixed-point solvers.  Every user-function call is a contract stub that, under the fault model,
may return normally, return a NaN-contaminated value, or raise ValueError / LinAlgError.
"""
from __future__ import annotations

import z3

from .. import core, mathlib
from ..linvec import LinOp, LinVec, Space, vec_eq
from ..models import Opaque
from ..pyvc import (Exec, Interp, LoopSpec, Namespace, Native, Obj, OutsideSubset, PathEnd, PyRaise, exc_name, is_z3, lift,
                    make_exc, to_real)
from .integ_model import install_std

MOD = "mici.solvers"
NAN = float("nan")
INF = float("inf")


class OArr:
    """Opaque array with provenance (op, operands); identity matters, content does not.
    taint: None (finite), 'nan', 'inf' (certainly non-finite), 'laundered' (derived from an inf through a division:
    may be finite again, e.g. x / inf == 0)."""
    n = 0

    def __init__(self, prov, taint=None):
        OArr.n += 1
        self.id = OArr.n
        self.prov = prov
        self.taint = taint
        self.dtype = "float64"

    @property
    def nan(self):
        return self.taint == "nan"

    def _mk(self, op, other):
        ts = [self.taint, other.taint if isinstance(other, OArr) else None]
        if "nan" in ts:
            t = "nan"
        elif op in ("__truediv__", "__rtruediv__") and "inf" in ts:
            divisor = other if op == "__truediv__" else self
            t = "laundered" if isinstance(divisor, OArr) and divisor.taint == "inf" else "inf"
        elif "inf" in ts:
            t = "inf"  # inf +- finite, inf * finite stay non-finite (inf - inf would be NaN: also non-finite)
        elif "laundered" in ts:
            t = "laundered"
        else:
            t = None
        return OArr((op, self, other), t)

    def _pv_binop(self, ex, op, other):
        return self._mk(op, other)

    def _pv_abs(self, ex):
        return OArr(("abs", self), self.taint)

    def _pv_compare(self, ex, op, other):
        return OArr(("cmp", op, self, other))

    def _pv_setitem(self, ex, key, val):
        return None  # masked assignment: content is opaque

    def _pv_getattr(self, ex, name):
        if name == "dtype":
            return "float64"
        if name == "copy":
            return Native(lambda ex2: OArr(("copy", self), self.taint), "copy")
        raise OutsideSubset(f"OArr.{name}")


def raise_fault(ex, which):
    if which == 1:
        raise PyRaise(make_exc(ex.interp, "ValueError", "injected"))
    if which == 2:
        raise PyRaise(make_exc(ex.interp, "NumpyLinAlgError", "injected"))
    le = ex.interp.module("mici.errors").resolve("LinAlgError", ex.ctx)
    raise PyRaise(ex.call(le, ["injected"], {}))


def scalar_outcome(ctx, base, allow_fault=True):
    """A norm / error value: finite real >= 0, NaN, or +inf."""
    k = ctx.choose(3 if allow_fault else 1, base)
    if k == 0:
        r = ctx.fresh(base, "real")
        ctx.assume(r >= 0)
        return r
    return NAN if k == 1 else INF


def make_interp(run):
    it = Interp(run, timeout_ms=20000)
    install_std(it)
    return it


def np_ns(space=None):
    def finfo(ex, dt):
        return Opaque("finfo", eps=z3.Real("eps"))

    def sign(ex, x):
        if is_z3(x):
            return z3.If(x > 0, z3.RealVal(1), z3.If(x < 0, z3.RealVal(-1), z3.RealVal(0)))
        return (x > 0) - (x < 0)

    def zeros_like(ex, v):
        return ex.ctx.ghost["space"].zero()
    def isfinite(ex, x):
        if isinstance(x, OArr):
            if x.taint == "laundered":
                # derived from an inf through a division (x / inf == 0): may be finite again -- both outcomes are explored
                return ex.ctx.choose(2, "laundered-value-is-finite") == 1
            return x.taint is None
        raise OutsideSubset("np.isfinite")

    def np_all(ex, x):
        if isinstance(x, bool):
            return x
        raise OutsideSubset("np.all")
    return Namespace("np", isfinite=Native(isfinite, "np.isfinite"), all=Native(np_all, "np.all"),
                     isnan=Native(mathlib.np_isnan, "np.isnan"), finfo=Native(finfo, "np.finfo"), sign=Native(sign, "np.sign"),
                     zeros_like=Native(zeros_like, "np.zeros_like"), nan=NAN, inf=INF)


def is_cls(it, exc, name):
    cls = it.module("mici.errors").resolve(name, None)
    return isinstance(exc, Obj) and exc.cls.issub(cls)


# ---------------------------------------------------------------------------------------
# fixed point solvers


def fixed_point_solvers(run, it, prefix="solvers."):
    it.ext_modules.setdefault("numpy", np_ns())
    for fname in ("solve_fixed_point_direct", "solve_fixed_point_steffensen"):
        run.function(f"mici.solvers.{fname}")

        def havoc(ex):
            i_ = ex.ctx.fresh("i", "int")
            ex.ctx.ghost["loop_index"] = i_
            if ex.ctx.choose(2, "first-iteration") == 0:
                ex.ctx.assume(i_ == 0)  # iteration 0 from the exact entry state
                return
            ex.ctx.assume(i_ >= 1)
            ex.env.set("x0", OArr(("iterate",)))
            ex.env.set("error", ex.ctx.fresh("prev_error", "real"))

        def inv(ex):
            i = lift(ex.ctx.ghost.get("loop_index", 0))
            return z3.And(i >= 0, i <= z3.Int("max_iters"))

        def h(ctx, fname=fname):
            mod = it.module(MOD)
            ex = Exec(it, ctx, mod, mod.env, "harness")
            tol, dtol, mx = z3.Real("convergence_tol"), z3.Real("divergence_tol"), z3.Int("max_iters")
            ctx.assume(mx >= 1)
            ctx.assume(tol > 0)
            calls, norms = [], []

            def func(ex_, x):
                k = ex_.ctx.choose(6, "func-outcome")
                if k in (1, 2, 3):
                    raise_fault(ex_, k)
                r = OArr(("func", x), taint={4: "nan", 5: "inf"}.get(k))
                calls.append((x, r))
                return r

            def norm(ex_, v):
                if v.taint == "nan":
                    val = NAN
                elif v.taint == "inf":
                    val = INF if ex_.ctx.choose(2, "inf-or-nan") == 0 else NAN
                else:
                    val = scalar_outcome(ex_.ctx, "err", allow_fault=False)
                norms.append((v, val))
                return val
            it.loop_specs[(fname, 0)] = LoopSpec(inv, havoc)
            tag = prefix + fname
            x_init = OArr(("x_init",))
            try:
                try:
                    res = ex.call(mod.resolve(fname, ctx), [Native(func, "func"), x_init],
                                  {"convergence_tol": tol, "divergence_tol": dtol, "max_iters": mx, "norm": Native(norm, "norm")})
                except PyRaise as pr:
                    ok = is_cls(it, pr.exc, "ConvergenceError")
                    ctx.run.ob(tag + "/only-convergence-error-escapes", core.DISCHARGED if ok else core.FAILED, "pyvc",
                               detail="" if ok else f"{exc_name(pr.exc)} {pr.exc.attrs.get('args')} escaped (path {ctx.trace})",
                               text=f"{fname}: every exceptional exit is a ConvergenceError (faults: ValueError, LinAlgError, NaN, inf in func/norm at any call)")
                    return
            finally:
                it.loop_specs.pop((fname, 0), None)
            # normal return: the returned x was tested in the same iteration and passed
            if not norms:
                ctx.run.ob(tag + "/return-implies-converged", core.FAILED, "pyvc", detail="returned without evaluating the error norm")
                return
            v, val = norms[-1]
            finite = is_z3(val)
            ctx.run.ob(tag + "/return-implies-finite-error", core.DISCHARGED if finite else core.FAILED, "pyvc",
                       detail="" if finite else f"returned with error = {val}", text=f"{fname}: never returns when the last error is NaN or inf")
            if finite:
                ctx.prove(tag + "/return-implies-converged", val < tol, text=f"{fname}: normal return => last error < convergence_tol")
            ok = isinstance(v, OArr) and v.prov[0] == "__sub__" and v.prov[1] is res
            ctx.run.ob(tag + "/returns-the-tested-iterate", core.DISCHARGED if ok else core.FAILED, "pyvc",
                       detail="" if ok else "the returned array is not the one whose error was tested",
                       text=f"{fname}: the returned x is the x in the tested norm(x - x0)")
            clean = res.taint is None
            ctx.run.ob(tag + "/returned-iterate-is-finite", core.DISCHARGED if clean else core.FAILED, "pyvc",
                       detail="" if clean else f"the returned iterate is derived from a non-finite function value (taint: {res.taint}; e.g. (x1-x0)**2 / inf == 0 makes "
                       "the step vanish so the unconverged start point passes the convergence test)",
                       text=f"{fname}: a NaN/inf function value never yields a normal return")
        it.explore(h, fname)


# ---------------------------------------------------------------------------------------
# projection solvers


class SolverWorld:
    def __init__(self, it, ctx, fault):
        self.it, self.ctx, self.fault = it, ctx, fault
        self.space = Space(ctx)
        ctx.ghost["space"] = self.space
        it.ext_modules.setdefault("numpy", np_ns())
        self.mod = it.module(MOD)
        self.ex = Exec(it, ctx, self.mod, self.mod.env, "harness")
        sp = self.space
        self.Jp = sp.op("Jp")
        self.Phiq = sp.op("Phi_q", symmetric=True)
        self.Phip = sp.op("Phi_p", symmetric=True)
        self.constr_calls = []  # (pos canon, value)
        self.norm_calls = []
        self.in_setup = True
        self.k = 0
        cs = it.module("mici.states").resolve("ChainState", ctx)
        self.pos0, self.mom0 = sp.atom("q_flow"), sp.atom("p_flow")
        self.state = self.ex.call(cs, [], {"pos": self.pos0.copy(), "mom": self.mom0.copy(), "dir": 1})
        self.state_prev = self.ex.call(cs, [], {"pos": sp.atom("q_prev"), "mom": sp.atom("p_prev"), "dir": 1})
        self.system = self.make_system()

    def var(self, st, n):
        return st.attrs["_variables"][n]

    def maybe_fault(self, ex, what):
        # precondition (recorded): the set-up calls act on state_prev, a valid state whose Jacobian / metric were
        # already evaluated successfully earlier in the trajectory -> no fault is injected there
        if not self.fault or self.in_setup:
            return False
        k = ex.ctx.choose(5, f"{what}-outcome")
        if k in (1, 2, 3):
            self.last_fault = (what, self.in_setup)
            raise_fault(ex, k)
        return k == 4  # NaN-contaminated result

    def make_system(self):
        w = self
        sp = self.space

        def constr(ex, st):
            nan = w.maybe_fault(ex, "constr")
            w.k += 1
            v = sp.atom(f"c{w.k}")
            v.nan = nan
            w.constr_calls.append((w.var(st, "pos").canon(), v, st))
            return v

        def jacob_constr(ex, st):
            nan = w.maybe_fault(ex, "jacob_constr")
            if st is w.state_prev:
                return w.Jp
            w.k += 1
            J = sp.op(f"J{w.k}")
            J.nan = nan
            return J

        def dh2_flow_dmom(ex, st, dt):
            w.maybe_fault(ex, "dh2_flow_dmom")
            w.dmom_args = (st, dt)
            return (w.Phiq, w.Phip)

        def inner(ex, j1, m, j2=None):
            nan = w.maybe_fault(ex, "jacob_constr_inner_product")
            w.k += 1
            G = sp.op(f"G{w.k}", invertible=True)
            w.inner_args = getattr(w, "inner_args", []) + [(j1, m, j2, G)]
            if nan or getattr(j1, "nan", False):
                # building a matrix from a non-finite array raises mici.errors.LinAlgError in the real constructors
                raise_fault(ex, 3)
            return Opaque("gram", inv=G.inv)
        return Opaque("system", constr=Native(constr, "system.constr"), jacob_constr=Native(jacob_constr, "system.jacob_constr"),
                      dh2_flow_dmom=Native(dh2_flow_dmom, "system.dh2_flow_dmom"),
                      jacob_constr_inner_product=Native(inner, "system.jacob_constr_inner_product"))

    def norm_native(self):
        w = self

        def norm(ex, v):
            if v is None or isinstance(v, (str, bool)):
                # contract of a norm: its argument is an array; numpy raises TypeError for None (a loop-carried vector that is still unset)
                raise PyRaise(make_exc(ex.interp, "TypeError", f"unsupported operand type for norm: {type(v).__name__}"))
            if isinstance(v, LinVec) and getattr(v, "nan", False):
                val = NAN
            else:
                val = scalar_outcome(ex.ctx, "norm", allow_fault=w.fault)
            w.norm_calls.append((v.copy() if isinstance(v, LinVec) else v, val))
            return val
        return Native(norm, "norm")


def mu_in_range_of_JpT(mu):
    return all(w[0] == "Jp^T" for w in mu.terms)


def projection_solvers(run, it, prop, prefix="solvers."):
    """prop in {'C04','C12'}: which obligations to emit."""
    names = ["solve_projection_onto_manifold_quasi_newton", "solve_projection_onto_manifold_newton",
             "solve_projection_onto_manifold_newton_with_line_search"]
    for fname in names:
        run.function(f"mici.solvers.{fname}")

        def h(ctx, fname=fname):
            fault = prop == "C12"
            w = SolverWorld(it, ctx, fault)
            ex = w.ex
            t = z3.Real("time_step")
            ctx.assume(t != 0)
            ctol, ptol, dtol = z3.Real("constraint_tol"), z3.Real("position_tol"), z3.Real("divergence_tol")
            ctx.assume(ctol > 0)
            mx = z3.Int("max_iters")
            ctx.assume(mx >= 1)
            kw = {"constraint_tol": ctol, "position_tol": ptol, "divergence_tol": dtol, "max_iters": mx, "norm": w.norm_native()}
            tag = prefix + fname
            ls = fname.endswith("line_search")
            if ls:
                mls = z3.Int("max_line_search_iters")
                ctx.assume(mls >= 1)
                kw["max_line_search_iters"] = mls
            mark = {}

            def get_mu(ex_):
                try:
                    return ex_.env.lookup("mu")
                except KeyError:
                    return None

            # ---- outer loop contract: I1 pos == pos0 - Phi_q mu, I2 mu in range(Jp^T), mom untouched
            def havoc(ex_):
                c = ex_.ctx
                i_ = c.fresh("i", "int")
                c.ghost["loop_index"] = i_
                w.in_setup = False
                if c.choose(2, "first-iteration") == 0:
                    # iteration 0 runs from the exact entry state (loop-carried locals are still unbound)
                    c.assume(i_ == 0)
                    return
                c.assume(i_ >= 1)
                lam = w.space.atom("lambda_acc")
                mu = w.Jp.T._pv_binop(ex_, "__matmul__", lam)
                ex_.env.set("mu", mu)
                ex_.setattr(w.state, "pos", w.pos0._pv_binop(ex_, "__sub__", w.Phiq._pv_binop(ex_, "__matmul__", mu)))
                for nm in ("error", "delta_pos", "step_size", "constr", "delta_mu"):
                    if nm == "error":
                        ex_.env.set(nm, c.fresh("prev_error", "real"))
                    elif nm == "step_size":
                        ex_.env.set(nm, c.fresh("prev_step", "real"))
                    elif nm == "delta_pos":
                        ex_.env.set(nm, w.space.atom("prev_delta_pos"))
                w.in_setup = False

            def inv(ex_):
                i = lift(ex_.ctx.ghost.get("loop_index", 0))
                mu = get_mu(ex_)
                conds = [i >= 0, i <= mx]
                if mu is not None:
                    want = w.pos0._pv_binop(ex_, "__sub__", w.Phiq._pv_binop(ex_, "__matmul__", mu))
                    conds.append(vec_eq(w.var(w.state, "pos"), want))
                    conds.append(vec_eq(w.var(w.state, "mom"), w.mom0))
                    conds.append(z3.BoolVal(mu_in_range_of_JpT(mu)))
                return z3.And(*conds)

            def on_body(ex_):
                mark["body"] = True
                w.in_setup = False

            def on_exit(ex_):
                w.in_setup = False
            it.loop_specs[(fname, 0)] = LoopSpec(inv, havoc, on_body=on_body, on_exit=on_exit)
            if ls:
                # inner line-search loop: j trials done without success
                def havoc2(ex_):
                    c = ex_.ctx
                    c.ghost["loop_index"] = c.fresh("j", "int")
                    c.ghost["ls_j"] = c.ghost["loop_index"]
                    s = c.fresh("ls_step", "real")
                    ex_.env.set("step_size", s)
                    j = c.ghost["ls_j"]
                    pc, dp = ex_.env.lookup("pos_curr"), ex_.env.lookup("delta_pos")
                    # after j >= 1 failed trials the position holds the last trial point (step 2*s); for j == 0 it is untouched
                    if c.choose(2, "j>=1") == 1:
                        c.assume(j >= 1)
                        ex_.setattr(w.state, "pos", pc._pv_binop(ex_, "__add__", dp.scaled(2 * s)))
                    else:
                        c.assume(j == 0)
                        c.assume(s == 1)

                def inv2(ex_):
                    c = ex_.ctx
                    j = c.ghost.get("loop_index", 0)
                    s = to_real(ex_.env.lookup("step_size"))
                    pc, dp = ex_.env.lookup("pos_curr"), ex_.env.lookup("delta_pos")
                    pos = w.var(w.state, "pos")
                    if not is_z3(j):
                        return z3.And(s == 1, vec_eq(pos, pc))
                    return z3.And(j >= 0, s > 0, z3.If(j == 0, z3.And(s == 1, vec_eq(pos, pc)),
                                                        vec_eq(pos, pc._pv_binop(ex_, "__add__", dp.scaled(2 * s)))))

                it.loop_specs[(fname, 1)] = LoopSpec(inv2, havoc2)
            raised = None
            try:
                try:
                    res = ex.call(w.mod.resolve(fname, ctx), [w.state, w.state_prev, t, w.system], kw)
                except PyRaise as pr:
                    raised = pr.exc
                except PathEnd:
                    raise
            finally:
                it.loop_specs.pop((fname, 0), None)
                it.loop_specs.pop((fname, 1), None)
            if raised is not None:
                ok = is_cls(it, raised, "ConvergenceError")
                if prop == "C12":
                    where = "setup" if w.in_setup else "iteration"
                    ctx.run.ob(tag + f"/only-convergence-error-escapes[{where}]", core.DISCHARGED if ok else core.FAILED, "pyvc",
                               detail="" if ok else f"{exc_name(raised)} {raised.attrs.get('args')} escapes the solver ({where} region; last injected fault {getattr(w, 'last_fault', None)})",
                               text=f"{fname}: every exceptional exit is a ConvergenceError ({where} region), faults injected at every user-function call")
                else:
                    ctx.run.ob(tag + "/failure-is-convergence-error", core.DISCHARGED if ok else core.FAILED, "pyvc",
                               detail="" if ok else f"{exc_name(raised)} {raised.attrs.get('args')}")
                return
            # ---- normal return -----------------------------------------------------------------------------
            same = res is w.state
            ctx.run.ob(tag + "/returns-the-projected-state", core.DISCHARGED if same else core.FAILED, "pyvc", detail="" if same else "returned another object")
            # some residual norm evaluated at the *returned* position is below the tolerance on this path
            cur = w.var(w.state, "pos").canon()
            at_cur = [c[1].canon() for c in w.constr_calls if c[0] == cur]
            cands = [val for v, val in w.norm_calls if isinstance(v, LinVec) and v.canon() in at_cur]
            if not cands:
                ctx.run.ob(tag + "/tested-residual-is-at-returned-position", core.FAILED, "pyvc",
                           detail="no constraint residual was evaluated at the returned position (the position changed after the last convergence test)",
                           text=f"{fname}: the residual used in the return test was evaluated at the returned position")
                return
            ctx.run.ob(tag + "/tested-residual-is-at-returned-position", core.DISCHARGED, "pyvc",
                       text=f"{fname}: the residual used in the return test was evaluated at the returned position")
            fin = [val for val in cands if is_z3(val)]
            ctx.prove(tag + "/return-implies-residual-below-tolerance", z3.Or(*[val < ctol for val in fin]) if fin else False,
                      text=f"{fname}: normal return => norm(constr(returned state)) < constraint_tol")
            if prop == "C04":
                mu = None
                # mu is a local of the solver; its final value is recoverable from the momentum correction: check both forms
                pos, mom = w.var(w.state, "pos"), w.var(w.state, "mom")
                dq = w.pos0._pv_binop(ex, "__sub__", pos)  # == Phi_q mu
                # momentum correction must be sign(t) * Phi_p mu with the *same* mu: compare word-wise after stripping Phi_q / Phi_p
                def strip(vec, opname):
                    out = {}
                    for wd, c in vec.terms.items():
                        if wd[0] != opname:
                            return None
                        out[wd[1:]] = c
                    return LinVec(w.space, out)
                mu_q = strip(dq, "Phi_q")
                dp = w.mom0._pv_binop(ex, "__sub__", mom)
                mu_p = strip(dp, "Phi_p")
                ok_form = mu_q is not None and mu_p is not None and mu_in_range_of_JpT(mu_q)
                ctx.run.ob(tag + "/lagrange-multiplier-form", core.DISCHARGED if ok_form else core.FAILED, "pyvc",
                           detail="" if ok_form else f"pos0-pos = {dq}, mom0-mom = {dp}",
                           text=f"{fname}: pos0 - pos = Phi_q J_prev^T lambda and mom0 - mom = Phi_p (...)")
                if ok_form:
                    sgn = z3.If(t > 0, z3.RealVal(1), z3.RealVal(-1))
                    ctx.prove(tag + "/one-common-multiplier", vec_eq(mu_p, mu_q.scaled(sgn)),
                              text=f"{fname}: the momentum correction uses sign(t) * the same multiplier mu as the position correction")
                st_, dt_ = w.dmom_args
                ctx.run.ob(tag + "/flow-derivative-at-previous-state", core.DISCHARGED if st_ is w.state_prev else core.FAILED, "pyvc",
                           detail="" if st_ is w.state_prev else "dh2_flow_dmom evaluated at the wrong state")
                ctx.prove(tag + "/flow-derivative-uses-abs-time", to_real(dt_) == z3.If(t >= 0, t, -t))
        it.explore(h, fname)

        # preservation paths end with PathEnd inside explore; obligations loopK.preserve carry I1/I2
