"""C03 -- integrator steps are symplectic maps.

 exact (Engine B): the Jacobian of every explicit component flow (h1_flow, Euclidean and Gaussian h2_flow, all metric types,
   symbolic time, uninterpreted smooth target) satisfies J^T Omega J == Omega; whole leapfrog / BCSS steps of the real
   integrator on the real system are traced and checked the same way.
 structural (Engine A, imported from C02/C06): explicit steps are compositions of exactly these flows; implicit sub-steps are
   the documented generalised-leapfrog / implicit-midpoint equations and their algebraic adjoints; constrained steps have the
   RATTLE form (projection after every sub-step, one Lagrange multiplier).  "Composition of symplectic maps is symplectic" and
   "these schemes are symplectic" (Leimkuhler & Reich 2004; Reich 1996) are cited theorems (A9), NOT proved here.
 bounded (native numeric, labelled): finite-difference Jacobians of real implicit-leapfrog, implicit-midpoint and constrained
   steps satisfy the (induced) symplectic condition to 1e-5 on sampled states.
"""
from __future__ import annotations

import json
import os
import subprocess

from .. import core, symla
from . import c02, c04, c06, solv_model, symla_systems
from .integ_model import make_interp


def bounded_numeric(run_):
    script = os.path.join(core.VERIF, "replays", "c03_symplectic.py")
    env = dict(os.environ, PYTHONPATH=core.SRC)
    try:
        p = subprocess.run([core.NATIVE_PY, script, "json"], capture_output=True, text=True, timeout=900, env=env)
        res = json.loads(p.stdout.strip().splitlines()[-1])
    except Exception as e:  # noqa: BLE001
        run_.ob("integrators/implicit-and-constrained-steps-numerically-symplectic", core.ERROR, "native-exec", detail=f"{type(e).__name__}: {e}", klass="bounded")
        return
    for name, r in res.items():
        ok = r["ok"]
        run_.ob(f"integrators.{name}/finite-difference-jacobian-symplectic", core.DISCHARGED if ok else core.FAILED, "native-exec", klass="bounded",
                detail=f"{r['trials']} states, max |J^T Omega J - Omega| = {r['max_err']:.2e}" + ("" if ok else f" at {r.get('witness')}"),
                witness=r.get("witness"), text="bounded: finite-difference Jacobian of the real step satisfies the (induced) symplectic condition on sampled states")


def check_implicit_arrangement(run_, it):
    """the cited theorem (A9) is about the generalised leapfrog Phi*_{t/2} o Phi_{t/2} with Phi = C o B o A (symplectic Euler): the real _step must
    apply exactly A B C C* B* A -- a merely palindromic arrangement such as A B C* C B* A is time-reversible but not symplectic"""
    import z3
    from .. import core as _core
    from .integ_model import World, positive_step
    tag = "integrators.ImplicitLeapfrogIntegrator._step"

    def h(ctx):
        w = World(it, ctx)
        integ = w.new("ImplicitLeapfrogIntegrator", step_size=positive_step(ctx))
        st = w.make_state()
        t = z3.Real("t")
        calls = c06._substep_trace(it, "ImplicitLeapfrogIntegrator", list(c06.LEAP_LABEL), lambda: w.ex.call(w.ex.getattr(integ, "_step"), [st, t], {}))
        seq = [c06.LEAP_LABEL[n] for n, s, tt in calls]
        good = seq == ["A", "B", "C", "C*", "B*", "A"]
        ctx.run.ob(tag + "/generalised-leapfrog-arrangement", _core.DISCHARGED if good else _core.FAILED, "pyvc", detail="" if good else f"sequence {seq}",
                   text="sub-steps are applied in the order A B C C* B* A (implicit symplectic-Euler half step followed by its adjoint)")
        half = [tt for n, s, tt in calls]
        if good:
            from .c06 import to_real
            ctx.prove(tag + "/generalised-leapfrog-half-times", z3.And(*[to_real(x) == t / 2 for x in half]), text="every sub-step uses time_step / 2")
    it.explore(h, "ImplicitLeapfrogArrangement")


def lemma_composition(run_):
    """`a step is a composition of component maps` + `every component map is symplectic` => `the step is symplectic`: the closure properties of the
    symplectic group, for ALL phase-space dimensions, by rewriting in the typed non-commutative algebra (Engine D): with J1^T W J1 = W and J2^T W J2 = W
    (W the canonical form, any invertible matrix here)  (J2 J1)^T W (J2 J1) = W,  and  (J^-1)^T W J^-1 = W  (shown as J^T [(J^-1)^T W J^-1] J = J^T W J)."""
    import sympy as sp
    from .. import ncalg
    from ..ncalg import Base, Poly
    d = sp.Symbol("d", integer=True, positive=True)  # phase-space dimension 2n
    dims = [{d: 4}, {d: 6}]
    ncalg.reset()
    W = Poly.atom(Base("W", d, d, inv=True))
    J1b, J2b = Base("J1", d, d, inv=True), Base("J2", d, d, inv=True)
    J1, J2 = Poly.atom(J1b), Poly.atom(J2b)
    for Jb in (J1b, J2b):
        ncalg.add_rule((ncalg.occ(Jb, True), ncalg.occ(W.single()[0][0][0]), ncalg.occ(Jb)), W)
    comp = J2 * J1
    st = ncalg.decide_equal(comp.T() * W * comp, W, dims)
    run_.ob("lemma/composition-of-symplectic-maps-is-symplectic", {"discharged": core.DISCHARGED, "failed": core.FAILED, "unknown": core.UNKNOWN}[st[0]], st[1], detail=st[2],
            text="for all dimensions: J1^T W J1 = W and J2^T W J2 = W imply (J2 J1)^T W (J2 J1) = W (steps are compositions of the component maps proved symplectic above)")
    Ji = ncalg.inverse(J1)
    st = ncalg.decide_equal(J1.T() * (Ji.T() * W * Ji) * J1, J1.T() * W * J1, dims)
    run_.ob("lemma/inverse-of-a-symplectic-map-is-symplectic", {"discharged": core.DISCHARGED, "failed": core.FAILED, "unknown": core.UNKNOWN}[st[0]], st[1], detail=st[2],
            text="for all dimensions: J^T W J = W implies (J^-1)^T W J^-1 = W (adjoint sub-steps = inverses of the forward sub-step with negated time)")


def run(run_, tier):
    lemma_composition(run_)
    run_.assume("A9 (cited, not proved; the group-closure part -- composition and inverse -- is now the discharged lemma above): the implicit symplectic-Euler sub-maps of generalised leapfrog / implicit midpoint are symplectic; "
                "RATTLE-type projection steps are symplectic on the cotangent bundle of the constraint manifold")
    run_.assume("A4 smooth user functions with exact derivative functions (Hessians symmetric); A1 reals; dimension 2")
    for k, v in symla.SHIM_TABLE.items():
        run_.trust(f"shim {k}: {v}")
    run_.replay_for("", lambda w: {"script": "c03_symplectic.py", "args": ["check"], "timeout": 900})
    n = symla_systems.run_cases(run_, "c03_cases")
    it = make_interp(run_)
    c06.check_leapfrog(run_, it)
    c06.check_composition(run_, it, "quick")
    c02.check_leapfrog_pairs(run_, it)
    c02.check_midpoint_pair(run_, it)
    check_implicit_arrangement(run_, it)
    c06.check_implicit_leapfrog(run_, it)
    c06.check_implicit_midpoint(run_, it)
    c04.integrator_trace(run_, it)
    it2 = solv_model.make_interp(run_)
    solv_model.projection_solvers(run_, it2, "C04")
    symla_systems.c04_obligations(run_, tier)
    # the sub-step equations use the derivative functions: the schemes are symplectic only if these are the gradients of one function each (C05)
    symla_systems.run_cases(run_, "c05_cases", keep=lambda oid: any(k in oid for k in (
        "dh1_dpos-is-gradient-of-h1", "dh2_dmom-is-gradient-of-h2", "dh2_dpos-is-gradient-of-h2",
        # the implicit midpoint map is symplectic because it is the midpoint rule of a HAMILTONIAN vector field: (dh_dmom, -dh_dpos) must be the gradient of h
        "dh_dpos-is-gradient-of-h", "dh_dmom-is-gradient-of-h", "dh1_dpos-stable-under-repeated-evaluation", "grad-cache-not-corrupted")))
    # ... incl. the SoftAbs metric class (gradient contracts of C11) and the state cache the derivative functions are reached through (C09)
    from . import premises
    premises.softabs_gradients(run_)
    premises.cache_protocol(run_)
    bounded_numeric(run_)
    run_.notes.append(f"{n} exact flow / step cases")
