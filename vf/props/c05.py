"""C05 -- Hamiltonian values and derivative methods of every system are consistent.

Engine B (symla_systems): every concrete system class x metric type x derivative-function return convention is instantiated with
uninterpreted smooth model functions; h1, h2, h equal the documented formulas and every derivative method equals the sympy
derivative of the corresponding value (for every smooth model function, every position and momentum, at dimension 2).
"""
from __future__ import annotations

import json

from .. import symla
from . import symla_systems


def run(run_, tier):
    run_.assume("A4: user derivative functions return the true derivatives in the documented conventions (they are generated as sympy derivatives of the uninterpreted model functions)")
    run_.assume("A1 reals; dimension 2 (one constraint); SoftAbs Riemannian system covered through its metric class in C10/C11 and the generic RiemannianMetricSystem methods here")
    for k, v in symla.SHIM_TABLE.items():
        run_.trust(f"shim {k}: {v}")
    for c in ("EuclideanMetricSystem", "GaussianEuclideanMetricSystem", "DenseConstrainedEuclideanMetricSystem", "GaussianDenseConstrainedEuclideanMetricSystem",
              "ScalarRiemannianMetricSystem", "DiagonalRiemannianMetricSystem", "CholeskyFactoredRiemannianMetricSystem", "DenseRiemannianMetricSystem"):
        for m in ("h", "h1", "h2", "dh1_dpos", "dh2_dpos", "dh2_dmom", "dh_dpos", "dh_dmom"):
            run_.function(f"mici.systems.{c}.{m}")
    run_.replay_for("", lambda w: {"script": "c05_derivatives.py", "args": [json.dumps(w or {})], "timeout": 900})
    n = symla_systems.run_cases(run_, "c05_cases")
    # Engine D: the kinetic term of the Euclidean-family systems for ALL dimensions and every metric object satisfying the matrix contract
    from . import generic_systems
    generic_systems.run_generic_systems(run_, keep=lambda oid: any(t in oid for t in ("dh2_dmom", "h2-is-half", "dh2_dpos", "metric-inverse")))
    # SoftAbsRiemannianMetricSystem = generic RiemannianMetricSystem methods (proved above for scalar / diagonal / Cholesky / dense metrics) applied to the
    # SoftAbs metric class: its gradient contracts (symbolic softabs_coeff, distinct and repeated eigenvalues) are C11's obligations, imported here
    from . import c09, c11
    from .trans_model import FilterRun
    c11.run_obligations(run_, keep=lambda oid: "SoftAbs" in oid)
    # a memoised value or derivative method must declare every state variable it reads (else the value is stale after a position-only update)
    c09.static_layers(FilterRun(run_, lambda oid: "reads-within-declared-dependencies" in oid), "C09")  # "C09" selects the read-set layer
    # ... and the cache protocol itself (a value memoised under the wrong key, or kept after a pickle round trip, is a wrong value of the method)
    from . import c10, premises
    c10.log_space_obligations(run_)  # h1 of the Riemannian / constrained systems is finite wherever 1/2 log|det| is: no intermediate determinant
    premises.cache_protocol(run_)
    run_.notes.append(f"{n} system configurations")
