"""C12 -- numerical failures inside a trajectory are contained as rejections.

Fault model = contracts of the user-supplied functions: every call may return normally, return a NaN/inf-contaminated
value, or raise ValueError / numpy LinAlgError / mici.errors.LinAlgError -- at any call, independently.
Contracts:
  solvers.solve_fixed_point_{direct,steffensen}, three projection solvers : normal return => converged on the returned
      iterate; every exceptional exit is a ConvergenceError
  integrators: step() lets only IntegratorError escape; constrained inner step never continues after a failed check
  transitions: see trans_model (Metropolis / dynamic transitions return a valid state and set the matching flag)
"""
from __future__ import annotations

import json

from .. import core
from . import c02, solv_model
from .integ_model import make_interp as integ_interp


def check_nan_containment(run, it):
    """A user function returning NaN makes library matrix code raise mici.errors.LinAlgError; step() must still let only
    IntegratorErrors escape (so that transitions, which catch IntegratorError, can reject)."""
    import z3
    from ..pyvc import PyRaise, exc_name
    from .integ_model import World, positive_step
    cases = [("ConstrainedLeapfrogIntegrator", {"project_onto_cotangent_space"}),
             ("ImplicitLeapfrogIntegrator", {"dh2_dpos", "dh2_dmom"}),
             ("ImplicitMidpointIntegrator", {"dh_dpos", "dh_dmom"})]

    def h(ctx):
        name, faults = cases[ctx.choose(len(cases), "class")]
        w = World(it, ctx, constrained=(name == "ConstrainedLeapfrogIntegrator"), fault=faults)
        kw = {"step_size": positive_step(ctx), "reverse_check_norm": w.norm_stub(), "reverse_check_tol": z3.Real("tol")}
        if name.startswith("Implicit"):
            kw["fixed_point_solver"] = w.fixed_point_solver_stub()
        else:
            kw.update(projection_solver=w.projection_solver_stub(), n_inner_step=1)
        integ = w.new(name, **kw)
        st = w.make_state()
        tag = f"integrators.{name}.step/nan-fault-contained"
        try:
            w.ex.call(w.ex.getattr(integ, "step"), [st], {})
        except PyRaise as pr:
            ok = c02.exc_is(None, pr.exc, "IntegratorError", it)
            site = w.fault_hits[-1] if w.fault_hits else "?"
            # the error kinds step() may raise are the ones EVERY integration transition declares a statistic for (plain IntegratorError,
            # NonReversibleStepError, ConvergenceError); `diverging` is declared by the dynamic transitions only, which raise
            # HamiltonianDivergenceError themselves -- a step() that raises it makes the Metropolis transitions return an undeclared statistic
            div = c02.exc_is(None, pr.exc, "HamiltonianDivergenceError", it)
            ctx.run.ob(f"integrators.{name}.step/raises-only-error-kinds-every-transition-declares", core.DISCHARGED if not div else core.FAILED, "pyvc",
                       detail="" if not div else f"step() raises {exc_name(pr.exc)} (fault in {site}): MetropolisIntegrationTransition.sample then returns the statistic "
                       "'diverging', which it does not declare; the sampler's write of it aborts the chain with KeyError",
                       witness=None if not div else {"integrator": name, "fault": site},
                       text="step() never raises HamiltonianDivergenceError (raised, and its statistic declared, only by the dynamic transitions)")
            ctx.run.ob((tag + "@" + site) if not ok else tag, core.DISCHARGED if ok else core.FAILED, "pyvc",
                       detail="" if ok else f"mici.errors.{exc_name(pr.exc)} raised by {site} (evaluated outside any solver try-block) escapes step(): "
                       "it is not an IntegratorError, so Transition.sample does not catch it and the chain aborts",
                       text=f"{name}.step: a non-finite user-function value surfaces only as an IntegratorError")
            return
        ctx.run.ob(tag, core.DISCHARGED, "pyvc", text=f"{name}.step: a non-finite user-function value surfaces only as an IntegratorError")
    it.explore(h, "nan-containment", roots=[[0], [1], [2]])


def run(run_, tier):
    it = solv_model.make_interp(run_)
    run_.assume("fault model: any user-function call returns normally, returns NaN/inf, or raises ValueError/LinAlgError; "
                "forced non-convergence = the loop running out of iterations")
    run_.trust("matrix constructors raise mici.errors.LinAlgError on non-finite input (derived from matrices.py, checked in C10/C19)")
    run_.replay_for("", lambda w: {"script": "c12_faults.py", "args": ["all", json.dumps(w or {})]})
    solv_model.fixed_point_solvers(run_, it)
    solv_model.projection_solvers(run_, it, "C12")
    it2 = integ_interp(run_)
    c02.check_step_frame(run_, it2)
    c02.check_constrained_inner(run_, it2)
    c02.check_leapfrog_pairs(run_, it2)
    c02.check_midpoint_pair(run_, it2)
    c02.check_substep_errors_propagate(run_, it2)
    check_nan_containment(run_, it2)
    from . import trans_model
    it3 = trans_model.c12_obligations(run_, tier)
    drops = it.dropped | it2.dropped | (it3.dropped if it3 else set())
    run_.extraction_drops.extend(sorted(drops))
    run_.notes.append(f"paths explored: {it.paths + it2.paths + (it3.paths if it3 else 0)}")
