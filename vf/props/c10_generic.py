"""Dimension-generic part of C10 (and of the C19 / C08 obligations that need only ring reasoning), decided by Engine D
(vf/ncalg.py): the real classes of mici/matrices.py are executed on typed non-commutative polynomials over matrix atoms of
symbolic dimensions n, k, m.

Modularity.  Operands of the composite classes are *contract stubs*: subclasses of the real abstract base classes
(Matrix / SquareMatrix / InvertibleMatrix / SymmetricMatrix / PositiveDefiniteMatrix) whose abstract hooks are implemented
by the interface contract
    array = a,   M @ X = a X,   X @ M = X a,   M.T ~ a^T,   M.inv ~ a^{-1},   c * M ~ c a,   log_abs_det = log|det a|,
    sqrt ~ w with w w^T = a
for an arbitrary atom `a` (arbitrary dimension).  The concrete template code of the base classes (operator dispatch,
product-class choice, transpose / inverse / sqrt caching) is the real code.  Every method of a composite class is thus
verified against the *contracts* of its operands, for all operand objects and all dimensions; together with the leaf classes
(verified here at generic dimension where their code is ring-level, and entrywise by Engine B otherwise) this gives the
property for expression trees of any depth by induction on the tree.

Per object O with expected operator E (a polynomial) the obligations are
  wf(O)            class invariant (a stored capacitance matrix equals inner^{-1} + s right square^{-1} left)
  view(O) == E     abstract view computed from the documented constructor parameters
  O.array, O @ X, O @ x, Y @ O, x @ O      agree with E
  O.T, O.inv, c*O, O/c, -O, O.sqrt          are well-formed objects whose view is E^T, E^{-1} (as E X = 1), cE, E/c, -E, S S^T = E
  O.log_abs_det == log|det E|               in the commutative lad layer, with the determinant lemma instantiated
and recursively for the derived objects (depth 2).
"""
from __future__ import annotations

import json
import time
import traceback

import sympy as sp

from .. import core, ncalg
from ..ncalg import NCArr, Poly, Undecided, Base, DiagVec

n, k, m = sp.symbols("n k m", integer=True, positive=True)
STANDINS = ("NCArr", "DiagVec", "DiagOf", "LUToken", "_LUUpper", "Scal", "_ColDiag", "Symbol", "Poly")
DIMS = [{n: 3, k: 2, m: 2}, {n: 4, k: 1, m: 3}]


def load():
    import importlib
    import sys
    for kk in [kk for kk in sys.modules if kk == "mici" or kk.startswith("mici.")]:
        del sys.modules[kk]
    if core.SRC not in sys.path:
        sys.path.insert(0, core.SRC)
    return importlib.import_module("mici.matrices")


# ---------------------------------------------------------------------------------------
# contract stubs


def make_stubs(M):
    class AbsMatrix(M.Matrix):
        """arbitrary object satisfying the Matrix interface contract; abstract view = self._view"""
        _stub = True

        def __init__(self, view, **kw):
            super().__init__((view.rows, view.cols), **kw)
            self._view = view

        def _like(self, view):
            return AbsMatrix(view)

        @property
        def array(self):
            return NCArr(self._view, 2)

        def _left_matrix_multiply(self, other):
            return NCArr(self._view, 2) @ other

        def _right_matrix_multiply(self, other):
            return other @ NCArr(self._view, 2)

        def _scalar_multiply(self, scalar):
            return self._like_scaled(scalar)

        def _like_scaled(self, scalar):
            return AbsMatrix(self._view.scale(scalar))

        def _construct_transpose(self):
            return self._like(self._view.T())

        def _compute_hash(self):
            return hash(self._view)

        def _check_equality(self, other):
            return self._view == other._view

    class AbsSquare(AbsMatrix, M.SquareMatrix):
        def _like(self, view):
            return type(self)(view)

        def _like_scaled(self, scalar):
            return type(self)(self._view.scale(scalar))

        @property
        def log_abs_det(self):
            return ncalg.lad_of(self._view)

    class AbsInvertible(AbsSquare, M.InvertibleMatrix):
        def _construct_inv(self):
            return type(self)(ncalg.inverse(self._view))

    class AbsSymmetric(AbsSquare, M.SymmetricMatrix):
        def _construct_transpose(self):
            return self

    class AbsSymInvertible(AbsSymmetric, AbsInvertible):
        pass

    class AbsPosDef(AbsSymInvertible, M.PositiveDefiniteMatrix):
        def __init__(self, view, **kw):
            super().__init__(view, **kw)
            s = view.single()
            if s is not None and len(s[0]) == 1 and s[0][0][0].kind == "param" and s[0][0][0].pd:
                pd_sqrt(view)  # a positive definite parameter a is eliminated in favour of some w with w w^T = a from the start

        def _like_scaled(self, scalar):
            if scalar > 0:
                return AbsPosDef(self._view.scale(scalar))
            return AbsSymInvertible(self._view.scale(scalar))

        def _construct_sqrt(self):
            return AbsInvertible(pd_sqrt(self._view))

    return dict(Matrix=AbsMatrix, Square=AbsSquare, Invertible=AbsInvertible, Symmetric=AbsSymmetric,
                SymInvertible=AbsSymInvertible, PosDef=AbsPosDef)


def pd_sqrt(p):
    """some w with w w^T = p for a positive definite p (contract of PositiveDefiniteMatrix.sqrt)"""
    p = ncalg.nf(p)
    for q, w in ncalg.CTX.__dict__.setdefault("pd_sqrts", []):
        if ncalg._same(q, p):
            return w
    w = ncalg.split_square(p)
    if w is not None and w.rows == w.cols:
        ncalg.CTX.pd_sqrts.append((p, w))
        return w
    s = p.single()
    if s is not None and len(s[0]) == 1 and s[0][0][0].kind == "param" and s[0][0][0].pd:
        (b, _t, i), c = s[0][0], s[1]
        wb = Base("w_" + b.name, b.rows, b.cols, inv=True, kind="defined", definition=Poly.atom(b), fn="chol")
        wb.weight = 1
        W = Poly.atom(wb)
        ncalg.add_rule((ncalg.occ(b),), W * W.T())
        ncalg.add_rule((ncalg.occ(b, False, True),), ncalg.inverse(W).T() * ncalg.inverse(W))
        ncalg.CTX.lad_eqs.append(2 * wb.lad - b.lad)
        w = (ncalg.inverse(W).T() if i else W).scale(sp.sqrt(c))
        ncalg.CTX.pd_sqrts.append((p, w))
        return w
    w = ncalg.cholesky(p)
    ncalg.CTX.pd_sqrts.append((p, w))
    return w


# ---------------------------------------------------------------------------------------
# abstract view of real objects (from the documented constructor parameters) and class invariants


def view(o, M):
    if getattr(o, "_stub", False):
        return o._view
    if isinstance(o, M.MatrixProduct):
        ms = o._matrices
        p = view(ms[0], M)
        for x in ms[1:]:
            p = p * view(x, M)
        return p
    if isinstance(o, M.SquareLowRankUpdateMatrix):
        return view(o.square_matrix, M) + (view(o.left_factor_matrix, M) * view(o.inner_square_matrix, M) * view(o.right_factor_matrix, M)).scale(o._sign)
    if isinstance(o, M.ScaledIdentityMatrix):
        return Poly.identity(o.shape[0]).scale(o._scalar)
    if isinstance(o, M.IdentityMatrix):
        return Poly.identity(o.shape[0])
    if isinstance(o, M.DiagonalMatrix):
        return _arr(o._diagonal)
    if isinstance(o, M.TriangularMatrix):
        return _tri_part(o._array, o._lower)
    if isinstance(o, M.InverseTriangularMatrix):
        return ncalg.inverse(_tri_part(o._inverse_array, o._lower))
    if isinstance(o, M._BaseTriangularFactoredDefiniteMatrix) and not isinstance(o, M.DenseDefiniteMatrix):
        f = view(o._factor, M)
        return (f * f.T()).scale(o._sign)
    if isinstance(o, M.InverseLUFactoredSquareMatrix):
        return ncalg.inverse(_arr(o._inv_array))
    if isinstance(o, M.ScaledOrthogonalMatrix):
        return _arr(o._orth_array).scale(o._scalar)
    if isinstance(o, M.EigendecomposedSymmetricMatrix):
        q = view(o._eigvec, M)
        lam = o._eigval
        lam = lam.mat() if isinstance(lam, DiagVec) else Poly.identity(q.rows).scale(lam)
        return q * lam * q.T()
    if isinstance(o, M.ExplicitArrayMatrix):
        return _arr(o._array)
    raise Undecided(f"no abstract view for {type(o).__name__}")


def _arr(a):
    if isinstance(a, NCArr):
        return a.p
    if isinstance(a, DiagVec):
        return a.mat()
    raise Undecided(f"array parameter of type {type(a).__name__}")


def _tri_part(a, lower):
    return ncalg.NPShim._tri(NCArr(_arr(a), 2), lower).p


def wellformed(o, M):
    """class invariants of optional precomputed fields; yields (name, got Poly, want Poly) or (name, 'inverse', got, of)"""
    out = []
    if getattr(o, "_stub", False):
        return out
    if isinstance(o, M.SquareLowRankUpdateMatrix):
        if o._capacitance_matrix is not None:
            want = ncalg.inverse(view(o.inner_square_matrix, M)) + (view(o.right_factor_matrix, M) * ncalg.inverse(view(o.square_matrix, M)) * view(o.left_factor_matrix, M)).scale(o._sign)
            out.append(("stored-capacitance-matrix", view(o._capacitance_matrix, M), want))
        for sub in (o.left_factor_matrix, o.right_factor_matrix, o.square_matrix, o.inner_square_matrix) + ((o._capacitance_matrix,) if o._capacitance_matrix is not None else ()):
            out += wellformed(sub, M)
        if isinstance(o, M.SymmetricLowRankUpdateMatrix):
            out.append(("factor-fields-consistent", view(o.right_factor_matrix, M), view(o.factor_matrix, M).T()))
            out.append(("symmetric-field-consistent", view(o.square_matrix, M), view(o.symmetric_matrix, M)))
            out.append(("inner-field-consistent", view(o.inner_square_matrix, M), view(o.inner_symmetric_matrix, M)))
        if isinstance(o, M.PositiveDefiniteLowRankUpdateMatrix):
            out.append(("posdef-field-consistent", view(o.square_matrix, M), view(o.pos_def_matrix, M)))
            out.append(("inner-posdef-field-consistent", view(o.inner_square_matrix, M), view(o.inner_pos_def_matrix, M)))
    elif isinstance(o, M.MatrixProduct):
        for sub in o._matrices:
            out += wellformed(sub, M)
    elif isinstance(o, M.DenseDefiniteMatrix):
        if o._factor is not None:
            f = view(o._factor, M)
            out.append(("stored-triangular-factor", (f * f.T()).scale(o._sign), view(o, M)))
    elif isinstance(o, M.DenseSquareMatrix):
        if o._lu_and_piv is not None:
            lu = o._lu_and_piv[0]
            if isinstance(lu, ncalg.LUToken):
                a = _arr(o._array)
                out.append(("stored-lu-factors", lu.poly, a.T() if o._lu_transposed else a))
    elif isinstance(o, M.InverseLUFactoredSquareMatrix):
        lu = o._inv_lu_and_piv[0]
        if isinstance(lu, ncalg.LUToken):
            a = _arr(o._inv_array)
            out.append(("stored-lu-factors", lu.poly, a.T() if o._inv_lu_transposed else a))
    elif isinstance(o, M.DenseSymmetricMatrix):
        if o._eigvec is not None and o._eigval is not None:
            q = view(o._eigvec, M)
            lam = o._eigval
            if isinstance(lam, DiagVec):
                out.append(("stored-eigendecomposition", q * lam.mat() * q.T(), view(o, M)))
    return out


# ---------------------------------------------------------------------------------------
# probing


class Prober:
    def __init__(self, run, M, case):
        self.run, self.M, self.case = run, M, case
        self.X = NCArr(Poly.atom(Base("X", n, m)), 2)
        self.Xk = None
        self.x = NCArr(Poly.atom(Base("x", n, ncalg.ONE)), 1)
        self.Y = NCArr(Poly.atom(Base("Y", m, n)), 2)
        self.count = 0

    def ob(self, oid, st, secs=0.0):
        status, backend, detail, wit = st
        self.count += 1
        w = None
        if wit is not None:
            w = dict(wit, case=self.case, obligation=oid)
        self.run.ob(f"generic/{self.case}/{oid}", {"discharged": core.DISCHARGED, "failed": core.FAILED, "unknown": core.UNKNOWN}[status],
                    backend, secs, detail, w, text=f"for all dimensions n, k, m and all operand objects satisfying the Matrix contract: {self.case}: {oid}")

    def attempt(self, oid, fn):
        t0 = time.time()
        try:
            st = fn()
        except Undecided as e:
            st = ("unknown", "nc-rewrite", f"outside the modelled fragment: {e}", None)
        except ncalg.DomainError as e:
            st = ("failed", "nc-domain", str(e), {"domain": "negative diagonal entry"})
        except Exception as e:  # noqa: BLE001  an exception escaping the real code is a failed obligation (no witness) ...
            tb = traceback.format_exc().strip().splitlines()
            where = next((l.strip() for l in reversed(tb) if "mici/" in l), tb[-1])
            if isinstance(e, (TypeError, AttributeError)) and any(t in str(e) for t in STANDINS):
                # ... unless it is an operation the symbolic stand-ins do not model: undecided, never a violation
                st = ("unknown", "nc-rewrite", f"outside the modelled fragment: {type(e).__name__}: {e} at {where}", None)
            else:
                st = ("failed", "nc-exception", f"{type(e).__name__}: {e} escapes at {where}", None)
        self.ob(oid, st, time.time() - t0)
        return st[0] == "discharged"

    def eq(self, oid, got_fn, want):
        box = {}

        def run_code():  # exceptions raised here escape the real code (or its stand-ins): classified by attempt()
            box["got"] = got_fn()
            return ("discharged", "nc-trace", "", None)
        t0 = time.time()
        # first the trace, recorded under the same id only if it does not end normally
        try:
            st = None
            run_code()
        except Undecided as e:
            st = ("unknown", "nc-rewrite", f"outside the modelled fragment: {e}", None)
        except Exception as e:  # noqa: BLE001
            tb = traceback.format_exc().strip().splitlines()
            where = next((l.strip() for l in reversed(tb) if "mici/" in l), tb[-1])
            if isinstance(e, (TypeError, AttributeError)) and any(t in str(e) for t in STANDINS):
                st = ("unknown", "nc-rewrite", f"outside the modelled fragment: {type(e).__name__}: {e} at {where}", None)
            else:
                st = ("failed", "nc-exception", f"{type(e).__name__}: {e} escapes at {where}", None)
        if st is None:
            try:  # exceptions raised from here on are the checker's own: undecided, never a violation
                got = box["got"]
                if isinstance(got, NCArr):
                    got = got.p
                elif isinstance(got, DiagVec):
                    got = got.mat()
                elif not isinstance(got, Poly):
                    raise Undecided(f"result of type {type(got).__name__}")
                st = ncalg.decide_equal(got, want, DIMS)
            except Undecided as e:
                st = ("unknown", "nc-rewrite", f"outside the modelled fragment: {e}", None)
            except Exception as e:  # noqa: BLE001
                st = ("unknown", "nc-checker-error", f"{type(e).__name__}: {e}", None)
        self.ob(oid, st, time.time() - t0)
        return st[0] == "discharged"

    def probe(self, O, E, pre, depth, sym=False, pd=False, no_inv=False):
        M = self.M
        E = ncalg.nf(E)
        # invariants and view
        def wf():
            worst = ("discharged", "nc-rewrite", "", None)
            for name, got, want in wellformed(O, M):
                st = ncalg.decide_equal(got, want, DIMS)
                if st[0] != "discharged":
                    return (st[0], st[1], f"{name}: {st[2]}", st[3])
            return worst
        self.attempt(f"{pre}well-formed", wf)
        self.eq(f"{pre}view", lambda: view(O, M), E)
        self.eq(f"{pre}array", lambda: O.array, E)
        # products: the right-hand sides are generic atoms with a free second dimension
        X = self.X if E.cols == n else NCArr(Poly.atom(Base("Xc", E.cols, m)), 2)
        x = self.x if E.cols == n else NCArr(Poly.atom(Base("xc", E.cols, ncalg.ONE)), 1)
        Y = self.Y if E.rows == n else NCArr(Poly.atom(Base("Yc", m, E.rows)), 2)
        y = NCArr(Poly.atom(Base("y", E.rows, ncalg.ONE)), 1)
        self.eq(f"{pre}matmat", lambda: O @ X, E * X.p)
        self.eq(f"{pre}matvec", lambda: O @ x, E * x.p)
        self.eq(f"{pre}rmatmat", lambda: Y @ O, Y.p * E)
        self.eq(f"{pre}rmatvec", lambda: y @ O, E.T() * y.p)
        square = E.rows == E.cols
        if square and isinstance(O, M.SquareMatrix):
            def lad():
                got = ncalg.as_scalar(O.log_abs_det)
                if got is None:
                    raise Undecided("log_abs_det is not a scalar")
                for inst in det_lemma_instances(O, M):  # after the call: the lemma is instantiated on the factorisations the code made
                    pass
                want = ncalg.lad_of(E)
                if ncalg.lad_equal(got, want):
                    return ("discharged", "nc-lad-linear", "", None)
                return lad_refute(got, want)
            self.attempt(f"{pre}log_abs_det", lad)
        if depth <= 0:
            return
        # transpose
        def tr():
            return O.T
        T = self._get(f"{pre}T/constructs", tr)
        if T is not None:
            if sym:
                self.attempt(f"{pre}T/symmetric-class-transpose-is-self", lambda: ("discharged", "nc-rewrite", "", None) if (T is O or ncalg.nf(view(T, M) - E).is_zero()) else ("failed", "nc-rewrite", "transpose of a symmetric object differs", None))
            if T is not O:
                self.probe(T, E.T(), f"{pre}T/", depth - 1, no_inv=no_inv)
        # scalar multiples
        c = ncalg.Scal(sp.Symbol("c", positive=True))
        for lab, s in (("pos", c), ("neg", -c)):
            P = self._get(f"{pre}*{lab}/constructs", lambda s=s: s * O)
            if P is not None:
                self.probe(P, E.scale(s.e), f"{pre}*{lab}/", depth - 1, sym=sym, pd=pd and lab == "pos", no_inv=no_inv)
                if pd and lab == "pos":
                    self.attempt(f"{pre}*{lab}/stays-positive-definite", lambda P=P: ("discharged", "nc-type", "", None) if isinstance(P, M.PositiveDefiniteMatrix) else ("failed", "nc-type", f"positive multiple of a positive definite object is a {type(P).__name__}", None))
        Dv = self._get(f"{pre}div-pos/constructs", lambda: O / c)
        if Dv is not None:
            self.probe(Dv, E.scale(1 / c.e), f"{pre}div-pos/", 0)
        Ng = self._get(f"{pre}neg/constructs", lambda: -O)
        if Ng is not None:
            self.probe(Ng, E.scale(-1), f"{pre}neg/", 0)
        # inverse
        if square and isinstance(O, M.InvertibleMatrix) and not no_inv:
            I = self._get(f"{pre}inv/constructs", lambda: O.inv)
            if I is not None:
                ok = self.attempt(f"{pre}inv/is-the-inverse", lambda: ncalg.decide_inverse(view(I, M), E, DIMS))
                # once view(I) E = 1 is proved, view(I) *is* E^{-1}; the remaining obligations on I are stated against it
                # (if it is not proved they are stated against the defined inverse of E)
                try:
                    Einv = ncalg.nf(view(I, M)) if ok else ncalg.inverse(E, "the represented matrix is non-singular")
                except Exception:  # noqa: BLE001
                    Einv = ncalg.inverse(E, "the represented matrix is non-singular")
                if ok:
                    ncalg.CTX.lad_eqs.append(ncalg.lad_of(Einv) + ncalg.lad_of(E))
                self.probe(I, Einv, f"{pre}inv/", depth - 1, sym=sym, pd=pd)
        # square root
        if pd and isinstance(O, M.PositiveDefiniteMatrix):
            S = self._get(f"{pre}sqrt/constructs", lambda: O.sqrt)
            if S is not None:
                def sq():
                    v = view(S, M)
                    return ncalg.decide_equal(v * v.T(), E, DIMS)
                self.attempt(f"{pre}sqrt/factor-times-transpose", sq)
                try:
                    Es = ncalg.nf(view(S, M))
                except Exception:  # noqa: BLE001
                    Es = None
                if Es is not None:
                    # the inverse of the square-root object is not probed (its inner matrix is only known through an
                    # eigendecomposition contract; entrywise at fixed shapes by Engine B)
                    self.probe(S, Es, f"{pre}sqrt/", depth - 1, no_inv=True)

    def _get(self, oid, fn):
        box = {}

        def f():
            box["v"] = fn()
            return ("discharged", "nc-trace", "", None)
        ok = self.attempt(oid, f)
        return box.get("v") if ok else None


def det_lemma_instances(O, M):
    """matrix determinant lemma, instantiated at every low-rank update object reachable from O (sound for any instantiation)"""
    seen = []

    def rec(o):
        if getattr(o, "_stub", False) or id(o) in seen:
            return
        seen.append(id(o))
        if isinstance(o, M.SquareLowRankUpdateMatrix):
            A, U, C, V, s = (view(o.square_matrix, M), view(o.left_factor_matrix, M), view(o.inner_square_matrix, M), view(o.right_factor_matrix, M), o._sign)
            lhs = ncalg.lad_of(A + (U * C * V).scale(s))
            rhs = ncalg.lad_of(A) + ncalg.lad_of(C) + ncalg.lad_of(ncalg.inverse(C) + (V * ncalg.inverse(A) * U).scale(s))
            e = sp.expand(lhs - rhs)
            if e != 0 and not any(sp.expand(e - q) == 0 for q in ncalg.CTX.lad_eqs):
                ncalg.CTX.lad_eqs.append(e)
            for sub in (o.square_matrix, o.left_factor_matrix, o.inner_square_matrix, o.right_factor_matrix):
                rec(sub)
        elif isinstance(o, M.MatrixProduct):
            if all(x.shape[0] == x.shape[1] for x in o._matrices):  # det(AB) = det A det B
                e = sp.expand(ncalg.lad_of(view(o, M)) - sum(ncalg.lad_of(view(x, M)) for x in o._matrices))
                if e != 0 and not any(sp.expand(e - q) == 0 for q in ncalg.CTX.lad_eqs):
                    ncalg.CTX.lad_eqs.append(e)
            for sub in o._matrices:
                rec(sub)
    rec(O)
    yield from ()


def lad_refute(got, want):
    """numeric evaluation of two lad expressions is not available without entries: report undecided unless structurally constant"""
    d = sp.expand(sp.sympify(got) - sp.sympify(want))
    try:
        ref, wit = ncalg.lad_refute(got, want, DIMS)
    except Undecided as e:
        return ("unknown", "nc-lad-linear", f"log|det| difference {str(d)[:200]} not in the span of the recorded equations; {e}", None)
    if ref:
        return ("failed", "nc-lad-linear+numeric-witness", f"log|det| differs from log|det E| by {str(d)[:300]}", wit)
    return ("unknown", "nc-lad-linear", f"log|det| difference not in the span of the recorded equations but numerically zero: {str(d)[:300]}", None)


# ---------------------------------------------------------------------------------------
# cases (table shared with the native replay: c10_generic_cases.py)

from .c10_generic_cases import cases as _cases


class SymbolicFactory:
    """operands = contract stubs over atoms of symbolic dimension"""

    def __init__(self, M):
        self.M, self.S = M, make_stubs(M)
        self.dims = {"n": n, "k": k, "m": m}

    def matrix(self, name, r, c):
        return self.S["Matrix"](_atom(name, self.dims[r], self.dims[c]))

    def square(self, name, d):
        return self.S["Square"](_atom(name, self.dims[d], self.dims[d]))

    def invertible(self, name, d):
        return self.S["Invertible"](_atom(name, self.dims[d], self.dims[d], inv=True))

    def sym_invertible(self, name, d):
        return self.S["SymInvertible"](_atom(name, self.dims[d], self.dims[d], inv=True, sym=True))

    def posdef(self, name, d):
        return self.S["PosDef"](_atom(name, self.dims[d], self.dims[d], inv=True, sym=True, pd=True))

    def capacitance(self, kind, Ci, V, A, U, sign, d):
        cv = (ncalg.inverse(Ci._view) if Ci is not None else Poly.identity(self.dims[d])) + (V._view * ncalg.inverse(A._view) * U._view).scale(sign)
        return self.S[{"invertible": "Invertible", "sym": "SymInvertible", "pd": "PosDef"}[kind]](cv)

    def dim(self, d):
        return self.dims[d]

    def array(self, name, r, c, **structure):
        if structure.get("tri"):
            structure["inv"] = True  # triangular parameters have a non-zero diagonal (the library's precondition)
        return NCArr(_atom(name, self.dims[r], self.dims[c], **structure), 2)

    def diagvec(self, name, d, positive):
        return DiagVec(_atom(name, self.dims[d], self.dims[d], diag=True, inv=True, pd=positive), positive)

    def scalar(self, name, sign):
        s_ = sp.Symbol(name, positive=True)
        return ncalg.Scal(s_ if sign == "pos" else -s_)


def _atom(name, r, c, **kw):
    return Poly.atom(Base(name, r, c, **kw))


def cases(M, F=None):
    return _cases(M, F or SymbolicFactory(M))


_DEPTH = 2  # probe depth for derived objects (3 in the thorough tier)


def _gwork(name):
    """one case in a worker process -> list of recorded obligations"""
    class Rec:
        def __init__(self):
            self.obs = []

        def ob(self, oid, status, backend, seconds=0.0, detail="", witness=None, klass="exact", replay=None, text=None):
            self.obs.append((oid, status, backend, seconds, detail, witness, text))
    rec = Rec()
    M = load()
    hyps = []
    with ncalg.shimmed(M):
        ncalg.reset()
        pr = Prober(rec, M, name)
        t0 = time.time()
        try:
            O, kw = cases(M)[name]()
            E = view(O, M)
            pr.probe(O, E, "", _DEPTH, **kw)
        except Undecided as e:
            rec.ob(f"generic/{name}/constructs", core.UNKNOWN, "nc-trace", time.time() - t0, f"outside the modelled fragment: {e}")
        except Exception as e:  # noqa: BLE001
            tb = traceback.format_exc().strip().splitlines()
            where = next((l.strip() for l in reversed(tb) if "mici/" in l), tb[-1])
            rec.ob(f"generic/{name}/constructs", core.FAILED, "nc-exception", time.time() - t0, f"{type(e).__name__}: {e} escapes at {where}")
        hyps = list(ncalg.CTX.hyps)
        steps = ncalg.CTX.steps
    return name, rec.obs, hyps, steps


def run_generic(run, tier="quick", only=None, procs=16, keep=None):
    """adds the dimension-generic obligations to `run` (all of them, or those whose id passes `keep`); returns (cases, obligations)"""
    import multiprocessing as mp
    global _DEPTH
    _DEPTH = 3 if tier == "thorough" else 2
    M = load()
    run.function("matrices.Matrix.__matmul__/__rmatmul__/__mul__/__truediv__/__neg__/transpose/inv/sqrt (template code; generic dimension)")
    run.function("matrices.MatrixProduct / SquareMatrixProduct / InvertibleMatrixProduct (all methods; generic dimension; contract operands)")
    run.function("matrices.SquareLowRankUpdateMatrix / SymmetricLowRankUpdateMatrix / PositiveDefiniteLowRankUpdateMatrix (all methods except diagonal; generic dimension; contract operands)")
    with ncalg.shimmed(M):
        ncalg.reset()
        names = [x for x in cases(M) if not only or only in x]
    with mp.get_context("fork").Pool(procs) as pool:
        results = pool.map(_gwork, names, chunksize=1)
    nobs = 0
    allhyps = {}
    steps = 0
    for name, obs, hyps, st in results:
        steps += st
        for oid, status, backend, secs, detail, wit, text in obs:
            if keep is not None and not keep(oid):
                continue
            nobs += 1
            run.ob(oid, status, backend, secs, detail=detail, witness=wit, text=text,
                   replay=(lambda w: {"script": "c10_generic.py", "args": [json.dumps(w)], "timeout": 600}) if wit else None)
        for h in hyps:
            allhyps.setdefault(h.split(" := ")[-1] if " := " in h else h, name)
    run.notes.append(f"Engine D: {len(names)} generic cases, {nobs} obligations, {steps} rewrite steps; hypotheses recorded by the shims "
                     f"(invertibility / definiteness of intermediate matrices, i.e. the library's own preconditions): {len(allhyps)}, e.g. "
                     + "; ".join(list(allhyps)[:6]))
    for kname, text in ncalg.RULES.items():
        run.trust(f"Engine D rule [{kname}]: {text}")
    return len(names), nobs


# ---------------------------------------------------------------------------------------
# the rule table, re-proved in Lean 4 / Mathlib for arbitrary dimension


def lean_start():
    """starts `lean lean/MatrixLemmas.lean` in the background (about 2 minutes cold, seconds warm)"""
    import os
    import shutil
    import subprocess
    src = os.path.join(core.VERIF, "lean", "MatrixLemmas.lean")
    if shutil.which("lean") is None or not os.path.exists(src):
        return None
    return subprocess.Popen(["lean", src], stdout=subprocess.PIPE, stderr=subprocess.STDOUT, text=True, cwd=os.path.dirname(src)), src, time.time()


def lean_finish(run, handle):
    import re
    if handle is None:
        run.ob("lean/rule-table", core.UNKNOWN, "lean4+mathlib", 0.0, "lean or lean/MatrixLemmas.lean not available")
        return
    proc, src, t0 = handle
    try:
        out, _ = proc.communicate(timeout=1500)
    except Exception:  # noqa: BLE001
        proc.kill()
        run.ob("lean/rule-table", core.UNKNOWN, "lean4+mathlib", time.time() - t0, "lean did not finish within the budget")
        return
    text = open(src).read()
    names = re.findall(r"^theorem\s+([A-Za-z_0-9']+)", text, flags=re.M)
    cheats = re.findall(r"\b(sorry|admit|axiom|native_decide)\b", re.sub(r"/-.*?-/", "", text, flags=re.S))
    errors = [l for l in out.splitlines() if ": error" in l or "declaration uses 'sorry'" in l]
    secs = time.time() - t0
    for i, nm in enumerate(names):
        if cheats:
            run.ob(f"lean/{nm}", core.UNKNOWN, "lean4+mathlib", 0.0, f"the lemma file contains {sorted(set(cheats))}: nothing is counted as proved")
        elif proc.returncode != 0 or errors:
            run.ob(f"lean/{nm}", core.UNKNOWN, "lean4+mathlib", secs if i == 0 else 0.0, "lean rejected the lemma file: " + " | ".join(errors[:3])[:400])
        else:
            run.ob(f"lean/{nm}", core.DISCHARGED, "lean4+mathlib", secs if i == 0 else 0.0, text=f"theorem MiciLemmas.{nm} (lean/MatrixLemmas.lean) type-checks against Mathlib: for all finite dimensions")
    run.trust("Lean 4.33 kernel + Mathlib v4.33 (the rule table of Engine D is proved there; the *correspondence* between a rule's name in vf/ncalg.py:RULES and the Lean statement is by reading)")
