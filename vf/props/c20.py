"""C20 -- log-space arithmetic (mici.utils) matches real arithmetic without overflow or
precision loss.

Layer 1 (real semantics): each helper / operator equals its real specification, stated
through the uninterpreted EXP with instantiated axioms (mathlib).  Layer 2 (IEEE model):
for every finite double argument no libm call leaves its domain or overflows (so no
exception escapes and no NaN appears) and every log / log1p call is made where its
condition number is <= 4 ("near machine precision" per branch).
"""
from __future__ import annotations

import ast
import json
import math

import z3

from .. import core, mathlib
from ..mathlib import EXP, exp_term, rv
from ..pyvc import (INF, Exec, Interp, Native, Obj, PyRaise, exc_name, is_z3, lift, run_function, to_real)

MOD = "mici.utils"
DBL_MAX = "179769313486231570000000000000000000000000000000000000000000000000000000000000000000000000000000000000000000000000000000000000000000000000000000000000000000000000000000000000000000000000000000000000000000000000000000000000000000000000000000000000000000000000000000000000000000000000000000000000000000000000"
LOG_ARG_MAX = "0.7788007830714049"  # exp(-1/4): 1/|log y| <= 4
LOG1P_E_MAX = "0.9"  # e/((1-e)|log(1-e)|) <= 4 for e <= 0.9


def _numpy_constants(it):
    """numpy as far as utils.py may use it for scalar helpers: machine constants of float64 (exact values) and the float type"""
    import numpy as _np
    from ..pyvc import Namespace, TypeTag

    class _FInfo:
        def __init__(self, kind):
            self.eps, self.tiny, self.max, self.min = float(_np.finfo(_np.float64).eps), float(_np.finfo(_np.float64).tiny), float(_np.finfo(_np.float64).max), float(_np.finfo(_np.float64).min)
            self.smallest_normal = self.tiny
    f64 = TypeTag("float64", lambda o: isinstance(o, float), lambda ex, x=0.0: float(x))
    if "numpy" not in it.ext_modules:
        it.ext_modules["numpy"] = Namespace("numpy", finfo=Native(lambda ex, kind=None: _FInfo(kind), "np.finfo (IEEE binary64 constants)"), float64=f64,
                                            ndarray=TypeTag("ndarray", lambda o: False), inf=float("inf"), nan=float("nan"), pi=3.141592653589793)


def interp_for(run, ieee):
    it = Interp(run, ieee=ieee, timeout_ms=30000)
    mathlib.install(it)
    _numpy_constants(it)
    if ieee:
        # record libm calls for the conditioning / overflow obligations
        m = it.ext_modules["math"]
        for name in ("exp", "log", "log1p", "expm1"):
            orig = getattr(m, name)

            def wrapped(ex, x, _orig=orig, _name=name):
                ex.ctx.ghost.setdefault("libm_calls", []).append((_name, x))
                return _orig.fn(ex, x)
            setattr(m, name, Native(wrapped, name))
    return it


def R(ctx, v):
    """Represented real value of a LogRepFloat / plain number."""
    if isinstance(v, Obj) and v.cls.name == "LogRepFloat":
        lv = v.attrs["log_val"]
        if isinstance(lv, float):
            if lv == -INF:
                return z3.RealVal(0)
            if lv == INF:
                return None
            if math.isnan(lv):
                return "nan"
            return exp_term(ctx, to_real(lv))
        return exp_term(ctx, lv)
    if isinstance(v, float) and math.isnan(v):
        return "nan"
    if isinstance(v, float) and math.isinf(v):
        return None
    return to_real(v)


def finite(ctx, name):
    v = z3.Real(name)
    ctx.assume(v >= -rv(DBL_MAX))
    ctx.assume(v <= rv(DBL_MAX))
    return v


def _replay(fn):
    return lambda w: {"script": "c20_utils.py", "args": [fn, json.dumps(w or {})]}


# ---------------------------------------------------------------------------------------
# layer 1: real specifications of the four helpers


def helpers_real(run):
    it = interp_for(run, ieee=False)
    for f in ("log1p_exp", "log1m_exp", "log_sum_exp", "log_diff_exp"):
        run.function(f"mici.utils.{f}")
        run.replay_for(f"utils.{f}", _replay(f))

    def h_log1p_exp(ctx):
        v = finite(ctx, "val")
        kind, res = run_function(it, ctx, MOD, "log1p_exp", [v])
        if kind == "raise":
            ctx.run.ob("utils.log1p_exp/real-spec", core.FAILED, "pyvc", detail=f"raised {exc_name(res)}")
            return
        ctx.prove("utils.log1p_exp/real-spec", exp_term(ctx, res) == 1 + exp_term(ctx, v),
                  text="forall finite v: EXP(log1p_exp(v)) == 1 + EXP(v)")
    it.explore(h_log1p_exp, "log1p_exp")

    def h_log1m_exp(ctx):
        v = finite(ctx, "val")
        kind, res = run_function(it, ctx, MOD, "log1m_exp", [v])
        neg = ctx.branch(v < 0)
        if kind == "raise":
            ctx.run.ob("utils.log1m_exp/real-spec", core.FAILED, "pyvc", detail=f"raised {exc_name(res)} for val<0={neg}")
            return
        if neg:
            if isinstance(res, float):
                ctx.run.ob("utils.log1m_exp/real-spec", core.FAILED, "pyvc", detail=f"returned {res} for val < 0")
                return
            ctx.prove("utils.log1m_exp/real-spec", exp_term(ctx, res) == 1 - exp_term(ctx, v),
                      text="forall v<0: EXP(log1m_exp(v)) == 1 - EXP(v)")
        else:
            ok = isinstance(res, float) and math.isnan(res)
            ctx.run.ob("utils.log1m_exp/nan-for-nonneg", core.DISCHARGED if ok else core.FAILED, "pyvc",
                       detail="" if ok else f"returned {res} for val >= 0", text="forall v>=0: log1m_exp(v) is NaN")
    it.explore(h_log1m_exp, "log1m_exp")

    def two_operands(ctx):
        """Each operand: finite symbolic or -inf."""
        a = finite(ctx, "val1") if ctx.choose(2, "a") == 0 else -INF
        b = finite(ctx, "val2") if ctx.choose(2, "b") == 0 else -INF
        return a, b

    def ez(ctx, x):
        return z3.RealVal(0) if (isinstance(x, float) and x == -INF) else exp_term(ctx, x)

    def h_log_sum_exp(ctx):
        a, b = two_operands(ctx)
        kind, res = run_function(it, ctx, MOD, "log_sum_exp", [a, b])
        oid = "utils.log_sum_exp/real-spec"
        if kind == "raise":
            ctx.run.ob(oid, core.FAILED, "pyvc", detail=f"raised {exc_name(res)} on ({a},{b})")
            return
        if isinstance(res, float):
            if res == -INF and not is_z3(a) and not is_z3(b):
                ctx.run.ob("utils.log_sum_exp/zero-plus-zero", core.DISCHARGED, "pyvc", text="log_sum_exp(-inf,-inf) == -inf")
            else:
                ctx.run.ob(oid, core.FAILED, "pyvc", detail=f"returned {res} on ({a},{b})")
            return
        ctx.prove(oid, exp_term(ctx, res) == ez(ctx, a) + ez(ctx, b),
                  text="EXP(log_sum_exp(a,b)) == EXP(a)+EXP(b), EXP(-inf)=0")
    it.explore(h_log_sum_exp, "log_sum_exp")

    def h_log_diff_exp(ctx):
        a, b = two_operands(ctx)
        kind, res = run_function(it, ctx, MOD, "log_diff_exp", [a, b])
        oid = "utils.log_diff_exp/real-spec"
        if kind == "raise":
            ctx.run.ob(oid, core.FAILED, "pyvc", detail=f"raised {exc_name(res)} on ({a},{b})")
            return
        # classify by the represented values
        if not is_z3(a) and not is_z3(b):
            ok = res == -INF
            ctx.run.ob("utils.log_diff_exp/equal-gives-zero", core.DISCHARGED if ok else core.FAILED, "pyvc",
                       detail="" if ok else f"log_diff_exp(-inf,-inf) = {res}")
            return
        if not is_z3(a):  # a = -inf < b finite: a < b -> nan
            ok = isinstance(res, float) and math.isnan(res)
            ctx.run.ob("utils.log_diff_exp/nan-when-negative", core.DISCHARGED if ok else core.FAILED, "pyvc",
                       detail="" if ok else f"log_diff_exp(-inf, finite) = {res}")
            return
        if not is_z3(b):  # a finite, b = -inf: result a
            if isinstance(res, float):
                ctx.run.ob(oid, core.FAILED, "pyvc", detail=f"log_diff_exp(finite,-inf) = {res}")
            else:
                ctx.prove(oid, to_real(res) == a, text="log_diff_exp(a,-inf) == a")
            return
        if ctx.branch(a < b):
            ok = isinstance(res, float) and math.isnan(res)
            ctx.run.ob("utils.log_diff_exp/nan-when-negative", core.DISCHARGED if ok else core.FAILED, "pyvc",
                       detail="" if ok else f"a<b returned {res}")
        elif ctx.branch(a == b):
            ok = isinstance(res, float) and res == -INF
            ctx.run.ob("utils.log_diff_exp/equal-gives-zero", core.DISCHARGED if ok else core.FAILED, "pyvc",
                       detail="" if ok else f"a==b returned {res} (difference of equal values must be zero weight, not NaN)")
        else:
            if isinstance(res, float):
                ctx.run.ob(oid, core.FAILED, "pyvc", detail=f"a>b returned {res}")
            else:
                ctx.prove(oid, exp_term(ctx, res) == exp_term(ctx, a) - exp_term(ctx, b),
                          text="a>b: EXP(log_diff_exp(a,b)) == EXP(a)-EXP(b)")
    it.explore(h_log_diff_exp, "log_diff_exp")
    return it


# ---------------------------------------------------------------------------------------
# layer 2: IEEE domain / overflow safety and conditioning


def helpers_ieee(run):
    it = interp_for(run, ieee=True)

    def cond_obligations(ctx, fname):
        for name, x in ctx.ghost.get("libm_calls", []):
            if name == "log" and is_z3(x):
                ctx.prove(f"utils.{fname}/conditioning[log]", x <= rv(LOG_ARG_MAX),
                          text=f"{fname}: every log(y) call has y <= exp(-1/4) (relative condition number 1/|log y| <= 4)")
            if name == "log1p" and is_z3(x) and fname in ("log1m_exp", "log_diff_exp"):
                ctx.prove(f"utils.{fname}/conditioning[log1p]", -x <= rv(LOG1P_E_MAX),
                          text=f"{fname}: every log1p(-e) call has e <= 0.9 (condition number <= 4)")
            if name == "exp" and is_z3(x):
                ctx.prove(f"utils.{fname}/exp-argument-nonpositive", x <= 0,
                          text=f"{fname}: exp is only called on arguments <= 0 (cannot overflow)")

    def safe(fname, args_fn, pre=None):
        def h(ctx):
            args = args_fn(ctx)
            if pre is not None:
                ctx.assume(pre(*args))
            ctx.cover(f"utils.{fname}/ieee-precondition-satisfiable")
            inner = []

            def hook(ex_, f_, a_, k_):
                if getattr(f_, "qualname", "") == "log1p_exp" and ex_.qual != "log1p_exp":
                    inner.append(a_[0])
            it.call_hook = hook if fname == "log_sum_exp" else None
            try:
                kind, res = run_function(it, ctx, MOD, fname, args)
            finally:
                it.call_hook = None
            for x in inner:
                # log(e^a + e^b) = max + log(1 + e^{-|a-b|}): the correction added to the larger operand lies in (0, log 2], so the rounding error of the
                # final addition is relative to the RESULT; with a positive argument the smaller operand is subtracted and re-added and the error scales
                # with the gap between the operands instead
                ctx.prove("utils.log_sum_exp/correction-term-argument-nonpositive", to_real(x) <= 0 if is_z3(x) or not isinstance(x, float) else z3.BoolVal(x <= 0),
                          text="log_sum_exp calls log1p_exp with (smaller - larger) <= 0 only: result = larger operand + a term in (0, log 2]")
            oid = f"utils.{fname}/ieee-no-exception"
            if kind == "raise":
                wit = ctx.model()
                ctx.run.ob(oid, core.FAILED, "pyvc", detail=f"{exc_name(res)} {res.attrs.get('args')} escapes for a finite double argument; model {wit}",
                           witness=wit, text=f"{fname}: no exception for any finite double in the domain (IEEE rounding model)")
                return
            ctx.run.ob(oid, core.DISCHARGED, "pyvc", text=f"{fname}: no exception for any finite double in the domain (IEEE rounding model)")
            if isinstance(res, float) and math.isnan(res):
                ctx.run.ob(f"utils.{fname}/ieee-no-nan", core.FAILED, "pyvc", detail="NaN returned inside the domain")
            cond_obligations(ctx, fname)
        it.explore(h, fname)

    safe("log1p_exp", lambda ctx: [finite(ctx, "val")])
    safe("log1m_exp", lambda ctx: [finite(ctx, "val")], pre=lambda v: v < 0)
    safe("log_sum_exp", lambda ctx: [finite(ctx, "val1"), finite(ctx, "val2")])
    safe("log_diff_exp", lambda ctx: [finite(ctx, "val1"), finite(ctx, "val2")], pre=lambda a, b: a > b)
    return it


# ---------------------------------------------------------------------------------------
# LogRepFloat operators (real semantics)


def operators(run):
    it = interp_for(run, ieee=False)
    run.function("mici.utils.LogRepFloat.*")
    run.replay_for("utils.LogRepFloat", _replay("LogRepFloat"))
    BIN = {"+": ast.Add, "-": ast.Sub, "*": ast.Mult, "/": ast.Div}
    CMP = {"<": ast.Lt, "<=": ast.LtE, ">": ast.Gt, ">=": ast.GtE, "==": ast.Eq, "!=": ast.NotEq}
    KINDS = ["lrf", "zero", "num", "num0", "numneg"]  # plain numbers: positive / exactly zero / negative (the last two in comparisons only)

    def mk(ctx, ex, cls, kind, nm):
        if kind == "lrf":
            return ex.call(cls, [], {"log_val": finite(ctx, nm)})
        if kind == "zero":
            return ex.call(cls, [0.0], {})
        if kind == "num0":
            return 0.0 if ctx.choose(2, "zero-literal") else 0
        x = finite(ctx, nm)
        ctx.assume(x > 0 if kind == "num" else x < 0)
        return x

    roots = [[i, j] for i in range(5) for j in range(5)]

    def harness(ctx):
        ka, kb = KINDS[ctx.choose(5, "ka")], KINDS[ctx.choose(5, "kb")]
        if ka.startswith("num") and kb.startswith("num"):
            return
        mod = it.module(MOD)
        ex = Exec(it, ctx, mod, mod.env, "harness")
        cls = mod.resolve("LogRepFloat", ctx)
        opi = ctx.choose(len(BIN) + len(CMP) + 1, "op")
        if (ka in ("num0", "numneg") or kb in ("num0", "numneg")) and not (len(BIN) <= opi < len(BIN) + len(CMP)):
            return
        a, b = mk(ctx, ex, cls, ka, "a"), mk(ctx, ex, cls, kb, "b")
        ra, rb = R(ctx, a), R(ctx, b)
        names = list(BIN) + list(CMP) + ["+="]
        op = names[opi]
        oid = f"utils.LogRepFloat/{op}[{ka},{kb}]"
        if op == "/" and kb == "zero":
            return  # division by a zero weight excluded by precondition
        try:
            if op in BIN:
                res = ex.binop(BIN[op], a, b)
            elif op in CMP:
                res = ex.compare(CMP[op], a, b)
            else:
                if ka == "num":
                    return
                before = R(ctx, a)
                b_log_before = b.attrs["log_val"] if isinstance(b, Obj) else None
                if isinstance(a, Obj):
                    ex.getattr(a, "val")  # the plain value has been read before the accumulation (comparisons / mixed arithmetic do this)
                res = ex.inplace(ast.Add, a, b)
                if isinstance(res, Obj) and res.cls.name == "LogRepFloat":
                    plain, rep = ex.getattr(res, "val"), R(ctx, res)
                    if rep is not None and not isinstance(rep, str) and not (isinstance(plain, float) and (math.isinf(plain) or math.isnan(plain))):
                        ctx.prove("utils.LogRepFloat/val-follows-log_val-after-+=", to_real(plain) == rep,
                                  text="representation invariant: after `x += y` (y a LogRepFloat or a plain number) x.val == exp(x.log_val), also when x.val was read before")
                ra = before
                same = res is a
                ctx.run.ob("utils.LogRepFloat/+=-returns-the-accumulator", core.DISCHARGED if same else core.FAILED, "pyvc",
                           detail="" if same else f"`a += b` rebinds a to another object ({'its operand b' if res is b else 'a new object'}) for kinds [{ka},{kb}]: "
                           "later in-place accumulations then alias/mutate the operand",
                           text="__iadd__ updates and returns self (operands are never aliased by the accumulator)")
                if isinstance(b, Obj):
                    unchanged = b.attrs["log_val"] is b_log_before
                    ctx.run.ob("utils.LogRepFloat/+=-leaves-operand-unchanged", core.DISCHARGED if unchanged else core.FAILED, "pyvc",
                               detail="" if unchanged else "`a += b` modified b")
        except PyRaise as pr:
            ctx.run.ob(oid, core.FAILED, "pyvc", detail=f"raised {exc_name(pr.exc)} {pr.exc.attrs.get('args')}")
            return
        if op in CMP:
            want = {"<": ra < rb, "<=": ra <= rb, ">": ra > rb, ">=": ra >= rb, "==": ra == rb, "!=": ra != rb}[op]
            got = lift(res) if not isinstance(res, bool) else z3.BoolVal(res)
            ctx.prove(oid, got == want, text=f"LogRepFloat {op}: result <=> real comparison of represented values")
            return
        want = {"+": ra + rb, "-": ra - rb, "*": ra * rb, "/": None, "+=": ra + rb}[op]
        if op == "/":
            want_eq = lambda r: r * rb == ra  # noqa: E731
        else:
            want_eq = lambda r: r == want  # noqa: E731
        rr = R(ctx, res)
        if rr is None or isinstance(rr, str):
            ctx.run.ob(oid, core.FAILED, "pyvc", detail=f"result {res} is not a finite real (NaN/inf) for finite operands")
            return
        ctx.prove(oid, want_eq(rr), text=f"LogRepFloat {op}: represented value of the result == real {op} of represented values")
        if op in ("+", "*", "/") and ka != "num" and kb != "num":
            stays = isinstance(res, Obj)
            ctx.run.ob(f"utils.LogRepFloat/{op}-stays-in-log-space", core.DISCHARGED if stays else core.FAILED, "pyvc",
                       detail="" if stays else "result left the log representation (would overflow/underflow for large magnitudes)",
                       text="LogRepFloat op LogRepFloat stays a LogRepFloat (no plain exp of a large log value)")
        if op == "-" and ka != "num" and kb != "num" and isinstance(ra, z3.ExprRef):
            # difference of weights with a >= b stays in log space
            if ctx.branch(ra >= rb):
                stays = isinstance(res, Obj)
                ctx.run.ob("utils.LogRepFloat/sub-stays-in-log-space", core.DISCHARGED if stays else core.FAILED, "pyvc",
                           detail="" if stays else "a - b with a >= b left the log representation")
    it.explore(harness, "LogRepFloat", roots=roots)

    # constructor and val
    def h_ctor(ctx):
        mod = it.module(MOD)
        ex = Exec(it, ctx, mod, mod.env, "harness")
        cls = mod.resolve("LogRepFloat", ctx)
        x = finite(ctx, "val")
        ctx.assume(x >= 0)
        try:
            o = ex.call(cls, [x], {})
        except PyRaise as pr:
            ctx.run.ob("utils.LogRepFloat/constructor", core.FAILED, "pyvc", detail=f"raised {exc_name(pr.exc)} for val >= 0")
            return
        ctx.prove("utils.LogRepFloat/constructor", R(ctx, o) == x, text="LogRepFloat(val).val == val for val >= 0 (0 -> log_val=-inf)")
        v = ex.getattr(o, "val")
        ctx.prove("utils.LogRepFloat/val", to_real(v) == x, text="LogRepFloat(val).val property equals val")
    it.explore(h_ctor, "ctor")

    # val property never raises (IEEE): OverflowError is mapped to inf
    it2 = interp_for(run, ieee=True)

    def h_val(ctx):
        mod = it2.module(MOD)
        ex = Exec(it2, ctx, mod, mod.env, "harness")
        cls = mod.resolve("LogRepFloat", ctx)
        o = ex.call(cls, [], {"log_val": finite(ctx, "log_val")})
        try:
            ex.getattr(o, "val")
            ctx.run.ob("utils.LogRepFloat/val-never-raises", core.DISCHARGED, "pyvc", text="val maps exp overflow to inf instead of raising")
        except PyRaise as pr:
            ctx.run.ob("utils.LogRepFloat/val-never-raises", core.FAILED, "pyvc", detail=f"raised {exc_name(pr.exc)}")
    it2.explore(h_val, "val")

    # log-space operations between two LogRepFloats under the IEEE model: never raise, never leave log space,
    # and an in-place accumulation of a non-zero weight is never skipped (the plain value of a weight may
    # underflow to 0.0 although the weight is positive)
    def h_ieee_ops(ctx):
        mod = it2.module(MOD)
        ex = Exec(it2, ctx, mod, mod.env, "harness")
        cls = mod.resolve("LogRepFloat", ctx)
        ka = ["lrf", "zero"][ctx.choose(2, "ka")]
        kb = ["lrf", "zero"][ctx.choose(2, "kb")]
        op = (["+", "*", "/", "+=", "-"] + list(CMP))[ctx.choose(5 + len(CMP), "op")]
        a, b = mk(ctx, ex, cls, ka, "a"), mk(ctx, ex, cls, kb, "b")
        if op in CMP:
            if ka != "lrf" or kb != "lrf":
                return
            la, lb = a.attrs["log_val"], b.attrs["log_val"]
            try:
                res = ex.compare(CMP[op], a, b)
            except PyRaise as pr:
                ctx.run.ob(f"utils.LogRepFloat/ieee[{op}]", core.FAILED, "pyvc", detail=f"raised {exc_name(pr.exc)}; model {ctx.model()}")
                return
            want = {"<": la < lb, "<=": la <= lb, ">": la > lb, ">=": la >= lb, "==": la == lb, "!=": la != lb}[op]
            got = lift(res) if not isinstance(res, bool) else z3.BoolVal(res)
            ctx.prove(f"utils.LogRepFloat/ieee[{op}]", got == want,
                      text=f"LogRepFloat {op} LogRepFloat orders as the reals for log values of any magnitude (no exp overflow/underflow)")
            return
        if op == "/" and kb == "zero":
            return
        if op == "-":
            if ka == "zero" and kb == "lrf":
                return
            if ka == "lrf" and kb == "lrf":
                ctx.assume(a.attrs["log_val"] >= b.attrs["log_val"])
        oid = f"utils.LogRepFloat/ieee[{op}][{ka},{kb}]"
        ctx.ghost["libm_calls"] = []
        try:
            res = ex.inplace(ast.Add, a, b) if op == "+=" else ex.binop(BIN[op], a, b)
        except PyRaise as pr:
            ctx.run.ob(oid, core.FAILED, "pyvc", detail=f"raised {exc_name(pr.exc)} {pr.exc.attrs.get('args')}; model {ctx.model()}",
                       witness=ctx.model())
            return
        ok = isinstance(res, Obj)
        ctx.run.ob(oid, core.DISCHARGED if ok else core.FAILED, "pyvc",
                   detail="" if ok else f"result {res} left the log representation",
                   text="LogRepFloat op LogRepFloat: no exception for any finite log values and the result stays in log space")
        if op == "+=" and kb == "lrf":
            updated = any(n == "log1p" for n, _ in ctx.ghost["libm_calls"])
            ctx.run.ob("utils.LogRepFloat/ieee[+=]-accumulates-nonzero-weight", core.DISCHARGED if updated else core.FAILED, "pyvc",
                       detail="" if updated else f"`w += LogRepFloat(log_val=b)` left w unchanged for a non-zero weight; model {ctx.model()}",
                       witness=None if updated else ctx.model(),
                       text="w += v with v a non-zero LogRepFloat always goes through log_sum_exp (never skipped)")
    it2.explore(h_ieee_ops, "ieee-ops")

    # in-place accumulation of a PLAIN number into a weight of any magnitude (IEEE model): adding a plain zero is the identity on the log value -- also for
    # weights whose plain value under- or overflows -- and never raises
    def h_ieee_iadd_plain(ctx):
        mod = it2.module(MOD)
        ex = Exec(it2, ctx, mod, mod.env, "harness")
        cls = mod.resolve("LogRepFloat", ctx)
        a = finite(ctx, "log_val")
        w = ex.call(cls, [], {"log_val": a})
        zero = [0, 0.0][ctx.choose(2, "int-or-float-zero")]
        try:
            res = ex.inplace(ast.Add, w, zero)
        except PyRaise as pr:
            ctx.run.ob("utils.LogRepFloat/ieee[+= plain zero]-is-the-identity", core.FAILED, "pyvc", detail=f"raised {exc_name(pr.exc)}; model {ctx.model()}", witness=ctx.model())
            return
        lv = res.attrs["log_val"] if isinstance(res, Obj) else None
        if lv is None or (isinstance(lv, float) and (lv != lv or lv in (float("inf"), float("-inf")))):
            ctx.run.ob("utils.LogRepFloat/ieee[+= plain zero]-is-the-identity", core.FAILED, "pyvc",
                       detail=f"`w += {zero!r}` turned log_val into {lv} for a finite log value; model {ctx.model()}", witness=ctx.model())
            return
        ctx.prove("utils.LogRepFloat/ieee[+= plain zero]-is-the-identity", lift(lv) == a,
                  text="w += 0 leaves log_val unchanged for log values of ANY magnitude (the plain value of w may be 0.0, subnormal or inf)")
    it2.explore(h_ieee_iadd_plain, "ieee-iadd-plain", roots=[[0], [1]])
    return it


def run(run_, tier):
    run_.assume("A3: libm exp/log/log1p/expm1 within 1 ulp (relative 2^-52), monotone, exact at 0/1; exp overflows above 709.78; "
                "real-semantics layer treats floats as reals (A1) with EXP/LOG uninterpreted + instantiated axioms")
    run_.trust("axioms of EXP/LOG in vf/mathlib.py (positivity, strict monotonicity, 1+x<=EXP(x), homomorphism, LOG inverse, numeric anchors for exp(-log 2))")
    its = [helpers_real(run_), helpers_ieee(run_), operators(run_)]
    for it in its:
        run_.extraction_drops.extend(sorted(it.dropped))
    run_.notes.append("paths explored: %d; solver seconds %.2f" % (sum(i.paths for i in its), sum(i.solver_seconds for i in its)))
