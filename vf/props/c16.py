"""C16 -- adaptation confined to warm-up; stages partition the iterations exactly.

Contracts on (real source, re-read every run):
  mici.stagers.WarmUpStager.stages
  mici.stagers.WindowedWarmUpStager.stages   (while-loop invariant, for-loop family contract)
  mici.samplers.MarkovChainMonteCarloMethod.sample_chains (stage loop: see samplers_model)
"""
from __future__ import annotations

import z3

from .. import core, mathlib
from ..models import Opaque, SymList
from ..pyvc import (Interp, LoopSpec, Obj, OutsideSubset, PyRaise, exc_name, get_func, is_z3, lift,
                    run_function)

MOD = "mici.stagers"
# the first three decisions of every path are the input-shape choices of _inputs()
ROOTS = [[a, b, c] for a in range(5) for b in range(2) for c in range(2)]


class StageLog:
    """Ghost view of the ordered `sampling_stages` dict once the slow-window loop is cut:
    prefix (concrete entries) ++ family (one generic entry per slow window) ++ suffix."""

    def __init__(self, base, windows):
        self.prefix = list(base.items())
        self.windows = windows  # SymList
        self.family = None  # (key, stage) recorded for the generic index
        self.suffix = []
        self.generic = False
        self.generic_index = None

    def _pv_setitem(self, ex, key, value):
        if self.generic:
            if self.family is not None:
                raise OutsideSubset("two stage insertions in one slow-window iteration")
            self.family = (key, value)
        else:
            self.suffix.append((key, value))

    def _pv_getattr(self, ex, name):
        raise OutsideSubset(f"StageLog.{name}")


def _llen(x):
    return x.length if isinstance(x, SymList) else len(x)


def _lsum(x):
    return x.total if isinstance(x, SymList) else sum(x, 0)


def _while_inv(ex):
    e = ex.env
    counter, w, S = lift(e.lookup("counter")), lift(e.lookup("n_window_iter")), lift(e.lookup("n_slow_stage_iter"))
    sw = e.lookup("slow_windows")
    def is_int(x):
        # the havoc below re-introduces counter and n_window_iter as INTEGERS: that typing is part of the invariant and must be re-established by the body
        # (window sizes are iteration counts; a real-valued running size would make sum(int(w_i)) differ from the counter)
        return z3.IsInt(x) if z3.is_real(x) else z3.BoolVal(True)
    inv = [counter >= 0, counter <= S, w >= 1, lift(_lsum(sw)) == counter, lift(_llen(sw)) >= 0,
           lift(_llen(sw)) <= counter, is_int(counter), is_int(w)]
    if not isinstance(sw, SymList):
        inv.append(z3.BoolVal(all(ex.truth(lift(x) >= 1) for x in sw)))
    return z3.And(*inv)


def _while_havoc(ex):
    ctx = ex.ctx
    ex.env.set("counter", ctx.fresh("counter", "int"))
    ex.env.set("n_window_iter", ctx.fresh("n_window_iter", "int"))
    ex.env.set("slow_windows", SymList(ctx, "slow_windows", lambda x: x >= 1))


def _while_variant(ex):
    return lift(ex.env.lookup("n_slow_stage_iter")) - lift(ex.env.lookup("counter"))


def _for_havoc(ex):
    d = ex.env.lookup("sampling_stages")
    sw = ex.env.lookup("slow_windows")
    if not isinstance(sw, SymList):
        raise OutsideSubset("slow_windows expected to be abstract at the stage-construction loop")
    if not isinstance(d, StageLog):
        ex.env.set("sampling_stages", StageLog(d, sw))


def _for_on_body(ex):
    log = ex.env.lookup("sampling_stages")
    log.generic = True
    log.generic_index = ex.ctx.ghost["loop_index"]


def _for_on_exit(ex):
    ex.env.lookup("sampling_stages").generic = False


def _for_inv(ex):
    return z3.BoolVal(True)


class _ForSpec(LoopSpec):
    pass


def check_family_entry(ex_ctx, run_unused, log, env_expect, tag):
    """Obligations on the generic slow-window stage (proved in the preservation path)."""
    ctx = ex_ctx
    if log.family is None:
        ctx.run.ob(f"{tag}/slow-window-stage.inserted", core.FAILED, "pyvc",
               detail="the slow-window loop body inserted no stage for a generic window")
        return
    key, st = log.family
    idx = log.generic_index
    # the stages are entries of a dict keyed by label: two windows with the same label would silently collapse into one stage
    parts = [lift(x) for x in getattr(key, "sym_parts", []) if is_z3(x) or isinstance(x, (int, bool))]
    j = z3.Int("other_window_index")
    in_range = z3.And(j >= 0, j < log.windows.length, idx >= 0, idx < log.windows.length, j != idx, log.windows.elem(j) >= 1)
    if parts and len(parts) == len(getattr(key, "sym_parts", [])):
        differ = z3.Or(*[p != z3.substitute(p, (idx, j)) for p in parts if is_z3(p)]) if any(is_z3(p) for p in parts) else z3.BoolVal(False)
        ctx.prove(f"{tag}/slow-window-stage.labels-pairwise-distinct", z3.Implies(in_range, differ),
                  text="labels of different slow windows differ (the stage dictionary keeps one entry per window)")
    elif not getattr(key, "sym_parts", None):
        ctx.prove(f"{tag}/slow-window-stage.labels-pairwise-distinct", z3.Not(in_range),
                  text="labels of different slow windows differ (the stage dictionary keeps one entry per window)")
    else:
        ctx.run.ob(f"{tag}/slow-window-stage.labels-pairwise-distinct", core.UNKNOWN, "pyvc", detail=f"label fields not modelled: {key.sym_parts}")
    ctx.prove(f"{tag}/slow-window-stage.n_iter", lift(st.attrs["n_iter"]) == log.windows.elem(idx))
    same = st.attrs["adapters"] is env_expect["adapters"]
    ctx.run.ob(f"{tag}/slow-window-stage.adapters-all", core.DISCHARGED if same else core.FAILED, "pyvc",
           detail="" if same else "slow window stage does not carry the full adapter dictionary",
           text="slow-window stage.adapters is the `adapters` argument (all adapters, fast and slow)")
    ok_t = st.attrs["trace_funcs"] is env_expect["warm_trace"] or st.attrs["trace_funcs"] == env_expect["warm_trace"]
    ok_r = st.attrs["record_stats"] is env_expect["record_stats"]
    ctx.run.ob(f"{tag}/slow-window-stage.trace-and-stats", core.DISCHARGED if (ok_t and ok_r) else core.FAILED, "pyvc",
           detail="" if (ok_t and ok_r) else f"trace_funcs/record_stats of slow window stage wrong: {st.attrs}",
           text="slow-window stage trace_funcs/record_stats follow trace_warm_up")


def _stage_fields(st):
    return st.attrs["n_iter"], st.attrs["adapters"], st.attrs["trace_funcs"], st.attrs["record_stats"]


def make_interp(run):
    it = Interp(run, ieee=True)
    mathlib.install(it)
    return it


def _inputs(ctx):
    fastA = Opaque("fast_adapter", is_fast=True)
    slowA = Opaque("slow_adapter", is_fast=False)
    fastB = Opaque("fast_adapter_2", is_fast=True)
    mix = ctx.choose(5, "adapter-mix")
    if mix == 0:
        adapters = {"integration_transition": [fastA, slowA]}
    elif mix == 1:
        adapters = {"integration_transition": [slowA, fastA, fastB], "other_transition": [slowA]}
    elif mix == 2:
        adapters = {"integration_transition": [fastA]}
    elif mix == 3:
        adapters = {"integration_transition": [slowA]}  # no fast adapter at all: the fast stages still count towards n_warm_up_iter
    else:
        adapters = {"integration_transition": []}
    tf = ctx.choose(2, "trace_funcs")
    trace_funcs = None if tf == 0 else [Opaque("trace_func_a"), Opaque("trace_func_b")]
    trace_warm_up = bool(ctx.choose(2, "trace_warm_up"))
    n_w = z3.Int("n_warm_up_iter")
    n_m = z3.Int("n_main_iter")
    ctx.assume(n_w >= 0)
    ctx.assume(n_m >= 0)
    return adapters, trace_funcs, trace_warm_up, n_w, n_m


def _expected_fast(adapters):
    return {k: [a for a in v if a._attrs["is_fast"]] for k, v in adapters.items()}


def _check_common(ctx, run_unused, tag, entries, n_w, n_m, adapters, trace_funcs, trace_warm_up, family=None):
    """entries: list of (key, stage Obj) in order, with an optional family marker ('FAMILY', log)."""
    tf_tuple = tuple(trace_funcs) if trace_funcs is not None else None
    warm_trace = tf_tuple if trace_warm_up else None
    # main stage last
    has_main = ctx.branch(n_m > 0)
    names = [k for k, _ in entries]
    if has_main:
        ok = bool(entries) and entries[-1][0] == "Main non-adaptive"
        ctx.run.ob(f"{tag}/main-stage-last", core.DISCHARGED if ok else core.FAILED, "pyvc",
               detail="" if ok else f"stage order {names}", text="n_main_iter>0 => last stage is the main stage")
        if ok:
            n_iter, ad, tfs, rs = _stage_fields(entries[-1][1])
            ctx.prove(f"{tag}/main-stage-length", lift(n_iter) == n_m)
            good = ad is None and rs is True and tfs == tf_tuple
            ctx.run.ob(f"{tag}/main-stage-non-adaptive", core.DISCHARGED if good else core.FAILED, "pyvc",
                   detail="" if good else f"main stage fields adapters={ad} record_stats={rs} trace_funcs={tfs}",
                   text="main stage: adapters None, record_stats True, trace_funcs = tuple(trace_funcs)")
            warm = entries[:-1]
        else:
            warm = entries
    else:
        ok = "Main non-adaptive" not in names
        ctx.run.ob(f"{tag}/no-main-stage-when-zero", core.DISCHARGED if ok else core.FAILED, "pyvc",
               detail="" if ok else "main stage emitted with n_main_iter == 0")
        warm = entries
    total = z3.IntVal(0)
    nonneg = []
    for k, st in warm:
        if k == "FAMILY":
            total = total + st.windows.total
            continue
        n_iter, ad, tfs, rs = _stage_fields(st)
        total = total + lift(n_iter)
        nonneg.append(lift(n_iter) >= 0)
        good = (tfs == warm_trace) and (rs is trace_warm_up)
        ctx.run.ob(f"{tag}/warm-up-trace-and-stats", core.DISCHARGED if good else core.FAILED, "pyvc",
               detail="" if good else f"stage {k}: trace_funcs={tfs} record_stats={rs}",
               text="warm-up stages: trace_funcs/record_stats follow trace_warm_up")
        if ad is None:
            ctx.run.ob(f"{tag}/warm-up-stage-has-adapters", core.FAILED, "pyvc", detail=f"stage {k} has adapters None")
    ctx.prove(f"{tag}/warm-up-lengths-sum", total == n_w)
    ctx.prove(f"{tag}/stage-lengths-nonneg", z3.And(*nonneg) if nonneg else True)
    return warm


def check_warmup_stager(run, it):
    tag = "stagers.WarmUpStager.stages"
    run.function("mici.stagers.WarmUpStager.stages")

    def harness(ctx):
        adapters, trace_funcs, twu, n_w, n_m = _inputs(ctx)
        cls = it.module(MOD).resolve("WarmUpStager", ctx)
        self_obj = Obj(cls, {})
        kind, res = run_function(it, ctx, MOD, "WarmUpStager.stages", [n_w, n_m, adapters, trace_funcs],
                                 {"trace_warm_up": twu}, self_obj=self_obj)
        if kind == "raise":
            ctx.run.ob(f"{tag}/no-exception", core.FAILED, "pyvc", detail=f"raised {exc_name(res)} path={ctx.trace}")
            return
        ctx.run.ob(f"{tag}/no-exception", core.DISCHARGED, "pyvc", text="stages() returns normally for all n>=0")
        entries = list(res.items())
        warm = _check_common(ctx, run, tag, entries, n_w, n_m, adapters, trace_funcs, twu)
        for k, st in warm:
            same = st.attrs["adapters"] is adapters
            ctx.run.ob(f"{tag}/warm-up-all-adapters", core.DISCHARGED if same else core.FAILED, "pyvc",
                   detail="" if same else "warm-up stage does not carry all adapters")
        if ctx.branch(n_w > 0):
            ok = len(warm) == 1
            ctx.run.ob(f"{tag}/single-warm-up-stage", core.DISCHARGED if ok else core.FAILED, "pyvc",
                   detail="" if ok else f"{len(warm)} warm-up stages")
    it.explore(harness, tag, roots=ROOTS)


def check_windowed_stager(run, it):
    tag = "stagers.WindowedWarmUpStager.stages"
    q = "WindowedWarmUpStager.stages"
    run.function("mici.stagers.WindowedWarmUpStager.stages")
    import ast as _ast

    def _is_window_loop(nd):
        return isinstance(nd, _ast.For) and any(isinstance(x, _ast.Name) and x.id == "slow_windows" for x in _ast.walk(nd.iter))
    it.loop_specs[(q, 0)] = LoopSpec(_while_inv, _while_havoc, _while_variant, anchor=lambda nd: isinstance(nd, _ast.While))
    it.loop_specs[(q, 1)] = LoopSpec(_for_inv, _for_havoc, on_exit=_for_on_exit, on_body=_for_on_body, anchor=_is_window_loop)

    def harness(ctx):
        adapters, trace_funcs, twu, n_w, n_m = _inputs(ctx)
        cls = it.module(MOD).resolve("WindowedWarmUpStager", ctx)
        slow0, fast0, fin0 = z3.Int("cfg_n_init_slow_window_iter"), z3.Int("cfg_n_init_fast_stage_iter"), z3.Int("cfg_n_final_fast_stage_iter")
        mult = z3.Real("cfg_slow_window_multiplier")
        # preconditions (recorded in evidence): window >= 1, fast stages >= 0, multiplier >= 1
        ctx.assume(slow0 >= 1)
        ctx.assume(fast0 >= 0)
        ctx.assume(fin0 >= 0)
        ctx.assume(mult >= 1)
        ctx.assume(n_w <= 2 ** 40)  # integers far below 2^53 (rounding model exact at integers)
        ctx.assume(mult <= 2 ** 10)
        ctx.cover(f"{tag}/precondition-satisfiable")
        self_obj = Obj(cls, {"n_init_slow_window_iter": slow0, "n_init_fast_stage_iter": fast0,
                             "n_final_fast_stage_iter": fin0, "slow_window_multiplier": mult})
        tf_tuple = tuple(trace_funcs) if trace_funcs is not None else None
        expect = {"adapters": adapters, "warm_trace": tf_tuple if twu else None, "record_stats": twu}
        try:
            kind, res = run_function(it, ctx, MOD, q, [n_w, n_m, adapters, trace_funcs],
                                     {"trace_warm_up": twu}, self_obj=self_obj)
        finally:
            # preservation path of the stage-construction loop ends inside run_function (PathEnd):
            # its generic-entry obligations are checked here.
            pass
        if kind == "raise":
            ctx.run.ob(f"{tag}/no-exception", core.FAILED, "pyvc", detail=f"raised {exc_name(res)} {res.attrs} path={ctx.trace}")
            return
        ctx.run.ob(f"{tag}/no-exception", core.DISCHARGED, "pyvc", text="stages() returns normally under the precondition")
        if isinstance(res, StageLog):
            entries = res.prefix + [("FAMILY", res)] + res.suffix
            fam = res
        else:
            entries = list(res.items())
            fam = None
        warm = _check_common(ctx, run, tag, entries, n_w, n_m, adapters, trace_funcs, twu)
        fast = _expected_fast(adapters)
        if ctx.branch(n_w > 0):
            names = [k for k, _ in warm]
            ok = names == ["Initial fast adaptive", "FAMILY", "Final fast adaptive"]
            ctx.run.ob(f"{tag}/stage-order", core.DISCHARGED if ok else core.FAILED, "pyvc",
                   detail="" if ok else f"warm-up stage order {names}",
                   text="warm-up stages: initial fast, slow windows..., final fast")
            for k, st in warm:
                if k in ("Initial fast adaptive", "Final fast adaptive"):
                    good = st.attrs["adapters"] == fast
                    ctx.run.ob(f"{tag}/fast-stage-only-fast-adapters", core.DISCHARGED if good else core.FAILED, "pyvc",
                           detail="" if good else f"{k}: adapters {st.attrs['adapters']}",
                           text="fast stages carry exactly the adapters with is_fast")
            if fam is not None:
                ctx.prove(f"{tag}/slow-windows-positive-total", fam.windows.total >= 1)
        else:
            ok = not warm
            ctx.run.ob(f"{tag}/no-warm-up-stage-when-zero", core.DISCHARGED if ok else core.FAILED, "pyvc",
                   detail="" if ok else "warm-up stages emitted with n_warm_up_iter == 0")

    # wrap harness so that generic-family obligations are checked when the for-loop body path ends
    def harness2(ctx):
        from ..pyvc import PathEnd
        try:
            harness(ctx)
        except PathEnd:
            log = ctx.ghost.get("stage_log")
            if log is not None and log.generic:
                check_family_entry(ctx, run, log, ctx.ghost["expect"], tag)
            raise
    # record the log and expectations in ghost state through the havoc hook
    orig_havoc = it.loop_specs[(q, 1)].havoc

    def havoc_and_remember(ex):
        orig_havoc(ex)
        ex.ctx.ghost["stage_log"] = ex.env.lookup("sampling_stages")
        tf = ex.env.lookup("trace_funcs")
        twu = ex.env.lookup("trace_warm_up")
        ex.ctx.ghost["expect"] = {"adapters": ex.env.lookup("adapters"),
                                  "warm_trace": tf if twu else None, "record_stats": twu}
    it.loop_specs[(q, 1)].havoc = havoc_and_remember
    it.explore(harness2, tag, roots=ROOTS)


def run(run_, tier):
    it = make_interp(run_)
    run_.assume("A1/A3: float products int(c*n) use a monotone relative-error rounding model (exact at integers < 2^53); "
                "n_warm_up_iter <= 2^40, slow_window_multiplier in [1, 1024]")
    run_.assume("WindowedWarmUpStager precondition: n_init_slow_window_iter >= 1, fast stage sizes >= 0, slow_window_multiplier >= 1")
    import json as _json
    run_.replay_for("stagers.WarmUpStager", lambda w: {"script": "c16_stager.py", "args": [_json.dumps(w or {}), "plain"]})
    run_.replay_for("stagers.WindowedWarmUpStager", lambda w: {"script": "c16_stager.py", "args": [_json.dumps(w or {}), "windowed"]})
    run_.replay_for("WindowedWarmUpStager", lambda w: {"script": "c16_stager.py", "args": [_json.dumps(w or {}), "windowed"]})
    check_warmup_stager(run_, it)
    check_windowed_stager(run_, it)
    from . import samplers_model
    samplers_model.c16_obligations(run_, tier)
    run_.extraction_drops.extend(sorted(it.dropped))
    run_.notes.append(f"paths explored: {it.paths}; solver seconds {it.solver_seconds:.2f}")
