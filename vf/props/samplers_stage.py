"""Stage loop of MarkovChainMonteCarloMethod.sample_chains and the sequential chain loop (real source interpreted),
with _sample_chain / allocation / stager / progress bars / adapters' finalize as contract stubs.
Obligations are emitted for C13 (offsets, lengths, option space), C14 (rng threading), C15 (interrupt => immediate
normal return), C16 (adapters only from stage.adapters; zero-iteration stages change nothing; finalize placement).
"""
from __future__ import annotations

import z3

from .. import core
from ..models import Opaque
from ..pyvc import (Exec, Interp, Namespace, Native, Obj, OutsideSubset, PyRaise, exc_name, is_z3, lift, make_exc)
from .samplers_model import MOD, ChainIter, RowArray, make_interp

P = "samplers."

_COMMON = {"no-exception"}
STAGE_OBLIGATIONS = {
    "C13": _COMMON | {"n_process-none-is-accepted", "chain-function-selected-by-n_process", "trace-arrays-have-n_trace_iter-rows",
                      "no-trace-arrays-without-trace-functions", "statistics-arrays-have-n_trace_iter-rows", "memmap-iff-forced-or-multiprocess",
                      "stage-offset-is-sum-of-earlier-recorded-stages", "stage-rows-within-arrays", "chain-iterators-cover-stage-length",
                      "trace-functions-passed-are-the-stage-trace-functions", "chain-states-and-rngs-threaded-between-stages", "per-chain-trace-arrays",
                      "per-chain-statistics-arrays", "returns-final-stage-states", "every-stage-sampled-once-in-order", "stager-receives-the-request",
                      "stager-receives-iteration-counts", "after-a-dropped-chain-survivors-keep-their-own-arrays-and-generators"},
    "C14": _COMMON | {"chain-states-and-rngs-threaded-between-stages", "chain-function-selected-by-n_process"},
    "C15": {"no-stage-started-after-an-interrupt", "interrupt-returns-normally", "interrupt-returns-the-stage-states"},
    "C16": _COMMON | {"adapters-passed-are-the-stage-adapters", "adaptive-stage-is-finalized-once", "non-adaptive-stage-is-not-finalized",
                      "zero-iteration-stage-changes-nothing", "every-stage-sampled-once-in-order", "stager-receives-the-request",
                      "stager-receives-iteration-counts"},
}


def kb_interrupt(ex):
    return Obj(ex.interp.builtins["KeyboardInterrupt"], {"args": ()})


def adaptation_error(ex):
    cls = ex.interp.module("mici.errors").resolve("AdaptationError", ex.ctx)
    return ex.call(cls, ["init failed"], {})


# ---------------------------------------------------------------------------------------
# _sample_chains_sequential


def sequential_loop(run, it, prop):
    run.function("mici.samplers._sample_chains_sequential")
    run.function("mici.samplers._collate_chain_outputs")
    tag = P + "_sample_chains_sequential"
    NCH = 3

    def h(ctx):
        mod = it.module(MOD)
        ex = Exec(it, ctx, mod, mod.env, "harness")
        calls = []
        outcomes = []

        def sc(ex_, **kw):
            c = len(calls)
            calls.append(kw)
            o = ex_.ctx.choose(3, f"chain{c}-outcome")  # 0 normal, 1 interrupted, 2 adapter initialisation failed
            outcomes.append(o)
            st = Opaque(f"final_state{c}")
            ad = {"integration_transition": [f"astate{c}.0", f"astate{c}.1"]} if kw.get("adapters") is not None else {}
            if o == 0:
                return (st, ad, None)
            if o == 1:
                return (st, ad, kb_interrupt(ex_))
            return (st, {}, adaptation_error(ex_))
        it.call_contracts["_sample_chain"] = Native(sc, "_sample_chain")
        with_ad = ctx.choose(2, "adapters")
        iters = [Opaque(f"iter{c}") for c in range(NCH)]
        pck = [{"init_state": f"init{c}", "rng": f"rng{c}", "chain_traces": f"traces{c}", "chain_stats": f"stats{c}"} for c in range(NCH)]
        common = {"transitions": "TRANSITIONS", "monitor_stats": None, "sampling_index_offset": z3.Int("off"), "trace_funcs": "TF",
                  "adapters": ({"integration_transition": ["a", "b"]} if with_ad else None)}
        try:
            try:
                states, ad_states, exc = ex.call(mod.resolve("_sample_chains_sequential", ctx), [], dict(chain_iterators=iters, per_chain_kwargs=pck, **common))
            except PyRaise as pr:
                ctx.run.ob(tag + "/returns-normally", core.FAILED, "pyvc", detail=f"{exc_name(pr.exc)} {pr.exc.attrs.get('args')} (outcomes {outcomes})")
                return
        finally:
            del it.call_contracts["_sample_chain"]
        n_called = len(calls)
        first_int = outcomes.index(1) if 1 in outcomes else None
        want_called = NCH if first_int is None else first_int + 1
        ok = n_called == want_called
        ctx.run.ob(tag + "/chains-after-an-interrupt-are-not-started", core.DISCHARGED if ok else core.FAILED, "pyvc",
                   detail="" if ok else f"outcomes {outcomes}: {n_called} chains sampled", text="every chain is sampled once in order; none after an interrupted chain")
        good = all(calls[c]["chain_iterator"] is iters[c] and calls[c]["chain_index"] == c and all(calls[c][k] == v for k, v in pck[c].items())
                   and all(calls[c][k] is v or calls[c][k] == v for k, v in common.items()) for c in range(n_called))
        ctx.run.ob(tag + "/each-chain-gets-its-own-arguments", core.DISCHARGED if good else core.FAILED, "pyvc",
                   detail="" if good else "per-chain kwargs / chain_index / iterator mismatched",
                   text="chain c is sampled with iterator c, chain_index c, its own init state, rng, trace and statistics arrays, and the common kwargs")
        kept = [c for c in range(n_called) if outcomes[c] != 2]
        oks = [getattr(s, "_name", None) for s in states] == [f"final_state{c}" for c in kept]
        ctx.run.ob(tag + "/final-states-in-chain-order", core.DISCHARGED if oks else core.FAILED, "pyvc", detail="" if oks else str(states),
                   text="final states are returned in chain order (chains whose adapters failed to initialise are dropped)")
        if with_ad and kept:
            want = [[f"astate{c}.{j}" for c in kept] for j in range(2)]
            oka = ad_states.get("integration_transition") == want
            ctx.run.ob(tag + "/adapter-states-collated-per-adapter-then-chain", core.DISCHARGED if oka else core.FAILED, "pyvc", detail="" if oka else str(ad_states))
        if first_int is not None:
            oke = isinstance(exc, Obj) and exc.cls.name == "KeyboardInterrupt"
            ctx.run.ob(tag + "/interrupt-is-reported", core.DISCHARGED if oke else core.FAILED, "pyvc", detail="" if oke else str(exc))
    it.explore(h, "_sample_chains_sequential", roots=[[0], [1]])


# ---------------------------------------------------------------------------------------
# sample_chains stage loop


class PBar:
    """contract of the stage progress bar: context manager, iterating yields (item, {}) for the items of the sequence/dict values"""

    def __init__(self, seq):
        self.items = list(seq.values()) if isinstance(seq, dict) else list(seq)

    def _pv_getattr(self, ex, name):
        if name == "__enter__":
            return Native(lambda ex2: self, "__enter__")
        if name == "__exit__":
            return Native(lambda ex2, *a: False, "__exit__")
        raise PyRaise(make_exc(ex.interp, "AttributeError", name))

    def _pv_iter(self, ex):
        return [(x, {}) for x in self.items]


def stage_loop(run, prop, it=None, nch=2, stream_probe=None):
    """stream_probe: a dict; when given, ONLY the stream-derivation harness runs (real _get_per_chain_rngs on a jump-capable ghost generator, three non-empty
    stages) and the generator handed to every chain in every stage call is recorded under stream_probe[nch] for the relational obligations of C14"""
    it = it or make_interp(run)
    run.function("mici.samplers.MarkovChainMonteCarloMethod.sample_chains")
    run.function("mici.samplers._check_and_process_init_state")
    run.function("mici.samplers._construct_chain_iterators")
    run.function("mici.samplers._zip_dict")
    tag = P + "sample_chains"
    NCH = nch

    def setup(ctx, opts):
        mod = it.module(MOD)
        ex = Exec(it, ctx, mod, mod.env, "harness")
        g = {"calls": [], "finalize": [], "alloc": {}, "func": []}
        def cpu_count(ex_):
            n = z3.Int("cpu_count")
            ex_.ctx.assume(n >= 1)
            return n
        it.ext_modules["os"] = Namespace("os", cpu_count=Native(cpu_count, "os.cpu_count"))
        for nm in ("DummyProgressBar", "SequenceProgressBar", "LabelledSequenceProgressBar"):
            def mk(ex_, seq, *a, _nm=nm, **k):
                if isinstance(seq, (dict, list)):
                    return PBar(seq)
                c = ChainIter(None)
                c.sequence = seq
                return c
            it.overrides[(MOD, nm)] = Native(mk, nm)
        cs = it.module("mici.states").resolve("ChainState", ctx)
        inits = [ex.call(cs, [], {"pos": f"q{c}", "mom": f"p{c}", "dir": 1}) for c in range(NCH)]
        trans = {"momentum_transition": Opaque("mt", state_variables={"mom"}, statistic_types=None),
                 "integration_transition": Opaque("itr", state_variables={"pos", "mom", "dir"}, statistic_types={"n_step": ("i8", -1)})}

        def init_traces(ex_, trace_funcs, init_states, n_iter, *, use_memmap, memmap_path):
            g["alloc"]["traces"] = (n_iter, use_memmap, memmap_path)
            return {"pos": [RowArray(f"trace.pos[{c}]", n_iter) for c in range(NCH)]}

        def init_stats(ex_, transitions, n_chain, n_iter, *, use_memmap, memmap_path):
            g["alloc"]["stats"] = (n_iter, use_memmap, memmap_path)
            return {"integration_transition": {"n_step": [RowArray(f"stat.n_step[{c}]", n_iter) for c in range(NCH)]}}
        rngs = [Opaque(f"rng{c}") for c in range(NCH)]
        it.call_contracts["_init_traces"] = Native(init_traces, "_init_traces")
        it.call_contracts["_init_stats"] = Native(init_stats, "_init_stats")
        if not opts.get("real_rngs"):
            it.call_contracts["_get_per_chain_rngs"] = Native(lambda ex_, rng, n: list(rngs), "_get_per_chain_rngs")

        def chains_func(which):
            def f(ex_, chain_iterators=None, per_chain_kwargs=None, **kw):
                k = len(g["calls"])
                pck = [dict(d) for d in ex_.iterate_concrete(per_chain_kwargs)]
                seqs = [ci.sequence for ci in chain_iterators]
                g["calls"].append(dict(which=which, kw=kw, pck=pck, seqs=seqs))
                interrupted = opts["interrupt_stage"] == k
                if interrupted:
                    g["interrupted_call"] = k
                n_ret = NCH if not interrupted else opts["interrupt_returns"]
                ids = list(range(n_ret))
                if opts.get("drop_stage") == k and kw.get("adapters") is not None and not interrupted:
                    # contract of the chain functions: a chain whose adapter initialisation raises AdaptationError is left out of the collated outputs
                    # (here chain 0 -- so the surviving outputs are NOT a prefix of the chains)
                    ids = list(range(1, NCH))
                    g["dropped_at"] = k
                states = [Opaque(f"state<stage{k},chain{c}>", chain=c) for c in ids]
                g.setdefault("returned", []).append(states)
                ads = {} if kw.get("adapters") is None else {"integration_transition": [[f"ad{j}<stage{k},chain{c}>" for c in ids] for j in range(2)]}
                return (states, ads, kb_interrupt(ex_) if interrupted else None)
            return Native(f, which)
        it.call_contracts["_sample_chains_sequential"] = chains_func("sequential")
        it.call_contracts["_sample_chains_parallel"] = chains_func("parallel")

        def finalize(ex_, adapter_states, chain_states, adapters, transitions, rngs_):
            g["finalize"].append(dict(after_call=len(g["calls"]) - 1, states=list(chain_states), rngs=list(rngs_), adapters=adapters))
            if len(list(chain_states)) != len(list(rngs_)):
                # contract of the metric adapters' finalize: zip(chain_states, rngs, strict=True)
                raise PyRaise(make_exc(ex_.interp, "ValueError", "zip() argument 2 is longer than argument 1"))
        it.call_contracts["_finalize_adapters"] = Native(finalize, "_finalize_adapters")
        return mod, ex, g, inits, trans, rngs

    def teardown():
        for k in ("_init_traces", "_init_stats", "_get_per_chain_rngs", "_sample_chains_sequential", "_sample_chains_parallel", "_finalize_adapters"):
            it.call_contracts.pop(k, None)

    OPT_NPROC = [1, None, 3]
    roots = [[a, b, c, d] for a in range(3) for b in range(2) for c in range(3) for d in range(2)]

    def h(ctx):
        n_process = OPT_NPROC[ctx.choose(3, "n_process")]
        trace_warm_up = bool(ctx.choose(2, "trace_warm_up"))
        tf_kind = ctx.choose(3, "trace_funcs")  # None, [], [tf]
        with_ad = bool(ctx.choose(2, "adapters"))
        force_memmap = bool(ctx.choose(2, "force_memmap"))
        interrupt_stage = ctx.choose(4, "interrupt") - 1  # -1: none, else stage index
        interrupt_returns = [0, 1, NCH][ctx.choose(3, "interrupt_returns")] if interrupt_stage >= 0 else NCH
        opts = dict(interrupt_stage=interrupt_stage, interrupt_returns=interrupt_returns)
        mod, ex, g, inits, trans, rngs = setup(ctx, opts)
        try:
            n1, n2, n3 = z3.Int("stage0_n_iter"), z3.Int("stage1_n_iter"), z3.Int("n_main_iter")
            n_warm = z3.Int("n_warm_up_iter")
            for v in (n1, n2, n3):
                ctx.assume(v >= 0)
            ctx.assume(n1 + n2 == n_warm)  # stager contract (C16): warm-up stage lengths sum to n_warm_up_iter
            tf = Opaque("trace_func")
            trace_funcs = [None, [], [tf]][tf_kind]
            adapters = {"integration_transition": [Opaque("fast_adapter", is_fast=True), Opaque("slow_adapter", is_fast=False)]} if with_ad else None
            stage_cls = it.module("mici.stagers").resolve("ChainStage", ctx)
            tft = tuple(trace_funcs) if trace_funcs is not None else None
            warm_tf = tft if trace_warm_up else None

            def stages(ex_, n_w, n_m, ad, tfs, *, trace_warm_up=False):
                g["stager_args"] = (n_w, n_m, ad, tfs, trace_warm_up)
                out = {}
                fast = None if ad is None else {k: [a for a in v if a._attrs["is_fast"]] for k, v in ad.items()}
                out["warm A"] = ex_.call(stage_cls, [], dict(n_iter=n1, adapters=fast, trace_funcs=warm_tf, record_stats=trace_warm_up))
                out["warm B"] = ex_.call(stage_cls, [], dict(n_iter=n2, adapters=ad, trace_funcs=warm_tf, record_stats=trace_warm_up))
                out["main"] = ex_.call(stage_cls, [], dict(n_iter=n3, adapters=None, trace_funcs=tft, record_stats=True))
                return out
            stager = Opaque("stager", stages=Native(stages, "stager.stages"))
            cls = mod.resolve("MarkovChainMonteCarloMethod", ctx)
            sampler = ex.call(cls, [Opaque("base_rng"), trans], {})
            try:
                res = ex.call(ex.getattr(sampler, "sample_chains"), [n_warm, n3, inits],
                              dict(trace_funcs=trace_funcs, adapters=adapters, stager=stager, n_process=n_process, trace_warm_up=trace_warm_up,
                                   force_memmap=force_memmap, memmap_path=None, monitor_stats=None, display_progress=False))
            except PyRaise as pr:
                name = exc_name(pr.exc)
                msg = f"{name} {pr.exc.attrs.get('args')}"
                if n_process is None and name == "TypeError" and not g["calls"]:
                    ctx.run.ob(tag + "/n_process-none-is-accepted", core.FAILED, "pyvc", witness={"n_process": None},
                               detail=f"the documented n_process=None ('use all CPUs') raises {msg} before any sampling")
                elif interrupt_stage >= 0 and len(g["calls"]) > interrupt_stage:
                    ctx.run.ob(tag + "/interrupt-returns-normally", core.FAILED, "pyvc",
                               witness={"interrupt_stage": interrupt_stage, "chains_returned": interrupt_returns, "adapters": with_ad},
                               detail=f"interrupt during stage {interrupt_stage} ({interrupt_returns} of {NCH} chains returned): {msg} raised before sample_chains returns "
                               f"(finalize calls: {len(g['finalize'])})")
                else:
                    ctx.run.ob(tag + "/no-exception", core.FAILED, "pyvc", detail=f"{msg} with options n_process={n_process} trace_funcs={tf_kind} adapters={with_ad}")
                return
            if n_process is None:
                ctx.run.ob(tag + "/n_process-none-is-accepted", core.DISCHARGED, "pyvc", text="the documented n_process=None setting is accepted")
            ctx.run.ob(tag + "/no-exception", core.DISCHARGED, "pyvc", text="sample_chains returns normally over the option space")
            calls = g["calls"]
            stage_defs = [(n1, True, warm_tf, trace_warm_up), (n2, True, warm_tf, trace_warm_up), (n3, False, tft, True)]

            def stage_of(call):
                hi = getattr(call["seqs"][0], "hi", None)
                for j, sd in enumerate(stage_defs):
                    if is_z3(hi) and hi.eq(sd[0]):
                        return j
                return None
            idxs = [stage_of(c) for c in calls]
            okid = all(j is not None for j in idxs) and idxs == sorted(set(idxs))
            ctx.run.ob(tag + "/chain-iterators-cover-stage-length", core.DISCHARGED if okid else core.FAILED, "pyvc",
                       detail="" if okid else f"iterator ranges {[c['seqs'] for c in calls]} do not identify increasing stages",
                       text="every chain iterator of a stage call runs over range(stage.n_iter); stages are visited in order")
            if not okid:
                return
            # ---- which chain function ------------------------------------------------------------------------------------
            if n_process is None:
                want_func = "sequential" if ctx.branch(z3.Int("cpu_count") == 1) else "parallel"
            else:
                want_func = "sequential" if n_process == 1 else "parallel"
            okf = all(c["which"] == want_func for c in calls)
            ctx.run.ob(tag + "/chain-function-selected-by-n_process", core.DISCHARGED if okf else core.FAILED, "pyvc", detail="" if okf else str([c["which"] for c in calls]))
            # ---- C15: interrupt => immediate normal return, no later stage ----------------------------------------------
            if g.get("interrupted_call") is None:
                interrupt_stage = -1  # fewer (non-empty) stages than the chosen interrupt point: nothing was interrupted on this path
            if interrupt_stage >= 0:
                oks = len(calls) == interrupt_stage + 1
                ctx.run.ob(tag + "/no-stage-started-after-an-interrupt", core.DISCHARGED if oks else core.FAILED, "pyvc",
                           detail="" if oks else f"{len(calls)} stage calls although stage {interrupt_stage} was interrupted",
                           text="after an interrupted stage sample_chains returns without starting later stages")
                ctx.run.ob(tag + "/interrupt-returns-normally", core.DISCHARGED, "pyvc", text="an interrupted stage is followed by a normal return (nothing raised in between)")
                okr = [getattr(s, "_name", "") for s in res.attrs["final_states"]] == [f"state<stage{interrupt_stage},chain{c}>" for c in range(interrupt_returns)]
                ctx.run.ob(tag + "/interrupt-returns-the-stage-states", core.DISCHARGED if okr else core.FAILED, "pyvc", detail="" if okr else str(res.attrs["final_states"]))
            else:
                skipped = [j for j in range(3) if j not in idxs]
                ctx.prove(tag + "/every-stage-sampled-once-in-order", z3.And(*[stage_defs[j][0] == 0 for j in skipped]) if skipped else True,
                          text="every stage with at least one iteration is sampled exactly once, in order (only empty stages are skipped)")
                last = len(calls) - 1
                okr = (not calls and res.attrs["final_states"] == inits) or \
                    [getattr(s, "_name", "") for s in res.attrs["final_states"]] == [f"state<stage{last},chain{c}>" for c in range(NCH)]
                ctx.run.ob(tag + "/returns-final-stage-states", core.DISCHARGED if okr else core.FAILED, "pyvc", detail="" if okr else str(res.attrs["final_states"]),
                           text="the returned final states are those returned by the last stage")
            # ---- per stage -------------------------------------------------------------------------------------------------
            n_trace = (n_warm + n3) if trace_warm_up else n3
            tracing = trace_funcs is not None and len(trace_funcs) > 0
            if tracing:
                ctx.prove(tag + "/trace-arrays-have-n_trace_iter-rows", lift(g["alloc"]["traces"][0]) == n_trace,
                          text="trace arrays are allocated with n_warm_up+n_main rows iff trace_warm_up else n_main")
            else:
                oknt = "traces" not in g["alloc"] and res.attrs["traces"] is None
                ctx.run.ob(tag + "/no-trace-arrays-without-trace-functions", core.DISCHARGED if oknt else core.FAILED, "pyvc")
            ctx.prove(tag + "/statistics-arrays-have-n_trace_iter-rows", lift(g["alloc"]["stats"][0]) == n_trace)
            mm = force_memmap or (want_func == "parallel")
            okm = g["alloc"]["stats"][1] == mm and (g["alloc"]["stats"][2] == "TMPDIR") == mm
            ctx.run.ob(tag + "/memmap-iff-forced-or-multiprocess", core.DISCHARGED if okm else core.FAILED, "pyvc", detail="" if okm else str(g["alloc"]))
            off = z3.IntVal(0)
            prev_states = inits
            for k, call in enumerate(calls):
                j = idxs[k]
                n_k, adaptive, s_tf, s_rs = stage_defs[j]
                kw = call["kw"]
                off = z3.IntVal(0)
                for jj in range(j):
                    if (stage_defs[jj][2] is not None) or stage_defs[jj][3]:
                        off = off + stage_defs[jj][0]
                ctx.prove(tag + "/stage-offset-is-sum-of-earlier-recorded-stages", lift(kw["sampling_index_offset"]) == off,
                          text="sampling_index_offset of a stage == total n_iter of the earlier stages that record traces or statistics")
                recorded = (s_tf is not None) or s_rs
                if recorded:
                    ctx.prove(tag + "/stage-rows-within-arrays", off + n_k <= n_trace, text="offset + n_iter <= number of allocated rows")
                same_len = all(getattr(sq, "hi", None) is not None and is_z3(sq.hi) and sq.hi.eq(n_k) for sq in call["seqs"])
                ctx.run.ob(tag + "/chain-iterators-cover-stage-length", core.DISCHARGED if same_len else core.FAILED, "pyvc",
                           detail="" if same_len else f"stage {j}: iterator sequences differ between chains")
                want_ad = None if not adaptive or adapters is None else (adapters if j == 1 else {kk: [a for a in v if a._attrs["is_fast"]] for kk, v in adapters.items()})
                oka = kw["adapters"] == want_ad if want_ad is not None else kw["adapters"] is None
                ctx.run.ob(tag + "/adapters-passed-are-the-stage-adapters", core.DISCHARGED if oka else core.FAILED, "pyvc",
                           detail="" if oka else f"stage {k} sampled with adapters {kw['adapters']}",
                           text="_sample_chain receives exactly stage.adapters (None in the main stage => no parameter changes there)")
                okt = kw["trace_funcs"] == s_tf
                ctx.run.ob(tag + "/trace-functions-passed-are-the-stage-trace-functions", core.DISCHARGED if okt else core.FAILED, "pyvc", detail="" if okt else str(kw["trace_funcs"]))
                pck = call["pck"]
                okc = len(pck) == NCH and all(pck[c]["init_state"] is prev_states[c] and pck[c]["rng"] is rngs[c] for c in range(NCH))
                ctx.run.ob(tag + "/chain-states-and-rngs-threaded-between-stages", core.DISCHARGED if okc else core.FAILED, "pyvc",
                           detail="" if okc else f"stage {k}: init states / rngs are not the previous stage's outputs / the per-chain generators",
                           text="stage k starts every chain from the state returned by stage k-1 and with that chain's own generator object")
                if s_tf is not None and tracing:
                    okx = all(pck[c]["chain_traces"] is not None and pck[c]["chain_traces"]["pos"].name == f"trace.pos[{c}]" for c in range(NCH))
                else:
                    okx = all(pck[c]["chain_traces"] is None for c in range(NCH))
                ctx.run.ob(tag + "/per-chain-trace-arrays", core.DISCHARGED if okx else core.FAILED, "pyvc", detail="" if okx else f"stage {k}")
                if s_rs:
                    oky = all(pck[c]["chain_stats"]["integration_transition"]["n_step"].name == f"stat.n_step[{c}]" for c in range(NCH))
                else:
                    oky = all(pck[c]["chain_stats"] is None for c in range(NCH))
                ctx.run.ob(tag + "/per-chain-statistics-arrays", core.DISCHARGED if oky else core.FAILED, "pyvc", detail="" if oky else f"stage {k}")
                prev_states = g["returned"][k]
                # ---- C16: finalize placement / zero-iteration stages --------------------------------------------------------
                fin = [f for f in g["finalize"] if f["after_call"] == k]
                if kw["adapters"] is not None and k != interrupt_stage:
                    okfz = len(fin) == 1 and fin[0]["adapters"] == kw["adapters"] and fin[0]["rngs"] == rngs
                    ctx.run.ob(tag + "/adaptive-stage-is-finalized-once", core.DISCHARGED if okfz else core.FAILED, "pyvc",
                               detail="" if okfz else f"stage {k}: {len(fin)} finalize calls", text="every adaptive stage is followed by exactly one finalize of its adapters")
                if kw["adapters"] is None:
                    okno = not fin
                    ctx.run.ob(tag + "/non-adaptive-stage-is-not-finalized", core.DISCHARGED if okno else core.FAILED, "pyvc", detail="" if okno else f"stage {k}")
            # zero-iteration adaptive stages must leave the transition parameters alone: neither initialised (sampled with adapters) nor finalized
            for k, call in enumerate(calls):
                n_k = stage_defs[idxs[k]][0]
                if call["kw"]["adapters"] is not None and ctx._check(n_k == 0) != z3.unsat:
                    wit = {"stage": k, "n_iter": 0}
                    ctx.run.ob(tag + "/zero-iteration-stage-changes-nothing", core.FAILED, "pyvc", witness=wit,
                               detail=f"stage {k} can have n_iter == 0 and is still sampled with its adapters (initialize) and finalized: the transition parameters are reset "
                               "from zero updates (e.g. step_size = exp(0) = 1.0) and leak into the main stage",
                               text="a stage without iterations neither initialises nor finalizes adapters")
                    break
            else:
                ctx.run.ob(tag + "/zero-iteration-stage-changes-nothing", core.DISCHARGED, "pyvc", text="a stage without iterations neither initialises nor finalizes adapters")
            sa = g.get("stager_args")
            oksa = sa is not None and sa[2] is adapters and sa[4] == trace_warm_up
            ctx.run.ob(tag + "/stager-receives-the-request", core.DISCHARGED if oksa else core.FAILED, "pyvc", detail="" if oksa else str(sa))
            if sa is not None:
                ctx.prove(tag + "/stager-receives-iteration-counts", z3.And(lift(sa[0]) == n_warm, lift(sa[1]) == n3))
        finally:
            teardown()

    if stream_probe is None:
        it.explore(h, "sample_chains", roots=roots)

    def h_streams(ctx):
        mod, ex, g, inits, trans, rngs = setup(ctx, dict(interrupt_stage=-1, interrupt_returns=NCH, real_rngs=True))
        made = []

        def default_rng(ex_, src):
            r = Opaque(f"generator<{getattr(src, '_name', src)}>", stream=getattr(src, "_name", str(src)))
            made.append(r)
            return r
        it.overrides[(MOD, "default_rng")] = Native(default_rng, "default_rng")
        try:
            bg = Opaque("bitgen", jumped=Native(lambda ex_, i=1: Opaque(f"base.jumped({i})"), "jumped"))
            base = Opaque("base_rng", bit_generator=bg)
            n1, n2, n3 = z3.Int("stage0_n_iter"), z3.Int("stage1_n_iter"), z3.Int("n_main_iter")
            n_warm = z3.Int("n_warm_up_iter")
            for v in (n1, n2, n3):
                ctx.assume(v >= 1)
            ctx.assume(n1 + n2 == n_warm)
            stage_cls = it.module("mici.stagers").resolve("ChainStage", ctx)

            def stages(ex_, n_w, n_m, ad, tfs, *, trace_warm_up=False):
                return {"warm A": ex_.call(stage_cls, [], dict(n_iter=n1, adapters=None, trace_funcs=None, record_stats=True)),
                        "warm B": ex_.call(stage_cls, [], dict(n_iter=n2, adapters=None, trace_funcs=None, record_stats=True)),
                        "main": ex_.call(stage_cls, [], dict(n_iter=n3, adapters=None, trace_funcs=None, record_stats=True))}
            stager = Opaque("stager", stages=Native(stages, "stager.stages"))
            sampler = ex.call(mod.resolve("MarkovChainMonteCarloMethod", ctx), [base, trans], {})
            try:
                ex.call(ex.getattr(sampler, "sample_chains"), [n_warm, n3, inits],
                        dict(trace_funcs=None, adapters=None, stager=stager, n_process=1, trace_warm_up=True,
                             force_memmap=False, memmap_path=None, monitor_stats=None, display_progress=False))
            except PyRaise as pr:
                stream_probe[NCH] = ("raised", f"{exc_name(pr.exc)} {pr.exc.attrs.get('args')}")
                return
            stream_probe[NCH] = [[(id(d["rng"]), getattr(d["rng"], "_attrs", {}).get("stream", repr(d["rng"]))) for d in call["pck"]] for call in g["calls"]]
        finally:
            it.overrides.pop((MOD, "default_rng"), None)
            teardown()
    if stream_probe is not None:
        it.explore(h_streams, f"sample_chains.streams[{NCH} chains]")
        return

    def h_drop(ctx):
        """a chain dropped by an adaptive stage (AdaptationError from an adapter's initialize): sample_chains may give up (raise), but if it goes on every
        later stage must run each surviving chain with that chain's OWN iterator, generator and trace / statistics arrays"""
        drop_stage = ctx.choose(2, "drop_stage")
        mod, ex, g, inits, trans, rngs = setup(ctx, dict(interrupt_stage=-1, interrupt_returns=NCH, drop_stage=drop_stage))
        try:
            n1, n2, n3 = z3.Int("stage0_n_iter"), z3.Int("stage1_n_iter"), z3.Int("n_main_iter")
            n_warm = z3.Int("n_warm_up_iter")
            for v in (n1, n2, n3):
                ctx.assume(v >= 1)
            ctx.assume(n1 + n2 == n_warm)
            tf = Opaque("trace_func")
            adapters = {"integration_transition": [Opaque("fast_adapter", is_fast=True), Opaque("slow_adapter", is_fast=False)]}
            stage_cls = it.module("mici.stagers").resolve("ChainStage", ctx)

            def stages(ex_, n_w, n_m, ad, tfs, *, trace_warm_up=False):
                return {"warm A": ex_.call(stage_cls, [], dict(n_iter=n1, adapters=ad, trace_funcs=(tf,), record_stats=True)),
                        "warm B": ex_.call(stage_cls, [], dict(n_iter=n2, adapters=ad, trace_funcs=(tf,), record_stats=True)),
                        "main": ex_.call(stage_cls, [], dict(n_iter=n3, adapters=None, trace_funcs=(tf,), record_stats=True))}
            stager = Opaque("stager", stages=Native(stages, "stager.stages"))
            sampler = ex.call(mod.resolve("MarkovChainMonteCarloMethod", ctx), [Opaque("base_rng"), trans], {})
            oid = tag + "/after-a-dropped-chain-survivors-keep-their-own-arrays-and-generators"
            text = "a stage returned fewer chains than it was given: sample_chains raises, or runs every later stage with chain c's state, iterator, generator and arrays together"
            try:
                ex.call(ex.getattr(sampler, "sample_chains"), [n_warm, n3, inits],
                        dict(trace_funcs=[tf], adapters=adapters, stager=stager, n_process=1, trace_warm_up=True,
                             force_memmap=False, memmap_path=None, monitor_stats=None, display_progress=False))
            except PyRaise:
                ctx.run.ob(oid, core.DISCHARGED, "pyvc", text=text)
                return
            k0 = g.get("dropped_at")
            bad = []
            for k, call in enumerate(g["calls"]):
                if k0 is None or k <= k0:
                    continue
                for d in call["pck"]:
                    c = getattr(d["init_state"], "_attrs", {}).get("chain")
                    tr, stt = d.get("chain_traces"), d.get("chain_stats")
                    ok = c is not None and d["rng"] is rngs[c] and (tr is None or tr["pos"].name == f"trace.pos[{c}]") and \
                        (stt is None or stt["integration_transition"]["n_step"].name == f"stat.n_step[{c}]")
                    if not ok:
                        bad.append(f"stage call {k}: state of chain {c} runs with generator {getattr(d['rng'], '_name', d['rng'])}, traces "
                                   f"{None if tr is None else tr['pos'].name}, statistics {None if stt is None else stt['integration_transition']['n_step'].name}")
            ctx.run.ob(oid, core.DISCHARGED if not bad else core.FAILED, "pyvc", detail="; ".join(bad[:3]), text=text,
                       witness={"dropped_chain": 0, "dropped_in_stage_call": k0})
        finally:
            teardown()
    if prop == "C13":
        it.explore(h_drop, "sample_chains.dropped-chain", roots=[[0], [1]])
    # keep only the obligations that belong to the requesting property
    allowed = STAGE_OBLIGATIONS[prop]
    for oid in [o for o in run.obs if o.startswith(f"{run.prop}/{tag}/")]:
        short = oid.split("/")[-1]
        if short not in allowed:
            del run.obs[oid]


# ---------------------------------------------------------------------------------------
# the callee contract `_finalize_adapters` used by stage_loop is the function's own obligation: its real body on stub adapters


def finalize_adapters(run, it):
    """every adapter of every transition that has adapter states is finalized exactly once, with its own per-chain states, the transition of its
    key, all chain states and all generators -- whatever other transitions (with an empty adapter list) come before it in the dictionaries"""
    import itertools as _it
    run.function("mici.samplers._finalize_adapters")
    tag = P + "_finalize_adapters"
    layouts = [("momentum", 0), ("integration", 2), ("other", 1)]

    def h(ctx):
        order = list(_it.permutations(range(3)))[ctx.choose(6, "transition-order")]
        mod = it.module(MOD)
        ex = Exec(it, ctx, mod, mod.env, "harness")
        calls = []

        def mk_adapter(name):
            def fin(ex_, states, chain_states, transition, rngs):
                calls.append((name, states, list(chain_states), transition, list(rngs)))
            return Opaque(name, finalize=Native(fin, name + ".finalize"))
        keys = [layouts[i] for i in order]
        adapters = {k: [mk_adapter(f"{k}-adapter{j}") for j in range(n)] for k, n in keys}
        ad_states = {k: [[f"{k}-ad{j}-chain{c}" for c in range(2)] for j in range(n)] for k, n in keys}
        transitions = {k: Opaque(f"transition<{k}>") for k, _ in keys}
        chain_states, rngs = [Opaque("cs0"), Opaque("cs1")], [Opaque("rng0"), Opaque("rng1")]
        try:
            ex.call(mod.resolve("_finalize_adapters", ctx), [ad_states, chain_states, adapters, transitions, rngs], {})
        except PyRaise as pr:
            ctx.run.ob(tag + "/no-exception", core.FAILED, "pyvc", detail=f"{exc_name(pr.exc)} {pr.exc.attrs.get('args')} for key order {[k for k, _ in keys]}")
            return
        want = [(f"{k}-adapter{j}", ad_states[k][j], chain_states, transitions[k], rngs) for k, n in keys for j in range(n)]
        got = [(a, st_, cs, tr, rg) for a, st_, cs, tr, rg in calls]
        ok = len(got) == len(want) and all(g_[0] == w_[0] and g_[1] is w_[1] and g_[2] == w_[2] and g_[3] is w_[3] and g_[4] == w_[4] for g_, w_ in zip(got, want))
        ctx.run.ob(tag + "/every-adapter-finalized-once-with-its-own-states-and-transition", core.DISCHARGED if ok else core.FAILED, "pyvc",
                   detail="" if ok else f"key order {[k for k, _ in keys]} (adapters per key {dict(keys)}): finalize calls {[c[0] for c in calls]}, expected {[w_[0] for w_ in want]}",
                   witness=None if ok else {"key_order": [k for k, _ in keys]},
                   text="for every order of the transition keys, incl. a key with an empty adapter list first: one finalize call per (transition, adapter) with matching arguments")
    it.explore(h, "_finalize_adapters")

    def h_fail(ctx):
        """an adapter that cannot finalize (AdaptationError: e.g. fewer than two samples for a variance estimate) must stop the run: if the failure were
        swallowed the next stage would sample with parameters that were never finalized (the initial defaults)"""
        which = ctx.choose(3, "failing-adapter")
        mod = it.module(MOD)
        ex = Exec(it, ctx, mod, mod.env, "harness")
        calls = []
        box = {}

        def mk_adapter(name, fails):
            def fin(ex_, states, chain_states, transition, rngs):
                calls.append(name)
                if fails:
                    box["exc"] = adaptation_error(ex_)
                    raise PyRaise(box["exc"])
            return Opaque(name, finalize=Native(fin, name + ".finalize"))
        names = [("integration", 0), ("integration", 1), ("other", 0)]
        adapters = {"integration": [mk_adapter("integration-adapter0", which == 0), mk_adapter("integration-adapter1", which == 1)],
                    "other": [mk_adapter("other-adapter0", which == 2)]}
        ad_states = {k: [[f"{k}-ad{j}-chain{c}" for c in range(2)] for j in range(len(v))] for k, v in adapters.items()}
        transitions = {k: Opaque(f"transition<{k}>") for k in adapters}
        try:
            ex.call(mod.resolve("_finalize_adapters", ctx), [ad_states, [Opaque("cs0"), Opaque("cs1")], adapters, transitions, [Opaque("rng0"), Opaque("rng1")]], {})
            raised = None
        except PyRaise as pr:
            raised = pr.exc
        ok = raised is not None and raised is box.get("exc")
        ctx.run.ob(tag + "/a-failing-finalize-stops-the-run", core.DISCHARGED if ok else core.FAILED, "pyvc",
                   witness={"failing_adapter": list(names[which])},
                   detail="" if ok else f"AdaptationError raised by {names[which]}.finalize " + ("was swallowed" if raised is None else f"left as {exc_name(raised)}") +
                   f"; finalize calls made: {calls} (the following stage would run with parameters that were not finalized)",
                   text="an AdaptationError raised by any adapter's finalize leaves _finalize_adapters unchanged")
    it.explore(h_fail, "_finalize_adapters.failing", roots=[[0], [1], [2]])


# allocation of trace / statistics arrays (real _init_stats, _init_traces, _generate_memmap_filenames, _get_valid_filename)


class TraceVal:
    """ghost traced value: dtype kind ('f' inexact / 'i' integer), shape, python-scalar flag"""

    def __init__(self, kind, shape, scalar):
        self.kind, self.shape_, self.scalar = kind, shape, scalar

    def _pv_getattr(self, ex, name):
        if name == "dtype":
            return ("dtype", self.kind)
        if name == "shape":
            return self.shape_
        raise PyRaise(make_exc(ex.interp, "AttributeError", name))


class PathTok:
    def __init__(self, s):
        self.s = s

    def _pv_binop(self, ex, op, other):
        if op == "__truediv__":
            return PathTok(self.s + "/" + str(other))
        return NotImplemented


def allocation(run, it):
    run.function("mici.samplers._init_stats")
    run.function("mici.samplers._init_traces")
    run.function("mici.samplers._generate_memmap_filenames")
    tag = P + "allocation"
    NCH = 2

    def h(ctx):
        use_memmap = bool(ctx.choose(2, "use_memmap"))
        mod = it.module(MOD)
        ex = Exec(it, ctx, mod, mod.env, "harness")
        n_iter = z3.Int("n_trace_iter")
        opened = []

        def open_new(ex_, file_path, shape, default_val, dtype):
            a = RowArray(file_path.s if isinstance(file_path, PathTok) else str(file_path), shape, default_val, memmap=True)
            a.dtype = dtype
            opened.append(a)
            return a
        it.call_contracts["_open_new_memmap"] = Native(open_new, "_open_new_memmap")

        def np_full(ex_, shape, val, dtype):
            arrs = []
            for c in range(shape[0]):
                a = RowArray(f"mem[{c}]", shape[1:] if len(shape) > 2 else shape[1], val)
                a.dtype = dtype
                arrs.append(a)
            return arrs
        np_ns = it.ext_modules["numpy"]
        np_ns.full = Native(np_full, "np.full")
        np_ns.isscalar = Native(lambda ex_, v: v.scalar, "np.isscalar")
        np_ns.array = Native(lambda ex_, v: TraceVal(v.kind, (), False), "np.array")
        INEXACT = ("f", "f4", "c")  # float64, float32, complex128 (numpy.inexact = floating + complexfloating)

        def issub(ex_, dt, cls):
            fam = {"inexact": INEXACT, "floating": ("f", "f4"), "complexfloating": ("c",), "integer": ("i",), "number": INEXACT + ("i",)}.get(cls)
            if fam is None:
                raise OutsideSubset(f"np.issubdtype(..., {cls!r})")
            return dt[1] in fam
        np_ns.issubdtype = Native(issub, "np.issubdtype")
        for nm in ("inexact", "floating", "complexfloating", "integer", "number"):
            setattr(np_ns, nm, nm)
        for nm, kd in (("float64", "f"), ("double", "f"), ("float32", "f4"), ("complex128", "c"), ("int64", "i"), ("bool_", "b")):
            setattr(np_ns, nm, ("dtype", kd))
        np_ns.nan = float("nan")
        it.ext_modules["pathlib"].Path = Native(lambda ex_, s: s if isinstance(s, PathTok) else PathTok(str(s)), "Path")
        try:
            # two statistic-bearing transitions declaring the SAME statistic names, one without statistics
            trans = {"first": Opaque("t1", statistic_types={"n_step": ("int64", -1), "accept_stat": ("float64", "nan")}),
                     "second": Opaque("t2", statistic_types={"n_step": ("int64", -1), "accept_stat": ("float64", "nan")}),
                     "momentum": Opaque("t3", statistic_types=None)}
            stats = ex.call(mod.resolve("_init_stats", ctx), [trans, NCH, n_iter], {"use_memmap": use_memmap, "memmap_path": "DIR"})
            oks = set(stats) == {"first", "second"} and all(set(v) == {"n_step", "accept_stat"} for v in stats.values())
            ctx.run.ob(tag + "/statistics-structure", core.DISCHARGED if oks else core.FAILED, "pyvc", detail="" if oks else str({k: list(v) for k, v in stats.items()}),
                       text="one entry per statistic-bearing transition and declared key")
            arrs = [(t, k, c, stats[t][k][c]) for t in stats for k in stats[t] for c in range(NCH)] if oks else []
            okl = all(len(stats[t][k]) == NCH for t in stats for k in stats[t])
            ctx.run.ob(tag + "/one-array-per-chain", core.DISCHARGED if okl else core.FAILED, "pyvc")
            good = all(a.fill == trans[t]._attrs["statistic_types"][k][1] and a.dtype == trans[t]._attrs["statistic_types"][k][0] for t, k, c, a in arrs)
            ctx.run.ob(tag + "/statistics-fill-and-dtype-as-declared", core.DISCHARGED if good else core.FAILED, "pyvc",
                       detail="" if good else "fill value / dtype differ from transition.statistic_types", text="every statistics array has the declared dtype and fill value")
            for t, k, c, a in arrs:
                ln = a.length[0] if isinstance(a.length, tuple) else a.length
                ctx.prove(tag + "/statistics-rows", lift(ln) == n_iter, text="every statistics array has n_iter rows")
            if use_memmap:
                names = [a.name for t, k, c, a in arrs]
                distinct = len(set(names)) == len(names)
                ctx.run.ob(tag + "/memmap-files-pairwise-distinct", core.DISCHARGED if distinct else core.FAILED, "pyvc",
                           detail="" if distinct else f"two arrays are backed by the same file: {sorted(n for n in names if names.count(n) > 1)[:4]} "
                           "(statistics of different transitions / keys / chains would overwrite each other)",
                           text="memory-mapped arrays of different (transition, statistic, chain) are backed by different files")
            # traces: a float vector, an int scalar and a python float scalar
            def tf1(ex_, state):
                return {"pos": TraceVal("f", (3,), False), "count": TraceVal("i", (), True), "amplitude": TraceVal("c", (2,), False)}

            def tf2(ex_, state):
                return {"energy": TraceVal("f", (), True), "pos_x": TraceVal("f", (), False), "single": TraceVal("f4", (), False), "flag": TraceVal("b", (), True)}
            n0 = len(opened)
            traces = ex.call(mod.resolve("_init_traces", ctx), [[Native(tf1, "tf1"), Native(tf2, "tf2")], ["init0", "init1"], n_iter],
                             {"use_memmap": use_memmap, "memmap_path": "DIR"})
            okt = set(traces) == {"pos", "count", "energy", "pos_x", "amplitude", "single", "flag"} and all(len(v) == NCH for v in traces.values())
            ctx.run.ob(tag + "/trace-structure", core.DISCHARGED if okt else core.FAILED, "pyvc", detail="" if okt else str(list(traces)))
            if okt:
                want = {"pos": ("f", (3,)), "count": ("i", ()), "energy": ("f", ()), "pos_x": ("f", ()), "amplitude": ("c", (2,)), "single": ("f4", ()), "flag": ("b", ())}
                # storing a value of dtype x into an array of dtype y keeps the value exactly: same dtype or a lossless widening
                lossless = {("f4", "f"), ("f4", "c"), ("f", "c"), ("b", "i"), ("b", "f"), ("b", "c")}
                for k, (kind, shp) in want.items():
                    for a in traces[k]:
                        fill_ok = (isinstance(a.fill, float) and a.fill != a.fill) if kind in INEXACT else a.fill == 0
                        ctx.run.ob(tag + "/trace-fill-nan-for-inexact-else-zero", core.DISCHARGED if fill_ok else core.FAILED, "pyvc", detail="" if fill_ok else f"{k}: fill {a.fill}")
                        dk = a.dtype[1] if isinstance(a.dtype, tuple) and len(a.dtype) == 2 else a.dtype
                        okd = dk == kind or (kind, dk) in lossless
                        ctx.run.ob(tag + "/trace-array-dtype-holds-the-traced-values-exactly", core.DISCHARGED if okd else core.FAILED, "pyvc",
                                   detail="" if okd else f"{k}: traced value dtype kind {kind!r} stored in an array of dtype kind {dk!r} (rows would not be the traced quantities)",
                                   text="the dtype of a trace array is the dtype of the traced value (or a lossless widening of it): float, single, complex, integer, boolean")
                        shape = a.length if isinstance(a.length, tuple) else (a.length,)
                        ctx.prove(tag + "/trace-rows", lift(shape[0]) == n_iter)
                        oksh = tuple(shape[1:]) == shp
                        ctx.run.ob(tag + "/trace-trailing-shape", core.DISCHARGED if oksh else core.FAILED, "pyvc", detail="" if oksh else f"{k}: shape {shape}")
                if use_memmap:
                    names = [a.name for v in traces.values() for a in v] + [a.name for t, k, c, a in arrs]
                    distinct = len(set(names)) == len(names)
                    ctx.run.ob(tag + "/memmap-files-pairwise-distinct", core.DISCHARGED if distinct else core.FAILED, "pyvc",
                               detail="" if distinct else "trace / statistics arrays share a backing file")
        except PyRaise as pr:
            ctx.run.ob(tag + "/no-exception", core.FAILED, "pyvc", detail=f"{exc_name(pr.exc)} {pr.exc.attrs.get('args')}")
        finally:
            it.call_contracts.pop("_open_new_memmap", None)
    it.explore(h, "allocation", roots=[[0], [1]])

    # the callee contract used above (`_open_new_memmap` returns an array of the given shape *filled with default_val*) is the
    # function's own obligation: its real body on a stub of numpy.lib.format.open_memmap that records the slice assignment
    def h_open(ctx):
        mod = it.module(MOD)
        ex = Exec(it, ctx, mod, mod.env, "harness")
        made = []

        def open_memmap(ex_, file_path, dtype=None, mode=None, shape=None, **kw):
            a = RowArray(str(file_path), shape, "uninitialised-file-content", memmap=True)
            a.mode, a.dtype = mode, dtype
            made.append(a)
            return a
        np_ns = it.ext_modules["numpy"]
        old = getattr(np_ns, "lib", None)
        np_ns.lib = Namespace("numpy.lib", format=Namespace("numpy.lib.format", open_memmap=Native(open_memmap, "np.lib.format.open_memmap")))
        run.function("mici.samplers._open_new_memmap")
        try:
            n = z3.Int("n_rows")
            for lab, dv in (("nan", float("nan")), ("minus-one", -1), ("zero", 0), ("false", False)):
                made.clear()
                try:
                    arr = ex.call(mod.resolve("_open_new_memmap", ctx), ["FILE", (n, 3), dv, "float64"], {})
                except PyRaise as pr:
                    ctx.run.ob(tag + "._open_new_memmap/no-exception", core.FAILED, "pyvc", detail=f"{exc_name(pr.exc)} {pr.exc.attrs.get('args')}")
                    continue
                full = [w for w in (arr.writes if isinstance(arr, RowArray) else []) if isinstance(w[0], slice) and w[0] == slice(None, None, None)]
                same = bool(full) and (full[-1][1] is dv or full[-1][1] == dv or (dv != dv and full[-1][1] != full[-1][1]))
                ok = len(made) == 1 and arr is made[0] and same and getattr(arr, "mode", None) == "w+"
                ctx.run.ob(tag + "._open_new_memmap/new-file-is-filled-with-the-default-value", core.DISCHARGED if ok else core.FAILED, "pyvc",
                           detail="" if ok else f"default {lab}: whole-array assignments {[(str(w[0]), w[1]) for w in getattr(arr, 'writes', [])]} "
                           "(rows never reached -- e.g. after an interrupt -- must read as the fill value, not as the zeros of a fresh file)",
                           witness=None if ok else {"default": lab},
                           text="_open_new_memmap creates the file in mode w+ and assigns default_val to every element before returning it")
        finally:
            if old is None:
                del np_ns.lib
            else:
                np_ns.lib = old
    it.explore(h_open, "open_new_memmap")
