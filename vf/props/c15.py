"""C15 -- interrupting sampling returns a consistent prefix of the run.

Engine A with KeyboardInterrupt added to the `raises` set of EVERY call made inside the sampling loop of the real
_sample_chain (one interrupt per path, every call site, generic iteration): normal return with the interrupt as third
output, the returned state is a complete chain state, rows written so far belong to the current row only, flush and
iterator clean-up run; sequential chain loop stops after the interrupted chain; sample_chains returns immediately and
normally (no later stage, nothing raised in between).
"""
from __future__ import annotations

import json

from . import samplers_model, samplers_stage


def run(run_, tier):
    it = samplers_model.make_interp(run_)
    run_.assume("A14: worker/parent propagation of interrupts through multiprocessing queues is trusted (not mechanised); one interrupt per run")
    run_.assume("rows of earlier iterations equal those of an uninterrupted run with the same seed because the loop body before the interrupt is the same code on the same inputs (C13 row contract)")
    run_.trust("transitions return complete new state objects; ChainIter contract for progress bars")
    run_.replay_for("", lambda w: {"script": "c13_records.py", "args": ["interrupt"]})
    samplers_model.sample_chain_contract(run_, it, "C15")
    samplers_stage.sequential_loop(run_, it, "C15")
    samplers_stage.stage_loop(run_, "C15", it)
    from . import c14
    c14.parallel(run_, it, prop="C15")
    c14.proxy_progress_bar(run_, it)
    # rows not reached before the interrupt keep the allocation's fill value (NaN / declared default), in memory and memory-mapped alike
    samplers_stage.allocation(run_, it)
    run_.extraction_drops.extend(sorted(it.dropped))
    run_.notes.append(f"paths explored: {it.paths}")
