"""C08 -- momentum updates leave the Gaussian momentum law exactly invariant.

Engine B: sample_momentum of every system class / metric type (constant, position dependent, low-rank, block) executed with the
generator as a contract stub returning symbolic standard-normal draws z: the result is exactly L z with L L^T == metric at the
current position (projected for constrained systems, and then J M^-1 mom == 0); the real momentum transitions are executed on
symbolic states: independent refresh assigns such a draw, partial refresh returns sqrt(1-c^2) p + c n for symbolic c in (0,1),
reduces to a fresh draw for c == 1 or missing momentum and to no change (and no draw) for c == 0; the coefficient identity
(sqrt(1-c^2))^2 + c^2 == 1 gives Gaussian invariance; constructor rejects c outside [0,1].
"""
from __future__ import annotations

import json

import numpy as np
import sympy as sp

from .. import core, symla
from ..symla import SE, compare, sym, vec
from . import symla_systems


def transitions(run_):
    import importlib
    symla_systems.load_systems()
    T = importlib.import_module("mici.transitions")
    ST = importlib.import_module("mici.states")
    tag = "transitions."
    n = 2

    class Sys:
        def __init__(self):
            self.calls = []

        def sample_momentum(self, state, rng):
            self.calls.append((state, rng, None if state.mom is None else state.mom.copy()))
            return vec(f"n{len(self.calls)}_", n)

    def ob(oid, got, want, text):
        st, be, detail, wit = compare(got, want)
        run_.ob(tag + oid, core.DISCHARGED if st != "differs" else core.FAILED, "symla:" + be, detail=detail, witness=wit, text=text,
                klass="exact" if st == "equal" else ("bounded" if st == "numeric-only" else "exact"))
    run_.function("mici.transitions.IndependentMomentumTransition.sample")
    run_.function("mici.transitions.CorrelatedMomentumTransition.sample")
    run_.function("mici.transitions.CorrelatedMomentumTransition.__init__")
    # independent refresh
    sysm, rng = Sys(), object()
    p = vec("p", n)
    st = ST.ChainState(pos=vec("q", n), mom=p.copy(), dir=1)
    out, stats = T.IndependentMomentumTransition(sysm).sample(st, rng)
    good = len(sysm.calls) == 1 and sysm.calls[0][1] is rng and out is st
    run_.ob(tag + "IndependentMomentumTransition.sample/one-draw-with-the-chain-generator", core.DISCHARGED if good else core.FAILED, "symla", detail="" if good else str(len(sysm.calls)))
    ob("IndependentMomentumTransition.sample/momentum-is-the-fresh-draw", out.mom, vec("n1_", n), "mom' == sample_momentum(state, rng)")
    # partial refresh, symbolic coefficient in (0, 1): c = u / (1 + u), u > 0
    u = sym("u", positive=True)
    c = u / (1 + u)
    for lab, coeff in (("c in (0,1)", c), ("c = 1", 1), ("c = 1.0", 1.0), ("c = 0", 0), ("c = 0.0", 0.0)):
        sysm = Sys()
        st = ST.ChainState(pos=vec("q", n), mom=p.copy(), dir=1)
        tr = T.CorrelatedMomentumTransition(sysm, mom_resample_coeff=coeff)
        out, stats = tr.sample(st, rng)
        if lab.startswith("c in"):
            want = np.array([SE(sp.sqrt(1 - c.e ** 2) * p[i].e + c.e * sp.Symbol(f"n1_{i}", real=True)) for i in range(n)], dtype=object)
            ob("CorrelatedMomentumTransition.sample/partial-refresh-formula", out.mom, want, "mom' == sqrt(1 - c^2) mom + c n")
            coef_p = np.array([SE(sp.diff(out.mom[0].e, p[0].e))], dtype=object)
            coef_n = np.array([SE(sp.diff(out.mom[0].e, sp.Symbol("n1_0", real=True)))], dtype=object)
            ob("CorrelatedMomentumTransition.sample/coefficients-preserve-the-gaussian-law", coef_p * coef_p + coef_n * coef_n, np.array([SE(1)], dtype=object),
               "a^2 + b^2 == 1 for mom' = a mom + b n: N(0, M) is mapped to itself")
            good = len(sysm.calls) == 1 and sysm.calls[0][1] is rng
            run_.ob(tag + "CorrelatedMomentumTransition.sample/partial-refresh-draws-once", core.DISCHARGED if good else core.FAILED, "symla", detail="" if good else str(len(sysm.calls)))
        elif "1" in lab:
            ob(f"CorrelatedMomentumTransition.sample/coefficient-one-is-full-refresh[{lab}]", out.mom, vec("n1_", n), "c == 1: mom' is a fresh draw")
        else:
            ob(f"CorrelatedMomentumTransition.sample/coefficient-zero-changes-nothing[{lab}]", out.mom, p, "c == 0: momentum unchanged")
            run_.ob(tag + f"CorrelatedMomentumTransition.sample/coefficient-zero-draws-nothing[{lab}]", core.DISCHARGED if not sysm.calls else core.FAILED, "symla",
                    detail="" if not sysm.calls else "a draw was consumed although c == 0")
    # the coefficient in force at call time is the public attribute (it may be re-tuned between calls)
    w = sym("w", positive=True)
    c2 = w / (1 + w)
    sysm = Sys()
    tr = T.CorrelatedMomentumTransition(sysm, mom_resample_coeff=c)
    tr.mom_resample_coeff = c2
    st = ST.ChainState(pos=vec("q", n), mom=p.copy(), dir=1)
    out, _ = tr.sample(st, rng)
    coef_p = np.array([SE(sp.diff(out.mom[0].e, p[0].e))], dtype=object)
    coef_n = np.array([SE(sp.diff(out.mom[0].e, sp.Symbol("n1_0", real=True)))], dtype=object)
    ob("CorrelatedMomentumTransition.sample/coefficients-preserve-the-gaussian-law@reassigned-coefficient", coef_p * coef_p + coef_n * coef_n, np.array([SE(1)], dtype=object),
       "after mom_resample_coeff is reassigned, mom' = a mom + b n still has a^2 + b^2 == 1")
    ob("CorrelatedMomentumTransition.sample/fresh-draw-weight-is-the-current-coefficient@reassigned-coefficient", coef_n, np.array([c2], dtype=object), "b == current mom_resample_coeff")
    sysm = Sys()
    st = ST.ChainState(pos=vec("q", n), mom=None, dir=1)
    out, _ = T.CorrelatedMomentumTransition(sysm, mom_resample_coeff=c).sample(st, rng)
    ob("CorrelatedMomentumTransition.sample/missing-momentum-is-fully-refreshed", out.mom, vec("n1_", n), "mom is None: fresh draw")
    for bad in (-0.1, 1.5, float("nan")):
        try:
            T.CorrelatedMomentumTransition(Sys(), mom_resample_coeff=bad)
            ok = False
        except ValueError:
            ok = True
        run_.ob(tag + "CorrelatedMomentumTransition.__init__/rejects-coefficient-outside-unit-interval", core.DISCHARGED if ok else core.FAILED, "symla",
                detail="" if ok else f"coefficient {bad} accepted")


def run(run_, tier):
    run_.assume("A10: numpy Generator.standard_normal / normal return i.i.d. N(0,1) draws (the generator is a contract stub returning symbols)")
    run_.assume("A1 reals; dimension 2; matrix square roots via the C10 contracts (executed, not assumed)")
    for k, v in symla.SHIM_TABLE.items():
        run_.trust(f"shim {k}: {v}")
    for c in ("EuclideanMetricSystem.sample_momentum", "RiemannianMetricSystem.sample_momentum", "ConstrainedTractableFlowSystem.sample_momentum",
              "ConstrainedEuclideanMetricSystem.project_onto_cotangent_space"):
        run_.function(f"mici.systems.{c}")
    run_.replay_for("", lambda w: {"script": "c08_momentum.py", "args": [json.dumps(w or {})], "timeout": 600})
    n = symla_systems.run_cases(run_, "c08_cases", keep=lambda oid: "projection-" not in oid)
    transitions(run_)
    run_.notes.append(f"{n} system configurations")
    # Engine D: sample_momentum of the Euclidean-family systems for ALL dimensions and every metric object satisfying the matrix contract
    from . import generic_systems
    generic_systems.run_generic_systems(run_, keep=lambda oid: any(t in oid for t in ("sample_momentum", "sampled-momentum", "metric-sqrt", "metric-inverse")))
    # the metric adapters replace the metric at the end of a warm-up stage and redraw the momenta: a momentum update too -- the draw must
    # use the metric the chain continues with (C17's obligation `momenta-refreshed-under-new-metric`, imported)
    from . import c17
    from .trans_model import FilterRun
    it17 = c17.make_interp(run_)
    fr = FilterRun(run_, lambda oid: "momenta-refreshed-under-new-metric" in oid or "metric-is-inverse" in oid)
    run_.replay_for("adapters.", lambda w: {"script": "c17_adapters.py", "args": ["all", json.dumps(w or {})], "timeout": 600})
    c17.variance(fr, it17)
    c17.covariance(fr, it17, "quick")
    run_.function("mici.adapters.OnlineVarianceMetricAdapter.finalize / OnlineCovarianceMetricAdapter.finalize (momentum redraw under the new metric)")
    # sample_momentum is `metric.sqrt @ z`: that sqrt @ sqrt.T is the metric, for every positive definite matrix class, every way
    # such a metric is derived (inverse, positive multiple) and every dimension, is the C10 contract of `sqrt` -- imported here:
    # Engine D (generic dimension, composite + leaf classes) and Engine B (entrywise at fixed shapes)
    from . import c10, c10_generic
    run_.replay_for("generic/", lambda w: {"script": "c10_generic.py", "args": [json.dumps(w or {})], "timeout": 600})
    run_.replay_for("matrices.", lambda w: {"script": "c10_matrices.py", "args": [json.dumps(w or {})], "timeout": 900})
    c10_generic.run_generic(run_, tier, keep=lambda oid: "sqrt" in oid and "log_abs_det" not in oid)
    pd_factories = [f for f in c10.factories() if any(t in f for t in ("Identity", "Diagonal", "TriangularFactored", "DenseDefinite", "DensePositiveDefinite",
                                                                      "Eigendecomposed", "SoftAbs", "LowRank", "Block"))]
    c10.run_suite(run_, pd_factories, tier, keep=lambda oid: "sqrt" in oid)
    c10.sqrt_order_and_conditioning(run_)
    run_.function("mici.matrices.<every positive definite class>._construct_sqrt (C10 contract: sqrt @ sqrt.T == matrix), incl. derived objects")
