"""C13 -- sampler outputs record exactly the post-iteration chain states.

Engine A on the real mici/samplers.py: row-exact loop invariant of _sample_chain (generic iteration from an arbitrary
earlier state), sequential chain loop, stage loop of sample_chains (offsets, array lengths, option space incl.
n_process=None), with transitions / adapters / trace functions / allocation as contract stubs.
"""
from __future__ import annotations

import json

from . import samplers_model


def run(run_, tier):
    it = samplers_model.make_interp(run_)
    run_.assume("A12: numpy item assignment / np.full / open_memmap behave as documented (arrays are ghost row logs); chain iterator yields 0..n-1 in order (contract of ProgressBar.__iter__)")
    run_.trust("transitions return complete new state objects and their declared statistics (C01/C12 contracts); multi-process branch under A14")
    run_.replay_for("", lambda w: {"script": "c13_records.py", "args": [json.dumps(w or {})]})
    samplers_model.sample_chain_contract(run_, it, "C13")
    from . import samplers_stage
    samplers_stage.sequential_loop(run_, it, "C13")
    samplers_stage.stage_loop(run_, "C13", it)
    samplers_stage.allocation(run_, it)
    # which stages record traces / statistics is decided by the stagers (anchored file): their contracts are part of this property
    from . import c16
    it16 = c16.make_interp(run_)
    c16.check_warmup_stager(run_, it16)
    c16.check_windowed_stager(run_, it16)
    rows_against_states(run_)
    # collation of parallel outputs in chain order for every worker pickup / completion order (A14 model)
    from . import c14
    c14.parallel(run_, it, prop="C13")
    # ... and with a worker (or every worker) interrupted: the states returned are those of the chains that were sampled, in chain order, so that
    # final_states[i] stays the state after the last recorded iteration of chain i (the C15 scenarios of the same harness)
    c14.parallel(run_, it, prop="C15")
    run_.extraction_drops.extend(sorted(it.dropped))
    run_.notes.append(f"paths explored: {it.paths}")


def rows_against_states(run_):
    """BOUNDED native complement of the generic-iteration contract: the contract's transition stub returns a fresh state object per call, whereas real
    transitions may return their argument updated in place; 2 seeds x 2 step sizes x 25 iterations of the real sampler, every row compared with an
    independent log of the post-iteration states."""
    import os
    import subprocess
    from .. import core
    script = os.path.join(core.VERIF, "replays", "c13_records.py")
    try:
        p = subprocess.run([core.NATIVE_PY, script, "rows"], capture_output=True, text=True, timeout=600, env=dict(os.environ, PYTHONPATH=core.SRC))
        out = p.stdout.strip()
        ok = p.returncode == 0 and "not reproduced" in out
        st = core.DISCHARGED if ok else (core.FAILED if "REPRODUCED" in out else core.ERROR)
        detail = "" if ok else (out or p.stderr)[-600:]
    except Exception as e:  # noqa: BLE001
        st, detail = core.ERROR, f"{type(e).__name__}: {e}"
    run_.ob("samplers.sample_chains/rows-equal-post-iteration-states-with-in-place-transitions", st, "native-exec", klass="bounded", detail=detail,
            witness=None if st == core.DISCHARGED else {"mode": "rows"},
            replay=(lambda w: {"script": "c13_records.py", "args": ["rows"], "timeout": 600}) if st == core.FAILED else None,
            text="bounded: 100 iterations of the real sampler (in-place momentum refresh, rejections returning the same object): every pos / mom / hamiltonian row == logged state")
    run_.bounded.append({"id": "C13/samplers.sample_chains/rows-equal-post-iteration-states-with-in-place-transitions", "detail": "2 seeds x 2 step sizes x 25 iterations"})
