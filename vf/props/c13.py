"""C13 -- sampler outputs record exactly the post-iteration chain states.

Engine A on the real mici/samplers.py: row-exact loop invariant of _sample_chain (generic iteration from an arbitrary
earlier state), sequential chain loop, stage loop of sample_chains (offsets, array lengths, option space incl.
n_process=None), with transitions / adapters / trace functions / allocation as contract stubs.
"""
from __future__ import annotations

import json

from . import samplers_model


def run(run_, tier):
    it = samplers_model.make_interp(run_)
    run_.assume("A12: numpy item assignment / np.full / open_memmap behave as documented (arrays are ghost row logs); chain iterator yields 0..n-1 in order (contract of ProgressBar.__iter__)")
    run_.trust("transitions return complete new state objects and their declared statistics (C01/C12 contracts); multi-process branch under A14")
    run_.replay_for("", lambda w: {"script": "c13_records.py", "args": [json.dumps(w or {})]})
    samplers_model.sample_chain_contract(run_, it, "C13")
    from . import samplers_stage
    samplers_stage.sequential_loop(run_, it, "C13")
    samplers_stage.stage_loop(run_, "C13", it)
    samplers_stage.allocation(run_, it)
    # which stages record traces / statistics is decided by the stagers (anchored file): their contracts are part of this property
    from . import c16
    it16 = c16.make_interp(run_)
    c16.check_warmup_stager(run_, it16)
    c16.check_windowed_stager(run_, it16)
    run_.extraction_drops.extend(sorted(it.dropped))
    run_.notes.append(f"paths explored: {it.paths}")
