"""C19 -- matrix objects behave as immutable values.

 * Engine C (static, matrices.py): every in-place operation targets a locally allocated array; every field that determines a
   class's dense view is compared by _check_equality and hashed by _compute_hash (so == implies equal arrays and equal hashes).
 * Engine B (symbolic execution of the real classes): arrays supplied by the caller are untouched by every operation; results
   do not depend on which lazily computed attributes (LU / Cholesky / eigen factors, capacitance matrices) already exist
   (the derived-object obligations of C10 for the classes that cache factors).
 * dynamic, per class (numeric instances, exact Python object semantics): constructor array parameters are read-only afterwards;
   equal parameters => equal and hash-equal; a differing defining option (sign, triangle, factor) => unequal or equal arrays;
   copy / deepcopy / pickle round trips equal the original.
"""
from __future__ import annotations

import ast
import copy
import json
import pickle

import numpy as np

from .. import core, frames
from . import c10


def static_inplace(run):
    tree, _ = frames.parse_module("matrices")
    bad = []
    n = 0
    for cls in tree.body:
        if not isinstance(cls, ast.ClassDef):
            continue
        for fn in cls.body:
            if not isinstance(fn, ast.FunctionDef):
                continue
            fresh = set()
            for node in ast.walk(fn):
                if isinstance(node, ast.Assign) and len(node.targets) == 1 and isinstance(node.targets[0], ast.Name):
                    v = node.value
                    # fresh = result of an arithmetic expression / allocation (never a bare name, attribute, view-returning call)
                    if isinstance(v, (ast.BinOp, ast.UnaryOp)) or (isinstance(v, ast.Call) and ast.unparse(v.func) in
                                                                    ("np.zeros", "np.ones", "np.empty", "np.identity", "np.diag", "np.outer", "np.array", "np.concatenate")):
                        fresh.add(node.targets[0].id)
            for node in ast.walk(fn):
                tgt = None
                if isinstance(node, ast.AugAssign):
                    tgt = node.target
                elif isinstance(node, ast.Assign):
                    for t in node.targets:
                        if isinstance(t, ast.Subscript):
                            tgt = t
                elif isinstance(node, ast.Call) and ast.unparse(node.func) in ("np.fill_diagonal", "np.put", "np.copyto") and node.args:
                    tgt = node.args[0]
                elif isinstance(node, ast.Call) and any(k.arg == "out" for k in node.keywords):
                    tgt = [k.value for k in node.keywords if k.arg == "out"][0]
                if tgt is None:
                    continue
                base = tgt
                while isinstance(base, (ast.Subscript,)):
                    base = base.value
                n += 1
                code = ast.unparse(node)[:90]
                if isinstance(base, ast.Name) and base.id in fresh:
                    continue
                if isinstance(base, ast.Attribute) and isinstance(base.value, ast.Name) and base.value.id == "self" and isinstance(tgt, ast.Subscript) is False \
                        and not isinstance(node, ast.AugAssign):
                    continue
                if ast.unparse(base) in ("self.__dict__", "kwargs"):
                    continue  # attribute table / keyword dictionary of the constructor, not an array
                bad.append(f"{cls.name}.{fn.name}: `{code}`")
    run.ob("matrices/in-place-operations-target-fresh-arrays", core.DISCHARGED if not bad else core.FAILED, "frames", detail="; ".join(bad),
           text=f"all {n} in-place statements in matrices.py write to arrays allocated in the same method (never to parameters, cached arrays or arguments)")


def static_eq_hash(run):
    """fields that define the view (assigned from constructor parameters) must be read by _check_equality and _compute_hash"""
    tree, _ = frames.parse_module("matrices")
    table = frames.class_table(tree)

    def attrs_read(fn):
        out = set()
        for n in ast.walk(fn):
            if isinstance(n, ast.Attribute) and isinstance(n.value, ast.Name) and n.value.id == "self":
                out.add(n.attr)
        return out

    def defining_fields(cname):
        """self.<f> = <constructor parameter> (directly, or as kwarg _f=param passed to super().__init__)"""
        ci = table[cname]
        init = ci.methods.get("__init__")
        if init is None:
            return set()
        params = {a.arg for a in init.args.args + init.args.kwonlyargs} - {"self"}
        out = set()
        for n in ast.walk(init):
            if isinstance(n, ast.Assign):
                for t in n.targets:
                    if isinstance(t, ast.Attribute) and isinstance(t.value, ast.Name) and t.value.id == "self":
                        names = {x.id for x in ast.walk(n.value) if isinstance(x, ast.Name)}
                        if names & params:
                            out.add(t.attr)
            if isinstance(n, ast.Call):
                for k in n.keywords:
                    if k.arg and k.arg.startswith("_") and {x.id for x in ast.walk(k.value) if isinstance(x, ast.Name)} & params:
                        out.add(k.arg)
        return out
    # property name -> backing field (return self._x)
    for cname, ci in table.items():
        if cname in ("Matrix",) or "__init__" not in ci.methods:
            continue
        fields = defining_fields(cname) & {"_sign", "_scalar"}  # "_lower" only says which triangle of the compared array is used
        # optional precomputed factors do not define the view
        fields -= {"_capacitance_matrix", "_lu_and_piv", "_lu_transposed", "_inv_lu_and_piv", "_inv_lu_transposed", "_eigvec", "_eigval", "_factor", "_shape",
                   "is_differentiable", "_sizes", "_splits", "_softabs_coeff", "unreg_eigval", "diag_eigval"} if cname not in (
            "EigendecomposedSymmetricMatrix", "TriangularFactoredDefiniteMatrix", "InverseLUFactoredSquareMatrix") else {"_shape", "diag_eigval", "_inv_lu_and_piv", "_inv_lu_transposed"}
        if not fields:
            continue
        for meth in ("_check_equality", "_compute_hash"):
            owner, fn = frames.resolve(table, cname, meth)
            if fn is None or (len(fn.body) == 1 and isinstance(fn.body[0], ast.Expr)):
                continue
            read = attrs_read(fn)
            # follow one level of self.<property> reads
            closure = set(read)
            for r in list(read):
                o2, f2 = frames.resolve(table, cname, r)
                if f2 is not None:
                    closure |= attrs_read(f2)
            norm = {x.lstrip("_") for x in closure}
            missing = sorted(f for f in fields if f.lstrip("_") not in norm and not any(f.lstrip("_") in y for y in norm))
            # fields merely forwarded under another name that *is* compared (factor_matrix -> left_factor_matrix etc.) are covered by the dynamic check
            run.ob(f"matrices.{cname}.{meth}/covers-defining-fields", core.DISCHARGED if not missing else core.FAILED, "frames",
                   detail="" if not missing else f"{owner}.{meth} (used by {cname}) does not read {missing}: two matrices differing only there compare / hash equal",
                   witness={"class": cname, "fields_ignored": missing},
                   text=f"{cname}: every constructor field that determines the dense array is read by {meth}")


def dynamic_values(run):
    """exact Python-object semantics on numeric instances of every class"""
    M = c10.load()
    rng = np.random.default_rng(5)
    n = 3
    A = rng.normal(size=(n, n)) + 3 * np.eye(n)
    L = np.tril(A)
    Q, _ = np.linalg.qr(A)
    w = np.array([1.0, -2.0, 3.0])
    wp = np.array([1.0, 2.0, 3.0])
    P = L @ L.T
    U, V = rng.normal(size=(n, 2)), rng.normal(size=(2, n))
    F = rng.normal(size=(n, 2)) * 0.3
    INPUTS = []

    def inp(x, order="C"):
        if order == "S":
            # a strided (non-contiguous) view with the same values: every second entry of a larger array
            base = np.zeros(tuple(2 * d for d in np.shape(x)))
            view = base[tuple(slice(None, None, 2) for _ in np.shape(x))]
            view[...] = x
            INPUTS.append(view)
            return view
        x = np.array(x, copy=True, order=order)
        INPUTS.append(x)
        return x

    class _C:  # arrays handed to constructors are recorded through .copy()
        def __init__(self, a):
            self.a = a

        def copy(self, order="C"):
            return inp(self.a, order)

        def __getattr__(self, n):
            return getattr(self.a, n)

        def __add__(self, o):
            return _C(self.a + o)

        def __neg__(self):
            return _C(-self.a)

        def __matmul__(self, o):
            return _C(self.a @ (o.a if isinstance(o, _C) else o))
    A, L, Q, w, wp, P, U, V, F = (_C(x) for x in (A, L, Q, w, wp, P, U, V, F))
    LT = _C(L.a.T)
    QwQ = _C(Q.a @ np.diag(w.a) @ Q.a.T)
    ORDER = ["C"]  # memory layout of the 2-D parameter arrays handed to the constructors (toggled to Fortran order below)
    makers = {
        "IdentityMatrix": lambda: M.IdentityMatrix(n), "ScaledIdentityMatrix": lambda s=2.0: M.ScaledIdentityMatrix(s, n),
        "DiagonalMatrix": lambda: M.DiagonalMatrix(w.copy(order=ORDER[0])), "PositiveDiagonalMatrix": lambda: M.PositiveDiagonalMatrix(wp.copy(order=ORDER[0])),
        "TriangularMatrix": lambda lower=True: M.TriangularMatrix((L if lower else LT).copy(order=ORDER[0]), lower=lower),
        "InverseTriangularMatrix": lambda lower=True: M.InverseTriangularMatrix((L if lower else LT).copy(order=ORDER[0]), lower=lower),
        "TriangularFactoredDefiniteMatrix": lambda sign=1: M.TriangularFactoredDefiniteMatrix(L.copy(order=ORDER[0]), sign=sign, factor_is_lower=True),
        "TriangularFactoredPositiveDefiniteMatrix": lambda: M.TriangularFactoredPositiveDefiniteMatrix(L.copy(order=ORDER[0])),
        "DenseDefiniteMatrix": lambda: M.DenseDefiniteMatrix((-P).copy(order=ORDER[0]), is_posdef=False), "DensePositiveDefiniteMatrix": lambda: M.DensePositiveDefiniteMatrix(P.copy(order=ORDER[0])),
        "DensePositiveDefiniteProductMatrix": lambda: M.DensePositiveDefiniteProductMatrix(V.copy(order=ORDER[0])),
        "DenseSquareMatrix": lambda: M.DenseSquareMatrix(A.copy(order=ORDER[0])), "InverseLUFactoredSquareMatrix": lambda: M.DenseSquareMatrix(A.copy(order=ORDER[0])).inv,
        "DenseSymmetricMatrix": lambda: M.DenseSymmetricMatrix(QwQ.copy(order=ORDER[0])), "OrthogonalMatrix": lambda: M.OrthogonalMatrix(Q.copy(order=ORDER[0])),
        "ScaledOrthogonalMatrix": lambda s=2.0: M.ScaledOrthogonalMatrix(s, Q.copy(order=ORDER[0])), "EigendecomposedSymmetricMatrix": lambda: M.EigendecomposedSymmetricMatrix(Q.copy(order=ORDER[0]), w.copy(order=ORDER[0])),
        "EigendecomposedPositiveDefiniteMatrix": lambda: M.EigendecomposedPositiveDefiniteMatrix(Q.copy(order=ORDER[0]), wp.copy(order=ORDER[0])),
        "SoftAbsRegularizedPositiveDefiniteMatrix": lambda c=1.0: M.SoftAbsRegularizedPositiveDefiniteMatrix(QwQ.copy(order=ORDER[0]), c),
        "SquareBlockDiagonalMatrix": lambda: M.SquareBlockDiagonalMatrix((M.DenseSquareMatrix(A.copy(order=ORDER[0])), M.ScaledIdentityMatrix(2.0, 2))),
        "PositiveDefiniteBlockDiagonalMatrix": lambda: M.PositiveDefiniteBlockDiagonalMatrix((M.DensePositiveDefiniteMatrix(P.copy(order=ORDER[0])), M.PositiveDiagonalMatrix(wp.copy(order=ORDER[0])))),
        "DenseRectangularMatrix": lambda: M.DenseRectangularMatrix(V.copy(order=ORDER[0])),
        "BlockRowMatrix": lambda: M.BlockRowMatrix((M.DenseRectangularMatrix(U.copy(order=ORDER[0])), M.DenseSquareMatrix(A.copy(order=ORDER[0])))),
        "BlockColumnMatrix": lambda: M.BlockColumnMatrix((M.DenseRectangularMatrix(V.copy(order=ORDER[0])), M.DenseSquareMatrix(A.copy(order=ORDER[0])))),
        "SquareLowRankUpdateMatrix": lambda sign=1: M.SquareLowRankUpdateMatrix(M.DenseRectangularMatrix(U.copy(order=ORDER[0])), M.DenseRectangularMatrix(V.copy(order=ORDER[0])), M.DenseSquareMatrix(A.copy(order=ORDER[0])), sign=sign),
        "SymmetricLowRankUpdateMatrix": lambda sign=1: M.SymmetricLowRankUpdateMatrix(M.DenseRectangularMatrix(F.copy(order=ORDER[0])), M.DiagonalMatrix((w + 4).copy(order=ORDER[0])), sign=sign),
        "PositiveDefiniteLowRankUpdateMatrix": lambda sign=1: M.PositiveDefiniteLowRankUpdateMatrix(M.DenseRectangularMatrix(F.copy(order=ORDER[0])), M.PositiveDiagonalMatrix((wp + 1).copy(order=ORDER[0])), sign=sign),
        "MatrixProduct": lambda: M.DenseSquareMatrix(A.copy(order=ORDER[0])) @ M.TriangularMatrix(L.copy(order=ORDER[0])),
    }
    variants = {"ScaledIdentityMatrix": dict(s=-3.0), "TriangularMatrix": dict(lower=False), "InverseTriangularMatrix": dict(lower=False),
                "TriangularFactoredDefiniteMatrix": dict(sign=-1), "ScaledOrthogonalMatrix": dict(s=-1.5), "SoftAbsRegularizedPositiveDefiniteMatrix": dict(c=3.0),
                "SquareLowRankUpdateMatrix": dict(sign=-1), "SymmetricLowRankUpdateMatrix": dict(sign=-1), "PositiveDefiniteLowRankUpdateMatrix": dict(sign=-1)}

    def arrays(o, seen, only_params=True):
        out = []
        if id(o) in seen:
            return out
        seen.add(id(o))
        if isinstance(o, np.ndarray):
            out.append(o)
        elif isinstance(o, (tuple, list)):
            for x in o:
                out += arrays(x, seen)
        elif isinstance(o, M.Matrix):
            for v in o.__dict__.values():
                out += arrays(v, seen)
        return out
    for name, mk in makers.items():
        tag = f"matrices.{name}"
        try:
            del INPUTS[:]
            a = mk()
            mine = list(INPUTS)
            b = mk()
            ok = (a == b) and (hash(a) == hash(b))
            run.ob(tag + "/equal-parameters-compare-and-hash-equal", core.DISCHARGED if ok else core.FAILED, "native-exec", klass="bounded",
                   detail="" if ok else f"two {name} built from equal parameters: == is {a == b}, hashes {'equal' if hash(a) == hash(b) else 'differ'}")
            # equal parameter values in another memory layout (Fortran-ordered 2-D arrays) are still equal parameters
            ORDER[0] = "F"
            try:
                f = mk()
            finally:
                ORDER[0] = "C"
            okf = (a == f) and (hash(a) == hash(f))
            run.ob(tag + "/equal-parameters-in-another-memory-layout-compare-and-hash-equal", core.DISCHARGED if okf else core.FAILED, "native-exec", klass="bounded",
                   detail="" if okf else f"{name} built from the same parameter values in Fortran order: == is {a == f}, hashes {'equal' if hash(a) == hash(f) else 'differ'} "
                   "(equal objects must hash equal: set / dict lookups would miss)")
            # ... and so are strided views; whatever the layout of the arrays handed in, every array the object holds after construction is read-only (a
            # layout normalisation that copies after the write protection was applied would leave a writeable parameter behind a cached hash)
            for lay, obj in (("C-ordered", a), ("Fortran-ordered", f)) + ((("strided", None),) if True else ()):
                if obj is None:
                    ORDER[0] = "S"
                    try:
                        del INPUTS[:]
                        obj = mk()
                    except Exception:  # noqa: BLE001  (a class that rejects non-contiguous input decides nothing here)
                        continue
                    finally:
                        ORDER[0] = "C"
                    oks = (a == obj) and hash(a) == hash(obj)
                    run.ob(tag + "/equal-parameters-in-a-strided-view-compare-and-hash-equal", core.DISCHARGED if oks else core.FAILED, "native-exec", klass="bounded",
                           detail="" if oks else f"{name} built from a strided view of the same values: == is {a == obj}, hashes {'equal' if hash(a) == hash(obj) else 'differ'}")
                # the stored form of a parameter = an array held by the object with the shape and values of an array handed to the constructor (the very
                # object, a view, or a copy made by the constructor); internal work arrays (split indices, factorisations computed by the class) are not meant
                given = list(INPUTS) if lay == "strided" else (mine if lay == "C-ordered" else [])
                if lay == "Fortran-ordered":
                    given = [np.array(x) for x in mine]  # same values
                wrh = [x.shape for x in arrays(obj, set()) if x.flags.writeable and any(g.shape == x.shape and np.array_equal(g, x) for g in given)]
                run.ob(tag + "/stored-parameters-are-read-only-whatever-their-memory-layout", core.DISCHARGED if not wrh else core.FAILED, "native-exec", klass="bounded",
                       witness=None if not wrh else {"class": name, "layout": lay},
                       detail="" if not wrh else f"{name} built from {lay} parameter arrays holds writeable copies of its parameters (shapes {wrh}) right after construction")
                # conversions with copy semantics hand out the caller's OWN array: writing into it must not reach the object
                before = np.array(np.asarray(obj.array), copy=True)
                leaks = []
                for how, conv in (("np.array(m)", lambda m: np.array(m)), ("np.copy(m)", lambda m: np.copy(m))):
                    try:
                        c = conv(obj)
                    except Exception as e:  # noqa: BLE001
                        leaks.append(f"{how} raised {type(e).__name__}")
                        continue
                    if any(np.shares_memory(c, h) for h in arrays(obj, set())) or (c.flags.writeable and c.size and (c.__setitem__((0,) * c.ndim, c[(0,) * c.ndim] + 1.0) or not np.array_equal(np.asarray(obj.array), before))):
                        leaks.append(how + " aliases an array held by the object")
                run.ob(tag + "/conversions-with-copy-semantics-do-not-alias-the-object", core.DISCHARGED if not leaks else core.FAILED, "native-exec", klass="bounded",
                       witness=None if not leaks else {"class": name, "layout": lay}, detail="; ".join(leaks))
            held = arrays(a, set())
            wr = [x for x in mine if x.flags.writeable and any(np.shares_memory(x, h) for h in held)]
            run.ob(tag + "/constructor-arrays-read-only", core.DISCHARGED if not wr else core.FAILED, "native-exec", klass="bounded",
                   detail="" if not wr else f"{len(wr)} array(s) supplied to the constructor of {name} and still referenced by it can be modified in place afterwards")
            # evaluation order independence on the real floats: array after touching every lazy attribute == array of an untouched twin
            for attr in ("inv", "T", "sqrt", "eigval", "eigvec", "log_abs_det", "diagonal", "lu_and_piv", "factor", "capacitance_matrix"):
                try:
                    getattr(a, attr)
                except Exception:  # noqa: BLE001
                    pass
            hash(a)
            same = np.array_equal(np.asarray(a.array), np.asarray(b.array)) and (a == b) and hash(a) == hash(b)
            run.ob(tag + "/array-and-equality-independent-of-lazy-attributes", core.DISCHARGED if same else core.FAILED, "native-exec", klass="bounded",
                   detail="" if same else "array / equality / hash changed after lazily computed attributes were requested")
            # objects derived from an operand whose lazy attributes (incl. the hash) are already cached are the same values as objects derived
            # from an untouched twin: a derived object must not inherit a cache that belongs to its operand
            for lab, op in (("2.0*X", lambda x: 2.0 * x), ("-X", lambda x: -x), ("X/4.0", lambda x: x / 4.0), ("X.T", lambda x: x.T), ("X.inv", lambda x: x.inv)):
                try:
                    twin = mk()
                    d1, d2 = op(a), op(twin)
                except Exception:  # noqa: BLE001  (operation not defined for this class)
                    continue
                okd = (d1 == d2) and hash(d1) == hash(d2) and np.array_equal(np.asarray(d1.array), np.asarray(d2.array))
                run.ob(tag + "/derived-objects-do-not-inherit-cached-attributes", core.DISCHARGED if okd else core.FAILED, "native-exec", klass="bounded",
                       witness=None if okd else {"class": name, "operation": lab},
                       detail="" if okd else f"{lab} of a {name} whose hash / lazy attributes were already computed differs from {lab} of an equal untouched one: == is {d1 == d2}, "
                       f"hashes {'equal' if hash(d1) == hash(d2) else 'differ'}, arrays {'equal' if np.array_equal(np.asarray(d1.array), np.asarray(d2.array)) else 'differ'}")
            for how, cp in (("copy", copy.copy), ("deepcopy", copy.deepcopy), ("pickle", lambda o: pickle.loads(pickle.dumps(o)))):
                c = cp(a)
                okc = (c == a) and hash(c) == hash(a) and np.array_equal(np.asarray(c.array), np.asarray(a.array))
                run.ob(tag + f"/{how}-equals-original", core.DISCHARGED if okc else core.FAILED, "native-exec", klass="bounded", detail="" if okc else f"{how} of {name} differs from the original")
            if name in variants:
                d = mk(**variants[name])
                if a == d:
                    same_arr = np.allclose(np.asarray(a.array), np.asarray(d.array))
                    run.ob(tag + "/equality-implies-equal-arrays", core.DISCHARGED if same_arr else core.FAILED, "native-exec", klass="bounded",
                           witness={"class": name, "differing_option": variants[name]},
                           detail="" if same_arr else f"{name} built with {variants[name]} compares equal to the default one (hash equal: {hash(a) == hash(d)}) but their arrays differ "
                           f"by {np.max(np.abs(np.asarray(a.array) - np.asarray(d.array))):.3g}")
                else:
                    run.ob(tag + "/equality-implies-equal-arrays", core.DISCHARGED, "native-exec", klass="bounded")
        except Exception as e:  # noqa: BLE001
            run.ob(tag + "/value-semantics", core.ERROR, "native-exec", detail=f"{type(e).__name__}: {e}")


def collisions(run):
    """`equality implies equal dense arrays`, also between objects whose hashes happen to coincide and have already been computed: CPython has
    hash(-1) == hash(-2), and the installed hash_array hashes the bytes of the values only (so reshapes of one buffer collide) -- equality must be
    decided by the parameters, never by the cached hashes"""
    M = c10.load()
    Q, _ = np.linalg.qr(np.arange(9.0).reshape(3, 3) + 3 * np.eye(3))
    pairs = {"ScaledIdentityMatrix(-1) vs (-2)": (lambda: M.ScaledIdentityMatrix(-1, 3), lambda: M.ScaledIdentityMatrix(-2, 3)),
             "ScaledOrthogonalMatrix(-1) vs (-2)": (lambda: M.ScaledOrthogonalMatrix(-1, Q.copy()), lambda: M.ScaledOrthogonalMatrix(-2, Q.copy())),
             "DenseRectangularMatrix 2x3 vs 3x2 of the same buffer": (lambda: M.DenseRectangularMatrix(np.arange(6.0).reshape(2, 3)), lambda: M.DenseRectangularMatrix(np.arange(6.0).reshape(3, 2))),
             "block diagonal of colliding blocks": (lambda: M.SquareBlockDiagonalMatrix((M.ScaledIdentityMatrix(-1, 2), M.ScaledIdentityMatrix(3.0, 1))),
                                                    lambda: M.SquareBlockDiagonalMatrix((M.ScaledIdentityMatrix(-2, 2), M.ScaledIdentityMatrix(3.0, 1))))}
    for name, (mka, mkb) in pairs.items():
        try:
            a, b = mka(), mkb()
            before = (a == b)
            ha, hb = hash(a), hash(b)
            after = (a == b)
            same_arr = np.asarray(a.array).shape == np.asarray(b.array).shape and np.array_equal(np.asarray(a.array), np.asarray(b.array))
            ok = (before == after) and (not after or same_arr)
            run.ob(f"matrices.hash-collision[{name}]/equality-decided-by-parameters-not-by-cached-hashes", core.DISCHARGED if ok else core.FAILED, "native-exec", klass="bounded",
                   witness=None if ok else {"pair": name},
                   detail="" if ok else f"a == b is {before} before and {after} after both hashes were computed (hashes {'collide' if ha == hb else 'differ'}); dense arrays equal: {same_arr}")
        except Exception as e:  # noqa: BLE001
            run.ob(f"matrices.hash-collision[{name}]/equality-decided-by-parameters-not-by-cached-hashes", core.ERROR, "native-exec", detail=f"{type(e).__name__}: {e}")


def repeated_properties(run):
    """`repeated evaluation of any property gives identical results regardless of which other properties were computed first`, on the optional
    precomputed-factor constructor arguments given one at a time (the state in which only part of a lazily completed pair is present)"""
    M = c10.load()
    rng = np.random.default_rng(11)
    n = 4
    Q, _ = np.linalg.qr(rng.normal(size=(n, n)))
    w = np.array([3.0, -1.0, 2.0, 0.5])  # deliberately NOT in eigh's ascending order
    S = Q @ np.diag(w) @ Q.T
    A = rng.normal(size=(n, n)) + 3 * np.eye(n)
    P = A @ A.T
    cases = {"DenseSymmetricMatrix[eigval only]": lambda: M.DenseSymmetricMatrix(S.copy(), eigval=w.copy()),
             "DenseSymmetricMatrix[eigvec only]": lambda: M.DenseSymmetricMatrix(S.copy(), eigvec=Q.copy()),
             "DenseSymmetricMatrix[both]": lambda: M.DenseSymmetricMatrix(S.copy(), eigvec=Q.copy(), eigval=w.copy()),
             "DenseSymmetricMatrix[none]": lambda: M.DenseSymmetricMatrix(S.copy()),
             "DensePositiveDefiniteMatrix[factor given]": lambda: M.DensePositiveDefiniteMatrix(P.copy(), factor=M.TriangularMatrix(np.linalg.cholesky(P))),
             "DenseSquareMatrix[none]": lambda: M.DenseSquareMatrix(A.copy())}
    props = ("eigval", "eigvec", "log_abs_det", "diagonal", "inv", "sqrt", "T", "factor", "lu_and_piv")

    def val(v):
        if isinstance(v, tuple):
            return np.concatenate([val(x).ravel() for x in v])
        return np.asarray(v.array if hasattr(v, "array") else v, dtype=float)
    for name, mk in cases.items():
        tag = f"matrices.{name}"
        bad = []
        for first in props:
            try:
                x = mk()
                v1 = val(getattr(x, first)).copy()
            except Exception:  # noqa: BLE001
                continue
            for other in props:
                try:
                    getattr(x, other)
                except Exception:  # noqa: BLE001
                    pass
            v2 = val(getattr(x, first))
            if v1.shape != v2.shape or not np.array_equal(v1, v2):
                bad.append(f"{first} read first gives {np.round(v1.ravel()[:4], 4).tolist()}..., after the other properties were requested {np.round(v2.ravel()[:4], 4).tolist()}...")
            # the pair stays consistent with the matrix
            if first in ("eigval", "eigvec") and hasattr(x, "eigvec"):
                try:
                    Qx, wx = np.asarray(x.eigvec.array), np.asarray(x.eigval)
                    if not np.allclose(Qx @ np.diag(wx) @ Qx.T, np.asarray(x.array), atol=1e-9):
                        bad.append(f"after reading {first} first, eigvec diag(eigval) eigvec^T differs from the matrix (values paired with the wrong vectors)")
                except Exception:  # noqa: BLE001
                    pass
        run.ob(tag + "/properties-identical-on-repeated-evaluation-in-any-order", core.DISCHARGED if not bad else core.FAILED, "native-exec", klass="bounded",
               detail="" if not bad else bad[0], witness=None if not bad else {"case": name},
               text="bounded: every property read first, then all others, then again: identical value; eigen pair consistent with the matrix")


def run(run_, tier):
    from .. import symla
    run_.assume("A13: utils.hash_array as installed (optional xxhash dependency absent) hashes array.tobytes(), i.e. the values in C order: a function of the values only; "
                "the xxhash branch, which cannot run here, also hashes the strides (equal matrices in different memory layouts would hash unequal there); numpy flags.writeable semantics trusted")
    run_.assume("value-semantics obligations (equality, hashing, copies, read-only parameters) are exercised per class on numeric instances: complete over classes and "
                "listed options, sampled over values (reported as bounded)")
    for k, v in symla.SHIM_TABLE.items():
        run_.trust(f"shim {k}: {v}")
    run_.replay_for("", lambda w: {"script": "c19_values.py", "args": [json.dumps(w or {})], "timeout": 600})
    static_inplace(run_)
    static_eq_hash(run_)
    dynamic_values(run_)
    repeated_properties(run_)
    collisions(run_)
    deep = [n for n in c10.factories() if any(k in n for k in ("LowRank", "DenseSquare", "DenseDefinite", "DenseSymmetric", "TriangularFactored", "Eigendecomposed", "BlockDiagonal", "MatrixProduct"))]
    c10.run_suite(run_, deep, "quick")
