"""C06 -- one step of size eps advances each Hamiltonian component by exactly eps, in a
symmetric (palindromic) arrangement; composition coefficients are consistent.

Contracts (ghost trace over the real `_step` bodies, times as reals):
  Integrator.step                     : _step receives dir*step_size
  LeapfrogIntegrator._step            : [h1 t/2, h2 t, h1 t/2]
  SymmetricCompositionIntegrator.__init__/_step : coefficients palindromic, a-sum = b-sum = 1
  ImplicitLeapfrogIntegrator._step    : A(t/2) B(t/2) C(t/2) C*(t/2) B*(t/2) A(t/2)
  ImplicitMidpointIntegrator._step    : A(t/2) A*(t/2)
  ConstrainedLeapfrogIntegrator._step/_step_b : A(t/2) B(t/N)^N A(t/2)
"consistent + symmetric => second order" is the cited theorem A9 (not proved here).
"""
from __future__ import annotations

import json

import z3

from .. import core
from ..pyvc import Bound, Func, LoopSpec, Native, Obj, PathEnd, PyRaise, exc_name, is_z3, lift, to_real
from .integ_model import INTEG, World, make_interp, positive_step

P = "integrators."


def _times(trace, label, state=None):
    return [e[2] for e in trace if e[0] == label and (state is None or e[1] is state)]


def _sum(xs):
    t = z3.RealVal(0)
    for x in xs:
        t = t + to_real(x)
    return t


def _replay(kind):
    return lambda w: {"script": "c06_timesum.py", "args": [kind, json.dumps(w or {})]}


def check_step_wrapper(run, it):
    """Integrator.step: _step is called once, on a copy, with time_step = dir * step_size."""
    def h(ctx):
        w = World(it, ctx)
        calls = []
        it.call_contracts["LeapfrogIntegrator._step"] = Native(lambda ex, self_, st, t: calls.append((st, t)), "_step")
        try:
            integ = w.new("LeapfrogIntegrator", step_size=positive_step(ctx))
            st = w.make_state()
            res = w.ex.call(w.ex.getattr(integ, "step"), [st], {})
        finally:
            del it.call_contracts["LeapfrogIntegrator._step"]
        ok = len(calls) == 1
        ctx.run.ob(P + "Integrator.step/calls-_step-once", core.DISCHARGED if ok else core.FAILED, "pyvc",
                   detail="" if ok else f"{len(calls)} calls", text="step() calls _step exactly once")
        if ok:
            d = w.var(st, "dir")
            ctx.prove(P + "Integrator.step/time_step-is-dir-times-step_size",
                      to_real(calls[0][1]) == to_real(d) * z3.Real("step_size"),
                      text="step(): _step receives time_step == state.dir * step_size")
    it.explore(h, "Integrator.step")


def second_order_conditions(ctx, tag, flows, t):
    """Order conditions of a splitting scheme, from the traced flow sequence [(label, time), ...] of the real _step.
    With the component flows exact (C07) the step is  prod_i exp(tau_i X_i),  X_i in {A, B} the Lie derivatives of h1, h2.  Expanding to
    second order in the free associative algebra on A, B:
        1 + sum_i tau_i X_i + 1/2 sum_i tau_i^2 X_i^2 + sum_{i<j} tau_i tau_j X_i X_j + O(t^3)
    and exp(t (A + B)) = 1 + t (A + B) + t^2/2 (A^2 + AB + BA + B^2) + O(t^3).  Given the first-order conditions (time sums, proved
    separately) the A^2 and B^2 coefficients agree automatically, and the scheme is of order >= 2 iff
        sum_{i<j, X_i = A, X_j = B} tau_i tau_j == t^2 / 2      (equivalently the same sum with A and B exchanged).
    This replaces the citation `consistent + symmetric => order 2` (A9) for the explicit splitting integrators by a discharged obligation."""
    ab = _sum(to_real(a[1]) * to_real(b[1]) for i, a in enumerate(flows) for b in flows[i + 1:] if a[0] == "h1_flow" and b[0] == "h2_flow")
    ba = _sum(to_real(a[1]) * to_real(b[1]) for i, a in enumerate(flows) for b in flows[i + 1:] if a[0] == "h2_flow" and b[0] == "h1_flow")
    ctx.prove(tag + "/second-order-condition[AB]", 2 * ab == t * t,
              text="sum over pairs (h1 sub-step before h2 sub-step) of the products of their times == time_step^2 / 2: local error O(time_step^3)")
    ctx.prove(tag + "/second-order-condition[BA]", 2 * ba == t * t,
              text="sum over pairs (h2 sub-step before h1 sub-step) of the products of their times == time_step^2 / 2")


def check_leapfrog(run, it):
    run.function("mici.integrators.LeapfrogIntegrator._step")
    if run.prop == "C06":
        run.replay_for(P + "LeapfrogIntegrator", _replay("leapfrog"))

    def h(ctx):
        w = World(it, ctx)
        integ = w.new("LeapfrogIntegrator", step_size=positive_step(ctx))
        st = w.make_state()
        t = z3.Real("t")
        w.ex.call(w.ex.getattr(integ, "_step"), [st, t], {})
        flows = [(e[0], e[2]) for e in w.trace if e[0] in ("h1_flow", "h2_flow")]
        ctx.prove(P + "LeapfrogIntegrator._step/time_sum[h1]", _sum(_times(w.trace, "h1_flow")) == t,
                  text="leapfrog: sum of h1_flow times == time_step")
        ctx.prove(P + "LeapfrogIntegrator._step/time_sum[h2]", _sum(_times(w.trace, "h2_flow")) == t,
                  text="leapfrog: sum of h2_flow times == time_step")
        pal = z3.And(*[z3.And(z3.BoolVal(a[0] == b[0]), to_real(a[1]) == to_real(b[1])) for a, b in zip(flows, reversed(flows))])
        ctx.prove(P + "LeapfrogIntegrator._step/palindromic", pal, text="leapfrog: flow sequence is palindromic (labels and times)")
        second_order_conditions(ctx, P + "LeapfrogIntegrator._step", flows, t)
        ok = [f[0] for f in flows] == ["h1_flow", "h2_flow", "h1_flow"]
        ctx.run.ob(P + "LeapfrogIntegrator._step/arrangement", core.DISCHARGED if ok else core.FAILED, "pyvc",
                   detail="" if ok else str([f[0] for f in flows]), text="leapfrog arrangement h1,h2,h1")
    it.explore(h, "Leapfrog")


def check_composition(run, it, tier):
    run.function("mici.integrators.SymmetricCompositionIntegrator.__init__")
    run.function("mici.integrators.SymmetricCompositionIntegrator._step")
    if run.prop == "C06":
        run.replay_for(P + "SymmetricCompositionIntegrator", _replay("composition"))
    max_n = 8 if tier == "thorough" else 5
    roots = [[n, b] for n in range(max_n + 1) for b in range(2)]

    def h(ctx):
        n = ctx.choose(max_n + 1, "n_free")
        first_h1 = bool(ctx.choose(2, "initial_h1"))
        w = World(it, ctx)
        free = [z3.Real(f"c{i}") for i in range(n)]
        as_tuple = tuple(free)
        tag = P + "SymmetricCompositionIntegrator"
        try:
            integ = w.ex.call(w.mod.resolve("SymmetricCompositionIntegrator", ctx), [w.system, as_tuple],
                              {"step_size": positive_step(ctx), "initial_h1_flow_step": first_h1})
        except PyRaise as pr:
            ctx.run.ob(tag + ".__init__/no-exception", core.FAILED, "pyvc", detail=f"raised {exc_name(pr.exc)} for n={n}")
            return
        coeffs = integ.attrs["coefficients"]
        flows = integ.attrs["flows"]
        ok = len(coeffs) == 2 * n + 3 and len(flows) == 2 * n + 3
        ctx.run.ob(tag + ".__init__/lengths", core.DISCHARGED if ok else core.FAILED, "pyvc",
                   detail="" if ok else f"n={n}: {len(coeffs)} coefficients, {len(flows)} flows",
                   text="len(coefficients) == len(flows) == 2n+3")
        if not ok:
            return
        pal = z3.And(*[to_real(a) == to_real(b) for a, b in zip(coeffs, reversed(coeffs))])
        ctx.prove(tag + ".__init__/coefficients-palindromic", pal, text="coefficients[i] == coefficients[2n+2-i] for all real free coefficients")
        ctx.prove(tag + ".__init__/a-coefficients-sum-to-one", _sum(coeffs[0::2]) == 1,
                  text="sub-step weights of the first component sum to one")
        ctx.prove(tag + ".__init__/b-coefficients-sum-to-one", _sum(coeffs[1::2]) == 1,
                  text="sub-step weights of the second component sum to one")
        free_ok = z3.And(*[to_real(coeffs[i]) == free[i] for i in range(n)]) if n else True
        ctx.prove(tag + ".__init__/free-coefficients-lead", free_ok, text="coefficients start with the free coefficients in order")
        # run a step: trace gives per-component time sums
        st = w.make_state()
        t = z3.Real("t")
        w.ex.call(w.ex.getattr(integ, "_step"), [st, t], {})
        fl = [(e[0], e[2]) for e in w.trace if e[0] in ("h1_flow", "h2_flow")]
        ctx.prove(tag + "._step/time_sum[h1]", _sum(x[1] for x in fl if x[0] == "h1_flow") == t, text="composition step: h1 times sum to time_step")
        ctx.prove(tag + "._step/time_sum[h2]", _sum(x[1] for x in fl if x[0] == "h2_flow") == t, text="composition step: h2 times sum to time_step")
        a, b = ("h1_flow", "h2_flow") if first_h1 else ("h2_flow", "h1_flow")
        want = [a, b] * (n + 1) + [a]
        good = [x[0] for x in fl] == want
        ctx.run.ob(tag + "._step/alternating-arrangement", core.DISCHARGED if good else core.FAILED, "pyvc",
                   detail="" if good else f"n={n} first_h1={first_h1}: {[x[0] for x in fl]}",
                   text="flows alternate A,B,...,A starting with h1 iff initial_h1_flow_step")
        pal2 = z3.And(*[z3.And(z3.BoolVal(x[0] == y[0]), to_real(x[1]) == to_real(y[1])) for x, y in zip(fl, reversed(fl))])
        ctx.prove(tag + "._step/palindromic", pal2, text="composition step trace palindromic")
        second_order_conditions(ctx, tag + "._step", fl, t)
    it.explore(h, "Composition", roots=roots)
    run.bounded.append({"id": "C06/" + P + "SymmetricCompositionIntegrator", "detail": f"number of free coefficients n in 0..{max_n} "
                        "(unbounded in the coefficient values; the library's BCSS schemes are n=1,2,3)"})

    # the three BCSS integrators: constructed with their literal coefficients
    def hb(ctx):
        k = ctx.choose(3, "bcss")
        name = ["BCSSTwoStageIntegrator", "BCSSThreeStageIntegrator", "BCSSFourStageIntegrator"][k]
        w = World(it, ctx)
        integ = w.new(name, step_size=positive_step(ctx))
        st = w.make_state()
        t = z3.Real("t")
        w.ex.call(w.ex.getattr(integ, "_step"), [st, t], {})
        fl = [(e[0], e[2]) for e in w.trace if e[0] in ("h1_flow", "h2_flow")]
        ctx.prove(P + f"{name}._step/time_sums", z3.And(_sum(x[1] for x in fl if x[0] == "h1_flow") == t,
                                                         _sum(x[1] for x in fl if x[0] == "h2_flow") == t),
                  text=f"{name}: both components advance by exactly time_step")
        second_order_conditions(ctx, P + f"{name}._step", fl, t)
        stages = sum(1 for x in fl if x[0] == "h2_flow")
        ok = stages == k + 2
        ctx.run.ob(P + f"{name}/stage-count", core.DISCHARGED if ok else core.FAILED, "pyvc",
                   detail="" if ok else f"{stages} h2 stages", text=f"{name} has {k + 2} stages")
    it.explore(hb, "BCSS", roots=[[0], [1], [2]])


LEAP_LABEL = {"_step_a": "A", "_step_b_fwd": "B", "_step_c_fwd": "C", "_step_c_adj": "C*", "_step_b_adj": "B*"}
ADJ = {"A": "A", "B": "B*", "B*": "B", "C": "C*", "C*": "C", "Am": "Am*", "Am*": "Am"}


def _substep_trace(it, cls, names, body):
    """Run body() with the listed sub-step methods replaced by trace recorders (callee contracts)."""
    calls = []
    for n in names:
        it.call_contracts[f"{cls}.{n}"] = Native(lambda ex, self_, st, t, _n=n: calls.append((_n, st, t)), n)
    try:
        body()
    finally:
        for n in names:
            del it.call_contracts[f"{cls}.{n}"]
    return calls


def check_implicit_leapfrog(run, it):
    run.function("mici.integrators.ImplicitLeapfrogIntegrator._step")
    tag = P + "ImplicitLeapfrogIntegrator._step"
    if run.prop == "C06":
        run.replay_for(P + "ImplicitLeapfrogIntegrator", _replay("implicit_leapfrog"))

    def h(ctx):
        w = World(it, ctx)
        integ = w.new("ImplicitLeapfrogIntegrator", step_size=positive_step(ctx))
        st = w.make_state()
        t = z3.Real("t")
        calls = _substep_trace(it, "ImplicitLeapfrogIntegrator", list(LEAP_LABEL),
                               lambda: w.ex.call(w.ex.getattr(integ, "_step"), [st, t], {}))
        seq = [(LEAP_LABEL[n], tt) for n, s, tt in calls]
        same_state = all(s is st for _, s, _ in calls)
        ctx.run.ob(tag + "/sub-steps-act-on-the-step-state", core.DISCHARGED if same_state else core.FAILED, "pyvc",
                   detail="" if same_state else "a sub-step was applied to another state object")
        for comp, labels in (("h1", ("A",)), ("h2-mom", ("B", "B*")), ("h2-pos", ("C", "C*"))):
            ctx.prove(tag + f"/time_sum[{comp}]", _sum(tt for l, tt in seq if l in labels) == t,
                      text=f"implicit leapfrog: sub-step times of component {comp} sum to time_step (documented A(t/2)B(t/2)C(t/2)C*(t/2)B*(t/2)A*(t/2))")
        good = len(seq) == 6 and all(ADJ[a[0]] == b[0] for a, b in zip(seq, reversed(seq)))
        ctx.run.ob(tag + "/adjoint-palindrome", core.DISCHARGED if good else core.FAILED, "pyvc",
                   detail="" if good else f"sequence {[l for l, _ in seq]}", text="sequence is X1..X3 X3*..X1* (symmetric composition)")
        if good:
            ctx.prove(tag + "/adjoint-times-equal", z3.And(*[to_real(a[1]) == to_real(b[1]) for a, b in zip(seq, reversed(seq))]),
                      text="each sub-step and its adjoint use the same time")
    it.explore(h, "ImplicitLeapfrog")


def check_implicit_midpoint(run, it):
    run.function("mici.integrators.ImplicitMidpointIntegrator._step")
    tag = P + "ImplicitMidpointIntegrator._step"

    def h(ctx):
        w = World(it, ctx)
        integ = w.new("ImplicitMidpointIntegrator", step_size=positive_step(ctx))
        st = w.make_state()
        t = z3.Real("t")
        calls = _substep_trace(it, "ImplicitMidpointIntegrator", ["_step_a_fwd", "_step_a_adj"],
                               lambda: w.ex.call(w.ex.getattr(integ, "_step"), [st, t], {}))
        ok = [c[0] for c in calls] == ["_step_a_fwd", "_step_a_adj"]
        ctx.run.ob(tag + "/arrangement", core.DISCHARGED if ok else core.FAILED, "pyvc", detail="" if ok else str([c[0] for c in calls]),
                   text="implicit midpoint = implicit Euler half step then its adjoint (explicit Euler half step)")
        ctx.prove(tag + "/time_sum", _sum(c[2] for c in calls) == t, text="implicit midpoint: the two half steps sum to time_step")
        if ok:
            ctx.prove(tag + "/adjoint-times-equal", to_real(calls[0][2]) == to_real(calls[1][2]))
    it.explore(h, "ImplicitMidpoint")


def _inner_inv(w_holder):
    def inv(ex):
        return z3.BoolVal(True)
    return inv


def check_constrained(run, it):
    run.function("mici.integrators.ConstrainedLeapfrogIntegrator._step")
    run.function("mici.integrators.ConstrainedLeapfrogIntegrator._step_b")
    tag = P + "ConstrainedLeapfrogIntegrator"

    def h(ctx):
        w = World(it, ctx, constrained=True)
        integ = w.new("ConstrainedLeapfrogIntegrator", step_size=positive_step(ctx), n_inner_step=z3.Int("n_inner_step"))
        ctx.assume(z3.Int("n_inner_step") >= 1)
        st = w.make_state()
        t = z3.Real("t")
        calls = _substep_trace(it, "ConstrainedLeapfrogIntegrator", ["_step_a", "_step_b"],
                               lambda: w.ex.call(w.ex.getattr(integ, "_step"), [st, t], {}))
        ok = [c[0] for c in calls] == ["_step_a", "_step_b", "_step_a"]
        ctx.run.ob(tag + "._step/arrangement", core.DISCHARGED if ok else core.FAILED, "pyvc", detail="" if ok else str([c[0] for c in calls]),
                   text="constrained leapfrog: A, B, A")
        ctx.prove(tag + "._step/time_sum[h1]", _sum(c[2] for c in calls if c[0] == "_step_a") == t,
                  text="constrained leapfrog: the two A sub-steps sum to time_step")
        ctx.prove(tag + "._step/time_sum[h2]", _sum(c[2] for c in calls if c[0] == "_step_b") == t,
                  text="constrained leapfrog: B receives the full time_step")
        if ok:
            ctx.prove(tag + "._step/palindromic", to_real(calls[0][2]) == to_real(calls[2][2]))
    it.explore(h, "Constrained._step")

    # _step_b: N inner steps of t/N each (loop invariant: elapsed inner time == i * t / N)
    q = "ConstrainedLeapfrogIntegrator._step_b"

    def havoc(ex):
        ex.ctx.ghost["loop_index"] = ex.ctx.fresh("inner_i", "int")

    def inv(ex):
        # iteration counter bounds; each iteration advances h2 by t/N (obligation below), hence N iterations advance by t
        i = lift(ex.ctx.ghost.get("loop_index", 0))
        return z3.And(i >= 0, i <= z3.Int("n_inner_step"))

    def h_b(ctx):
        w = World(it, ctx, constrained=True)
        N = z3.Int("n_inner_step")
        ctx.assume(N >= 1)
        integ = w.new("ConstrainedLeapfrogIntegrator", step_size=positive_step(ctx), n_inner_step=N,
                      projection_solver=w.projection_solver_stub(), reverse_check_norm=w.norm_stub())
        st = w.make_state()
        t = z3.Real("t")
        ctx.ghost["world"] = w
        ctx.ghost["t"] = t
        mark = {}

        def on_body(ex):
            mark["start"] = len(w.trace)
            mark["i"] = ex.ctx.ghost["loop_index"]

        it.loop_specs[(q, 0)] = LoopSpec(inv, havoc, on_body=on_body)
        try:
            try:
                w.ex.call(w.ex.getattr(integ, "_step_b"), [st, t], {})
            except PyRaise:
                return  # error paths are C02/C12's concern
            except PathEnd:
                # end of the generic inner iteration: h2_flow on the step state advanced by exactly t/N
                evs = w.trace[mark["start"]:]
                fwd = [e for e in evs if e[0] == "h2_flow" and e[1] is st]
                ok = len(fwd) == 1
                ctx.run.ob(tag + "._step_b/one-forward-flow-per-inner-step", core.DISCHARGED if ok else core.FAILED, "pyvc",
                           detail="" if ok else f"{len(fwd)} forward h2_flow calls on the step state in one inner iteration")
                if ok:
                    ctx.prove(tag + "._step_b/inner-time-is-t-over-N", to_real(fwd[0][2]) * z3.ToReal(N) == t,
                              text="every inner step advances h2 by time_step / n_inner_step")
                raise
        finally:
            del it.loop_specs[(q, 0)]
        # exit path: loop ran N times (i == N) -> total elapsed == t by the invariant instantiated at i=N
        ctx.run.ob(tag + "._step_b/loop-exit", core.DISCHARGED, "pyvc", text="loop exits after n_inner_step iterations (range loop)")
    it.explore(h_b, "Constrained._step_b")


def run(run_, tier):
    it = make_interp(run_)
    run_.assume("A9 (cited, not proved) now only for the implicit and constrained schemes: a consistent composition Phi*_{t/2} o Phi_{t/2} of a first-order map with its adjoint "
                "has order >= 2 (generalised leapfrog, implicit midpoint, RATTLE). For the explicit splitting integrators (leapfrog, symmetric compositions, BCSS) the second-order "
                "conditions are discharged from the traced sub-step times (Lie-series expansion to second order; component flows exact by C07; analytic Hamiltonian)")
    run_.assume("A1: times are mathematical reals")
    run_.trust("system flow methods are contract stubs (their exactness is C07's obligation)")
    for pref in ("ImplicitMidpointIntegrator", "ConstrainedLeapfrogIntegrator", "Integrator.step", "BCSS"):
        run_.replay_for(P + pref, _replay("all"))
    check_step_wrapper(run_, it)
    check_leapfrog(run_, it)
    check_composition(run_, it, tier)
    check_implicit_leapfrog(run_, it)
    check_implicit_midpoint(run_, it)
    check_constrained(run_, it)
    # the sub-steps composed by the implicit schemes must be the (implicit / explicit) Euler maps of the system's own derivative functions,
    # for every compatible system class: the sub-step contracts of C02, imported
    from . import c02
    c02.check_leapfrog_pairs(run_, it)
    c02.check_midpoint_pair(run_, it)
    # "for the system's own Hamiltonian": the flows composed above are generated by dh1_dpos / dh2_dmom / dh2_dpos, which must be the
    # gradients of the system's h1 / h2 (C05 obligations, imported), and h2_flow must be the exact flow (C07 obligations, imported)
    from . import symla_systems
    symla_systems.run_cases(run_, "c05_cases", keep=lambda oid: any(k in oid for k in (
        "dh1_dpos-is-gradient-of-h1", "dh2_dmom-is-gradient-of-h2", "dh2_dpos-is-gradient-of-h2", "h-is-sum",
        # the implicit midpoint scheme is built from dh_dpos / dh_dmom of the whole Hamiltonian
        "dh_dpos-is-gradient-of-h", "dh_dmom-is-gradient-of-h",
        # the force is evaluated several times at one position within and across steps (through the state cache): it must be the same force every time
        "dh1_dpos-stable-under-repeated-evaluation", "grad-cache-not-corrupted")))
    symla_systems.run_cases(run_, "c07_cases")
    run_.extraction_drops.extend(sorted(it.dropped))
    run_.notes.append(f"paths explored: {it.paths}; solver seconds {it.solver_seconds:.2f}")
