"""Shared Engine-A harness over mici/samplers.py (C13, C14, C15, C16): the real `_sample_chain`,
`_sample_chains_sequential`, `_collate_chain_outputs`, `_finalize_adapters` and
`MarkovChainMonteCarloMethod.sample_chains` bodies are interpreted; transitions, adapters, trace functions,
progress bars, array allocation and the stager are contract stubs recording a ghost log.
"""
from __future__ import annotations

import z3

from .. import core
from ..models import Opaque
from ..pyvc import (Exec, Interp, LoopSpec, Namespace, Native, Obj, OutsideSubset, PathEnd, PyRaise, TypeTag, exc_name, is_z3, lift,
                    make_exc)
from .integ_model import install_std

MOD = "mici.samplers"


class RowArray:
    """Ghost array: records item assignments (row index expression, value); rows never written keep `fill`."""

    def __init__(self, name, length=None, fill="fill", memmap=False):
        self.name, self.length, self.fill = name, length, fill
        self.writes = []
        self.flushed = 0
        self.memmap = memmap

    def _pv_setitem(self, ex, key, val):
        self.writes.append((key, val, ex.ctx.ghost.get("iter_tag")))

    def _pv_getattr(self, ex, name):
        if name == "flush" and self.memmap:
            def flush(ex2):
                self.flushed += 1
            return Native(flush, "flush")
        raise PyRaise(make_exc(ex.interp, "AttributeError", name))


class ChainIter:
    """Contract of a chain iterator (ProgressBar over range(n)): context manager; yields (0, d0), (1, d1), ... in order."""

    def __init__(self, n):
        self.n = n
        self.entered = self.exited = 0
        self.sequence = None

    def _pv_getattr(self, ex, name):
        if name == "__enter__":
            def enter(ex2):
                self.entered += 1
                return self
            return Native(enter, "__enter__")
        if name == "__exit__":
            def exit_(ex2, *a):
                self.exited += 1
                return False
            return Native(exit_, "__exit__")
        if name == "sequence":
            return self.sequence
        raise PyRaise(make_exc(ex.interp, "AttributeError", name))

    def _pv_setattr(self, ex, name, v):
        if name == "sequence":
            self.sequence = v
            return
        raise OutsideSubset(f"ChainIter.{name} assignment")

    def _pv_generic(self, ex):
        idx = ex.ctx.ghost["loop_index"]
        n = lift(self.n)

        def cond():
            return ex.ctx.branch(z3.And(idx >= 0, idx < n))

        def bind():
            return (idx, {})
        return cond, bind

    def _pv_len(self, ex):
        return self.n


def make_interp(run):
    it = Interp(run, timeout_ms=20000)
    it.max_paths = 100000
    install_std(it)
    from ..pyvc import TypeTag
    never = lambda name: TypeTag(name, lambda o: False)  # noqa: E731
    it.ext_modules["numpy"] = Namespace("np", memmap=never("memmap"), ndarray=never("ndarray"),
                                        random=Namespace("np.random", RandomState=never("RandomState"),
                                                         # np.random.Generator(bit_generator): a generator driven by that bit generator's stream
                                                         Generator=TypeTag("Generator", lambda o: False, lambda ex_, bg: Opaque("rng", source=getattr(bg, "_attrs", {}).get("source"), bit_generator=bg))))
    def _cm(v=None):
        return Opaque("nullcontext", __enter__=Native(lambda e: v, "enter"), __exit__=Native(lambda e, *a: False, "exit"))
    it.ext_modules["contextlib"] = Namespace("contextlib", nullcontext=Native(lambda ex_, v=None: _cm(v), "nullcontext"), ExitStack=None,
                                             contextmanager=Native(lambda ex_, f: f, "contextmanager"))
    it.ext_modules["tempfile"] = Namespace("tempfile", TemporaryDirectory=Native(lambda ex_: _cm("TMPDIR"), "TemporaryDirectory"))
    it.ext_modules["pathlib"] = Namespace("pathlib", Path=never("Path"))
    it.ext_modules["logging"] = Namespace("logging", getLogger=Native(lambda ex, *a: Opaque("logger"), "getLogger"))
    return it


class ChainWorld:
    def __init__(self, it, ctx, with_adapters, with_traces, with_stats, memmap=False, monitor=False):
        self.it, self.ctx = it, ctx
        self.mod = it.module(MOD)
        self.ex = Exec(it, ctx, self.mod, self.mod.env, "harness")
        self.log = []  # ghost log of contract-stub events
        self.states = []  # every state object produced (init + transition results)
        w = self
        cs = it.module("mici.states").resolve("ChainState", ctx)
        self.init_state = self.ex.call(cs, [], {"pos": "q_init", "mom": "p_init", "dir": 1})
        self.states.append(self.init_state)
        self.rng = Opaque("rng")

        def mk_transition(key, stat_keys, variables):
            def sample(ex, state, rng):
                k = len([e for e in w.log if e[0] == "sample" and e[1] == key])
                new = ex.call(cs, [], {"pos": f"q<{key}#{len(w.log)}>", "mom": f"p<{key}#{len(w.log)}>", "dir": 1})
                stats = None if stat_keys is None else {sk: f"{key}.{sk}@{len(w.log)}" for sk in stat_keys}
                w.log.append(("sample", key, state, rng, new, stats, ex.ctx.ghost.get("iter_tag")))
                w.states.append(new)
                return (new, stats)
            types = None if stat_keys is None else {sk: ("dtype", "fillval") for sk in stat_keys}
            return Opaque(key, sample=Native(sample, f"{key}.sample"), state_variables=variables, statistic_types=types)
        self.transitions = {"momentum_transition": mk_transition("momentum_transition", None, {"mom"}),
                            "integration_transition": mk_transition("integration_transition", ["n_step", "accept_stat"], {"pos", "mom", "dir"})}

        def mk_adapter(name):
            def initialize(ex, state, transition):
                st = {"adapter": name, "for": transition}
                w.log.append(("initialize", name, state, transition))
                return st

            def update(ex, ast, state, stats, transition):
                w.log.append(("update", name, ast, state, stats, transition, ex.ctx.ghost.get("iter_tag")))
            return Opaque(name, initialize=Native(initialize, "initialize"), update=Native(update, "update"))
        self.adapters = {"integration_transition": [mk_adapter("adapterA"), mk_adapter("adapterB")]} if with_adapters else None

        def mk_trace(name, keys):
            def tf(ex, state):
                w.log.append(("trace", name, state, ex.ctx.ghost.get("iter_tag")))
                return {k: f"{k}({name})@{len(w.log)}" for k in keys}
            return Native(tf, name)
        # "pos" is returned by both functions: documented rule -- the value of the LAST trace function returning a key is the one stored
        self.trace_funcs = [mk_trace("tf1", ["pos", "hamiltonian"]), mk_trace("tf2", ["extra", "pos"])] if with_traces else None
        self.trace_owner = {"pos": "tf2", "hamiltonian": "tf1", "extra": "tf2"}
        self.chain_traces = {k: RowArray("trace:" + k, memmap=memmap) for k in ("pos", "hamiltonian", "extra")} if with_traces else None
        self.chain_stats = {"integration_transition": {k: RowArray("stat:" + k, memmap=memmap) for k in ("n_step", "accept_stat")}} if with_stats else None
        self.monitor = {"integration_transition": ["accept_stat"]} if monitor else None


def sample_chain_contract(run, it, prop):
    """C13: row-exact loop invariant of _sample_chain; C15: with a KeyboardInterrupt possible at every call in the loop."""
    q = "_sample_chain"
    run.function("mici.samplers._sample_chain")
    run.function("mici.samplers._update_chain_stats")
    run.function("mici.samplers._flush_memmap_chain_data")
    P = "samplers._sample_chain"
    interrupt = prop == "C15"

    def havoc(ex):
        c = ex.ctx
        i = c.fresh("sample_index", "int")
        c.ghost["loop_index"] = i
        w = c.ghost["world"]
        if c.choose(2, "first-iteration") == 0:
            c.assume(i == 0)
        else:
            c.assume(i >= 1)
            # arbitrary earlier iterations: the current state is some state produced earlier (ghost), rows < i are written
            cs = it.module("mici.states").resolve("ChainState", c)
            prev = ex.call(cs, [], {"pos": "q<earlier>", "mom": "p<earlier>", "dir": 1})
            w.states.append(prev)
            ex.env.set("state", prev)
            ex.env.set("sample_index", i - 1)
        c.ghost["iter_tag"] = "generic"
        c.ghost["body_start"] = len(w.log)
        c.ghost["state_at_body_start"] = ex.env.lookup("state")
        for arr in w.all_arrays:
            arr.writes_before = len(arr.writes)

    def inv(ex):
        i = lift(ex.ctx.ghost.get("loop_index", 0))
        return z3.And(i >= 0, i <= z3.Int("n_iter"))

    def check_iteration(ctx, w, off, interrupted_at=None):
        """obligations on the generic iteration (events after body_start)"""
        i = ctx.ghost["loop_index"] if interrupted_at is None else ctx.ghost["loop_index"]
        idx = ctx.ghost["generic_index"]
        evs = w.log[ctx.ghost["body_start"]:]
        samples = [e for e in evs if e[0] == "sample"]
        state0 = ctx.ghost["state_at_body_start"]
        if interrupted_at is None:
            order = [e[1] for e in samples] == list(w.transitions)
            ctx.run.ob(P + "/every-transition-sampled-once-in-order", core.DISCHARGED if order else core.FAILED, "pyvc",
                       detail="" if order else str([e[1] for e in samples]), text="each iteration applies every transition once, in dictionary order")
        # state threading
        cur = state0
        threaded = True
        for e in samples:
            if e[2] is not cur or e[3] is not w.rng:
                threaded = False
            cur = e[4]
        ctx.run.ob(P + "/state-threaded-through-transitions", core.DISCHARGED if threaded else core.FAILED, "pyvc",
                   detail="" if threaded else "a transition was not applied to the previous transition's output state / with the chain's rng",
                   text="transition k receives the state returned by transition k-1 and the chain's own rng")
        row = idx + off
        # statistics rows
        if w.chain_stats is not None:
            for e in samples:
                key, stats = e[1], e[5]
                if stats is None:
                    continue
                for sk, arr in w.chain_stats[key].items():
                    new = arr.writes[arr.writes_before:]
                    if interrupted_at is None or new:
                        okn = len(new) == 1
                        ctx.run.ob(P + "/one-stat-write-per-iteration", core.DISCHARGED if okn else core.FAILED, "pyvc",
                                   detail="" if okn else f"{arr.name}: {len(new)} writes in one iteration")
                        if new:
                            ctx.prove(P + "/stat-row-index", lift(new[0][0]) == row, text="statistics are written at row sample_index + sampling_index_offset")
                            okv = new[0][1] == stats[sk]
                            ctx.run.ob(P + "/stat-row-value", core.DISCHARGED if okv else core.FAILED, "pyvc",
                                       detail="" if okv else f"{arr.name}[row] = {new[0][1]} but this iteration's {key} statistics are {stats[sk]}",
                                       text="the row holds this iteration's statistic of the same transition and key")
        # trace rows
        if w.chain_traces is not None and w.trace_funcs is not None:
            traces = [e for e in evs if e[0] == "trace"]
            if interrupted_at is None:
                okt = [e[1] for e in traces] == ["tf1", "tf2"] and all(e[2] is cur for e in traces)
                ctx.run.ob(P + "/traces-computed-from-post-iteration-state", core.DISCHARGED if okt else core.FAILED, "pyvc",
                           detail="" if okt else f"trace functions {[e[1] for e in traces]} applied to a state that is not the state after the last transition",
                           text="trace functions are applied, after all transitions of the iteration, to the resulting state")
            for k, arr in w.chain_traces.items():
                new = arr.writes[arr.writes_before:]
                if interrupted_at is None:
                    okn = len(new) >= 1
                    ctx.run.ob(P + "/one-trace-write-per-iteration", core.DISCHARGED if okn else core.FAILED, "pyvc",
                               detail="" if okn else f"{arr.name}: {len(new)} writes", text="every traced key's row is written in every completed iteration")
                    if okn:
                        last = new[-1][1]
                        okl = isinstance(last, str) and last.startswith(f"{k}({w.trace_owner[k]})")
                        ctx.run.ob(P + "/trace-row-holds-last-trace-function-value", core.DISCHARGED if okl else core.FAILED, "pyvc",
                                   detail="" if okl else f"{arr.name}[row] finally holds {last}; documented: the last trace function returning the key ({w.trace_owner[k]}) wins",
                                   text="if a key is returned by several trace functions the stored value is the last function's (documented)")
                for wr in new:
                    ctx.prove(P + "/trace-row-index", lift(wr[0]) == row, text="traces are written at row sample_index + sampling_index_offset")
                    okv = isinstance(wr[1], str) and wr[1].startswith(k + "(")
                    ctx.run.ob(P + "/trace-row-value", core.DISCHARGED if okv else core.FAILED, "pyvc", detail="" if okv else f"{arr.name} <- {wr[1]}")
        elif w.chain_traces is None or w.trace_funcs is None:
            nt = [e for e in evs if e[0] == "trace"]
            ctx.run.ob(P + "/no-tracing-when-disabled", core.DISCHARGED if not nt else core.FAILED, "pyvc", detail="" if not nt else "trace function called although tracing is off")
        # adapters
        ups = [e for e in evs if e[0] == "update"]
        if w.adapters is not None and interrupted_at is None:
            integ = [e for e in samples if e[1] == "integration_transition"]
            oku = [e[1] for e in ups] == ["adapterA", "adapterB"] and all(e[3] is integ[0][4] and e[4] is integ[0][5] and e[5] is w.transitions["integration_transition"] for e in ups)
            ctx.run.ob(P + "/adapters-updated-with-this-iterations-state-and-stats", core.DISCHARGED if oku else core.FAILED, "pyvc",
                       detail="" if oku else str([(e[1]) for e in ups]))
            oks = all(e[2]["adapter"] == e[1] for e in ups)
            ctx.run.ob(P + "/adapter-state-paired-with-its-adapter", core.DISCHARGED if oks else core.FAILED, "pyvc", detail="" if oks else "adapter states mixed up")
        if w.adapters is None:
            ctx.run.ob(P + "/no-adapter-update-without-adapters", core.DISCHARGED if not ups else core.FAILED, "pyvc",
                       detail="" if not ups else "adapter.update called with adapters=None",
                       text="adapters=None => no adapter call (transition parameters are not written by _sample_chain)")

    roots = [[a, t, s, m] for a in range(2) for t in range(2) for s in range(2) for m in range(2)]

    def h(ctx):
        with_ad, with_tr, with_st, mm = (bool(ctx.choose(2, x)) for x in ("adapters", "traces", "stats", "memmap"))
        w = ChainWorld(it, ctx, with_ad, with_tr, with_st, memmap=mm)
        ctx.ghost["world"] = w
        w.all_arrays = ([a for a in w.chain_traces.values()] if w.chain_traces else []) + \
                       ([a for d in (w.chain_stats or {}).values() for a in d.values()])
        for a in w.all_arrays:
            a.writes_before = 0
        n = z3.Int("n_iter")
        off = z3.Int("sampling_index_offset")
        ctx.assume(n >= 0)
        ctx.assume(off >= 0)
        chain_it = ChainIter(n)
        armed = {"on": False, "fired": False}

        def hook(ex, f, args, kwargs):
            # C15: a KeyboardInterrupt may arrive at any call made inside the sampling loop (at most one per path)
            if not interrupt or not armed["on"] or armed["fired"]:
                return
            if ex.ctx.ghost.get("iter_tag") != "generic":
                return
            if ex.ctx.choose(2, "interrupt-here") == 1:
                armed["fired"] = True
                armed["site"] = getattr(f, "name", None) or getattr(getattr(f, "func", None), "qualname", None) or repr(f)[:40]
                raise PyRaise(Obj(ex.interp.builtins["KeyboardInterrupt"], {"args": ()}))

        def on_body(ex):
            armed["on"] = True
            ex.ctx.ghost["generic_index"] = ex.ctx.ghost["loop_index"]
        it.loop_specs[(q, 2)] = LoopSpec(inv, havoc, on_body=on_body)  # loop #2 in source order: the sampling loop
        it.call_hook = hook
        kw = dict(trace_funcs=w.trace_funcs, chain_traces=w.chain_traces, chain_stats=w.chain_stats, chain_index=0,
                  sampling_index_offset=off, monitor_stats=w.monitor, adapters=w.adapters)
        ended_in_body = False
        try:
            try:
                res = w.ex.call(w.mod.resolve("_sample_chain", ctx), [w.init_state, chain_it, w.rng, w.transitions], kw)
            except PyRaise as pr:
                ctx.run.ob(P + "/returns-normally", core.FAILED, "pyvc",
                           detail=f"{exc_name(pr.exc)} escaped _sample_chain (interrupt at {armed.get('site')})" if armed["fired"] else f"{exc_name(pr.exc)} {pr.exc.attrs.get('args')} escaped")
                return
            except PathEnd:
                ended_in_body = True
        finally:
            it.loop_specs.pop((q, 2), None)
            it.call_hook = None
        if ended_in_body:
            check_iteration(ctx, w, off)
            return
        state, adapter_states, exception = res
        if armed["fired"]:
            # ---- C15: interrupted in the generic iteration ----------------------------------------------------------
            ok = isinstance(exception, Obj) and exception.cls.name == "KeyboardInterrupt"
            ctx.run.ob(P + "/interrupt-is-returned-not-raised", core.DISCHARGED if ok else core.FAILED, "pyvc",
                       detail="" if ok else f"exception slot = {exception}", text="an interrupt at any call site is returned as the third output")
            valid = any(state is s for s in w.states)
            ctx.run.ob(P + "/interrupted-state-is-a-complete-chain-state", core.DISCHARGED if valid else core.FAILED, "pyvc",
                       detail="" if valid else "returned state is not the initial state nor a state returned by a transition",
                       text="the state returned after an interrupt is the initial state or a state returned by some transition")
            flushed = all(a.flushed >= 1 for a in w.all_arrays) if mm else True
            ctx.run.ob(P + "/flush-after-interrupt", core.DISCHARGED if flushed else core.FAILED, "pyvc",
                       detail="" if flushed else "memory-mapped arrays not flushed on the interrupt path")
            ok_exit = chain_it.exited == chain_it.entered == 1
            ctx.run.ob(P + "/iterator-context-closed", core.DISCHARGED if ok_exit else core.FAILED, "pyvc")
            check_iteration(ctx, w, off, interrupted_at=armed.get("site"))
            return
        # ---- normal completion (loop exit path) ----------------------------------------------------------------------
        ok = exception is None
        ctx.run.ob(P + "/no-exception-on-completion", core.DISCHARGED if ok else core.FAILED, "pyvc", detail="" if ok else str(exception))
        last = w.states[-1] if len(w.states) > 1 else w.init_state
        okf = state is ex_state(ctx, w)
        ctx.run.ob(P + "/returns-state-after-last-iteration", core.DISCHARGED if okf else core.FAILED, "pyvc",
                   detail="" if okf else "returned state is not the loop-carried chain state",
                   text="the returned final state is the state after the last iteration")
        if mm:
            flushed = all(a.flushed >= 1 for a in w.all_arrays)
            ctx.run.ob(P + "/flush-on-completion", core.DISCHARGED if flushed else core.FAILED, "pyvc", detail="" if flushed else "memmaps not flushed")
        if with_ad:
            inits = [e for e in w.log if e[0] == "initialize"]
            oki = [e[1] for e in inits] == ["adapterA", "adapterB"] and all(e[2] is w.init_state and e[3] is w.transitions["integration_transition"] for e in inits)
            ctx.run.ob(P + "/adapters-initialised-once-with-initial-state", core.DISCHARGED if oki else core.FAILED, "pyvc", detail="" if oki else str(inits))
            oks = list(adapter_states) == ["integration_transition"] and [a["adapter"] for a in adapter_states["integration_transition"]] == ["adapterA", "adapterB"]
            ctx.run.ob(P + "/adapter-states-returned-per-transition", core.DISCHARGED if oks else core.FAILED, "pyvc", detail="" if oks else str(adapter_states))
        else:
            oke = adapter_states == {}
            ctx.run.ob(P + "/no-adapter-states-without-adapters", core.DISCHARGED if oke else core.FAILED, "pyvc", detail="" if oke else str(adapter_states))

    def ex_state(ctx, w):
        # on the loop-exit path the loop-carried `state` is either the init state (n_iter == 0) or the havoc'd earlier state
        return w.states[-1] if len(w.states) > 1 else w.init_state
    it.explore(h, "_sample_chain", roots=roots)


def c16_obligations(run, tier):
    from . import samplers_stage
    samplers_stage.stage_loop(run, "C16")
    samplers_stage.finalize_adapters(run, make_interp(run))
