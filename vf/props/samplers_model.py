"""Shared Engine-A harness over mici.samplers (C13, C14, C15, C16)."""


def c16_obligations(run, tier):
    pass
