/-
  The rule table of Engine D (vf/ncalg.py, `RULES`), re-proved for matrices of ARBITRARY finite dimension over ℝ from Mathlib.
  Every rewrite step the engine performs is an instance of one of these statements (or of the ring / involution axioms, which
  hold in `Matrix n n ℝ` by Mathlib's instances and are exercised by `ring_laws` below).  `lean` type-checks this file in
  `./check C10 --tier thorough` and in MANIFEST.setup_cmd; nothing in it is assumed (no `sorry`, no `axiom`).
-/
import Mathlib.LinearAlgebra.Matrix.NonsingularInverse
import Mathlib.LinearAlgebra.Matrix.SchurComplement
import Mathlib.LinearAlgebra.Matrix.Block
import Mathlib.Analysis.SpecialFunctions.Log.Basic

open Matrix

set_option linter.unusedSectionVars false

namespace MiciLemmas

variable {n m k : Type*} [Fintype n] [DecidableEq n] [Fintype m] [DecidableEq m] [Fintype k] [DecidableEq k]

/-- [ring] typed associativity and distributivity (rectangular shapes) -/
theorem ring_laws (A : Matrix n m ℝ) (B C : Matrix m k ℝ) (D : Matrix k n ℝ) (c : ℝ) :
    A * (B + C) * D = A * B * D + A * C * D ∧ (c • A) * B = c • (A * B) ∧ A * (c • B) = c • (A * B)
      ∧ (A * B) * D = A * (B * D) := by
  refine ⟨?_, ?_, ?_, ?_⟩
  · rw [Matrix.mul_add, Matrix.add_mul]
  · rw [Matrix.smul_mul]
  · rw [Matrix.mul_smul]
  · rw [Matrix.mul_assoc]

/-- [transpose] -/
theorem transpose_laws (A : Matrix n m ℝ) (B : Matrix m k ℝ) (C : Matrix n m ℝ) :
    (A * B)ᵀ = Bᵀ * Aᵀ ∧ (A + C)ᵀ = Aᵀ + Cᵀ ∧ Aᵀᵀ = A :=
  ⟨Matrix.transpose_mul A B, Matrix.transpose_add A C, Matrix.transpose_transpose A⟩

/-- [transpose] (A⁻¹)ᵀ = (Aᵀ)⁻¹ -/
theorem transpose_inv (A : Matrix n n ℝ) : A⁻¹ᵀ = Aᵀ⁻¹ := Matrix.transpose_nonsing_inv A

/-- [inverse] A A⁻¹ = A⁻¹ A = 1 -/
theorem inv_cancel (A : Matrix n n ℝ) (h : IsUnit A.det) : A * A⁻¹ = 1 ∧ A⁻¹ * A = 1 :=
  ⟨Matrix.mul_nonsing_inv A h, Matrix.nonsing_inv_mul A h⟩

/-- [inverse] (A⁻¹)⁻¹ = A, (AB)⁻¹ = B⁻¹A⁻¹ -/
theorem inv_inv' (A : Matrix n n ℝ) (h : IsUnit A.det) : A⁻¹⁻¹ = A := Matrix.nonsing_inv_nonsing_inv A h

theorem mul_inv_rev' (A B : Matrix n n ℝ) : (A * B)⁻¹ = B⁻¹ * A⁻¹ := Matrix.mul_inv_rev A B

/-- [inverse] the proof scheme of `decide_inverse`: a right inverse of a square matrix is the inverse -/
theorem right_inverse_is_inverse (M X : Matrix n n ℝ) (h : M * X = 1) : M⁻¹ = X := Matrix.inv_eq_right_inv h

/-- [inverse] (cA)⁻¹ = c⁻¹ A⁻¹ for c ≠ 0 -/
theorem smul_inv (A : Matrix n n ℝ) (c : ℝ) (hc : c ≠ 0) (h : IsUnit A.det) : (c • A)⁻¹ = c⁻¹ • A⁻¹ := by
  apply Matrix.inv_eq_right_inv
  rw [Matrix.smul_mul, Matrix.mul_smul, Matrix.mul_nonsing_inv A h, smul_smul, mul_inv_cancel₀ hc, one_smul]

/-- [orthogonal] Q Qᵀ = 1 gives Qᵀ Q = 1 and Q⁻¹ = Qᵀ -/
theorem orthogonal_laws (Q : Matrix n n ℝ) (h : Q * Qᵀ = 1) : Qᵀ * Q = 1 ∧ Q⁻¹ = Qᵀ :=
  ⟨mul_eq_one_comm.mp h, Matrix.inv_eq_right_inv h⟩

/-- [symmetric] the inverse of a symmetric matrix is symmetric -/
theorem inv_symmetric (A : Matrix n n ℝ) (h : Aᵀ = A) : A⁻¹ᵀ = A⁻¹ := by
  rw [Matrix.transpose_nonsing_inv, h]

/-- the Woodbury identity, which Engine D derives by rewriting rather than assumes (stated here as a cross-check of the
    engine's derivation against Mathlib's) -/
theorem woodbury (A : Matrix n n ℝ) (U : Matrix n m ℝ) (C : Matrix m m ℝ) (V : Matrix m n ℝ)
    (hA : IsUnit A) (hC : IsUnit C) (hAC : IsUnit (C⁻¹ + V * A⁻¹ * U)) :
    (A + U * C * V)⁻¹ = A⁻¹ - A⁻¹ * U * (C⁻¹ + V * A⁻¹ * U)⁻¹ * V * A⁻¹ :=
  Matrix.add_mul_mul_inv_eq_sub A U C V hA hC hAC

/-- [det-lemma] matrix determinant lemma in the form the library uses:
    det(A + U C V) = det A · det C · det(C⁻¹ + V A⁻¹ U) -/
theorem det_lemma (A : Matrix n n ℝ) (U : Matrix n m ℝ) (C : Matrix m m ℝ) (V : Matrix m n ℝ)
    (hA : IsUnit A.det) (hC : IsUnit C.det) :
    (A + U * C * V).det = A.det * C.det * (C⁻¹ + V * A⁻¹ * U).det := by
  have h1 : (A + U * C * V).det = A.det * (1 + V * A⁻¹ * (U * C)).det :=
    Matrix.det_add_mul (A := A) (U * C) V hA
  have h2 : C.det * (C⁻¹ + V * A⁻¹ * U).det = (1 + V * A⁻¹ * (U * C)).det := by
    rw [← Matrix.det_mul, Matrix.mul_add, Matrix.mul_nonsing_inv C hC,
      Matrix.det_one_add_mul_comm C (V * A⁻¹ * U), Matrix.mul_assoc (V * A⁻¹) U C]
  rw [h1, mul_assoc, h2]

/-- [lad-mul] log|det| is additive over products, invariant under transposition, negated by inversion -/
theorem lad_mul (A B : Matrix n n ℝ) (hA : A.det ≠ 0) (hB : B.det ≠ 0) :
    Real.log |(A * B).det| = Real.log |A.det| + Real.log |B.det| := by
  rw [Matrix.det_mul, abs_mul, Real.log_mul (abs_ne_zero.mpr hA) (abs_ne_zero.mpr hB)]

theorem lad_transpose (A : Matrix n n ℝ) : Real.log |Aᵀ.det| = Real.log |A.det| := by
  rw [Matrix.det_transpose]

theorem lad_inv (A : Matrix n n ℝ) : Real.log |A⁻¹.det| = - Real.log |A.det| := by
  rw [Matrix.det_nonsing_inv, Ring.inverse_eq_inv', abs_inv, Real.log_inv]

theorem lad_smul (A : Matrix n n ℝ) (c : ℝ) (hc : c ≠ 0) (hA : A.det ≠ 0) :
    Real.log |(c • A).det| = (Fintype.card n : ℝ) * Real.log |c| + Real.log |A.det| := by
  rw [Matrix.det_smul, abs_mul, abs_pow, Real.log_mul (pow_ne_zero _ (abs_ne_zero.mpr hc)) (abs_ne_zero.mpr hA), Real.log_pow]

/-- [lad-mul] |det Q| = 1 for orthogonal Q -/
theorem lad_orthogonal (Q : Matrix n n ℝ) (h : Q * Qᵀ = 1) : Real.log |Q.det| = 0 := by
  have h2 : Q.det * Q.det = 1 := by
    have := congrArg Matrix.det h
    rwa [Matrix.det_mul, Matrix.det_transpose, Matrix.det_one] at this
  have h3 : |Q.det| = 1 := by
    have : |Q.det| * |Q.det| = 1 := by rw [← abs_mul, h2, abs_one]
    nlinarith [abs_nonneg Q.det]
  rw [h3, Real.log_one]

/-- [cholesky] / [sqrtm]: 2 log|det L| = log|det P| when L Lᵀ = P (and when S S = P) -/
theorem lad_factor (L P : Matrix n n ℝ) (h : L * Lᵀ = P) (hL : L.det ≠ 0) :
    2 * Real.log |L.det| = Real.log |P.det| := by
  rw [← h, Matrix.det_mul, Matrix.det_transpose, abs_mul, Real.log_mul (abs_ne_zero.mpr hL) (abs_ne_zero.mpr hL)]
  ring

theorem lad_sqrtm (S P : Matrix n n ℝ) (h : S * S = P) (hS : S.det ≠ 0) :
    2 * Real.log |S.det| = Real.log |P.det| := by
  rw [← h, Matrix.det_mul, abs_mul, Real.log_mul (abs_ne_zero.mpr hS) (abs_ne_zero.mpr hS)]
  ring

/-- [lad-triangular] the determinant of a triangular matrix is the product of its diagonal -/
theorem det_lower_triangular {n : Type*} [Fintype n] [DecidableEq n] [LinearOrder n] (T : Matrix n n ℝ)
    (h : T.IsLowerTriangular) : T.det = ∏ i, T i i :=
  Matrix.det_of_isLowerTriangular T h

theorem det_upper_triangular {n : Type*} [Fintype n] [DecidableEq n] [LinearOrder n] (T : Matrix n n ℝ)
    (h : T.IsUpperTriangular) : T.det = ∏ i, T i i :=
  Matrix.det_of_isUpperTriangular h

end MiciLemmas
