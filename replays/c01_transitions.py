"""Native replay / bounded check for C01: EXACT enumeration of the transition kernels of the real transition classes on an integrator
orbit.  The integrator is a stub moving an integer index by `dir` (the orbit contract); H(idx) is an arbitrary table; every
`rng.uniform() < p` inside the transition is intercepted by a draw token that enumerates both outcomes with their exact probabilities
p and 1-p, `rng.integers` is enumerated uniformly, and for the slice class the slice level is integrated exactly (the kernel is
piecewise constant in the level).  For every end state x in a window the check compares
        sum_s  pi(s) K(s -> x)   with   pi(x)
over ALL start states that can reach x, and the reported statistics with ghost counts.
Usage: c01_transitions.py [json] ; exit 1 + REPRODUCED if a kernel is not invariant or a statistic is wrong."""
import json
import math
import sys

import numpy as np

from mici import transitions as T
from mici.errors import ConvergenceError
from mici.states import ChainState


class Ctl:
    def __init__(self):
        self.script = []
        self.pos = 0
        self.prob = 1.0
        self.pending = []
        self.first_uniform_value = None
        self.n_uniform = 0

    def decide(self, p):
        p = float(p.val) if hasattr(p, "val") else float(p)
        p = min(max(p, 0.0), 1.0) if not math.isnan(p) else 0.0
        if self.pos < len(self.script):
            c = self.script[self.pos]
        else:
            if p <= 0.0:
                c = False
            elif p >= 1.0:
                c = True
            else:
                c = True
                self.pending.append(self.script[: self.pos] + [False])
            self.script.append(c)
        self.pos += 1
        self.prob *= p if c else 1.0 - p
        return c


class U(float):
    def __new__(cls, ctl, value=0.5):
        o = float.__new__(cls, value)
        o.ctl = ctl
        return o

    def __lt__(self, p):
        return self.ctl.decide(p)


class Rng:
    def __init__(self, ctl, slice_u=None, n_step=None):
        self.ctl, self.slice_u, self.n_step = ctl, slice_u, n_step
        self.calls = 0

    def uniform(self):
        self.calls += 1
        if self.slice_u is not None and self.calls == 1:
            return self.slice_u  # consumed by np.log in SliceDynamicIntegrationTransition._init_aux_vars
        return U(self.ctl)

    def integers(self, lo, hi):
        return self.n_step


TABLE = 0


def h_table(i):
    if TABLE == 1:
        return 0.3 * abs(i) + 0.6 * math.cos(2.1 * i + 0.4)
    if TABLE == 2:
        return 0.02 * i ** 4 - 0.3 * i * i + 0.1 * i
    return 0.8 * math.sin(1.3 * i) + 0.05 * i * i


class System:
    def h(self, state):
        return h_table(int(round(float(state.pos[0]))))

    def dh_dmom(self, state):
        return state.mom


class Integrator:
    step_size = 0.1

    def __init__(self, fail_edges=()):
        self.n = 0
        self.fail_edges = set(fail_edges)

    def step(self, state):
        i = int(round(float(state.pos[0])))
        j = i + state.dir
        if (min(i, j), max(i, j)) in self.fail_edges:
            raise ConvergenceError("stub failure on this edge (symmetric: fails in both directions)")
        self.n += 1
        return ChainState(pos=np.array([float(j)]), mom=np.array([math.cos(0.7 * j)]), dir=state.dir)


def mk_state(i, d):
    return ChainState(pos=np.array([float(i)]), mom=np.array([math.cos(0.7 * i)]), dir=d)


def crit_table(system, s1, s2, sum_mom):
    lo, hi = int(round(float(s1.pos[0]))), int(round(float(s2.pos[0])))
    return ((lo * 7 + hi * 3 + (hi - lo)) % 5) == 0  # arbitrary function of the sub-trajectory's ends: symmetric by construction


CRITERIA = {"table": crit_table, "riemannian": T.riemannian_no_u_turn_criterion, "euclidean": T.euclidean_no_u_turn_criterion}


def enumerate_kernel(make_transition, start, d, slice_u=None, n_step=None, fail_edges=()):
    """returns {end index: probability}, and checks the statistics on every path"""
    out = {}
    bad = []
    pending = [[]]
    total = 0.0
    while pending:
        script = pending.pop()
        ctl = Ctl()
        ctl.script = list(script)
        integ = Integrator(fail_edges)
        tr = make_transition(System(), integ)
        st = mk_state(start, d)
        new, stats = tr.sample(st, Rng(ctl, slice_u, n_step))
        pending.extend(ctl.pending)
        x = int(round(float(new.pos[0])))
        key = (x, new.dir) if isinstance(tr, T.MetropolisIntegrationTransition) else x
        out[key] = out.get(key, 0.0) + ctl.prob
        total += ctl.prob
        if stats["n_step"] != integ.n:
            bad.append(("n_step", start, d, script, stats["n_step"], integ.n))
    if abs(total - 1.0) > 1e-9:
        bad.append(("path probabilities do not sum to 1", start, d, total))
    return out, bad


def check_metropolis(res):
    worst, bad = 0.0, []
    for name, mk, nsteps in (("MetropolisStatic(n=3)", lambda s, i: T.MetropolisStaticIntegrationTransition(s, i, n_step=3), [None]),
                             ("MetropolisRandom(1,4)", lambda s, i: T.MetropolisRandomIntegrationTransition(s, i, n_step_range=(1, 4)), [1, 2, 3])):
        for fail in ((), ((2, 3),)):
            K = {}
            for s in range(-8, 9):
                for d in (1, -1):
                    acc = {}
                    for n in nsteps:
                        k, b = enumerate_kernel(mk, s, d, n_step=n, fail_edges=fail)
                        bad += b
                        for x, p in k.items():
                            acc[x] = acc.get(x, 0.0) + p / len(nsteps)
                    K[(s, d)] = acc
            for x in range(-3, 4):
                for e in (1, -1):
                    tot = sum(math.exp(-h_table(s)) * K[(s, d)].get((x, e), 0.0) for (s, d) in K)
                    err = abs(tot - math.exp(-h_table(x)))
                    worst = max(worst, err)
                    if err > 1e-9:
                        bad.append((name, "fail_edges", fail, "end", (x, e), tot, math.exp(-h_table(x))))
    res["metropolis"] = {"ok": not bad, "max_err": worst, "witness": bad[:3]}


def check_multinomial(res, depth=3, crits=("table",)):
    worst, bad = 0.0, []
    for extra, cname in [(e, c) for e in (True, False) for c in crits]:
        for maxdh in (1000.0,):
            mk = lambda s, i: T.MultinomialDynamicIntegrationTransition(s, i, max_tree_depth=depth, max_delta_h=maxdh, termination_criterion=CRITERIA[cname], do_extra_subtree_checks=extra)
            R = 2 ** depth
            K = {}
            for s in range(-R - 2, R + 3):
                K[s], b = enumerate_kernel(mk, s, 1)
                bad += b
            for x in range(-2, 3):
                tot = sum(math.exp(-h_table(s)) * K[s].get(x, 0.0) for s in K)
                err = abs(tot - math.exp(-h_table(x)))
                worst = max(worst, err)
                if err > 1e-9:
                    bad.append(("Multinomial", "table", TABLE, "criterion", cname, "extra", extra, "end", x, tot, math.exp(-h_table(x))))
    res["multinomial"] = {"ok": not bad, "max_err": worst, "witness": bad[:3]}


def check_slice(res, depth=2, crits=("table",)):
    worst, bad = 0.0, []
    for extra, maxdh, cname in [(e, m, c) for (e, m) in ((True, 1000.0), (False, 0.9)) for c in crits]:
        mk = lambda s, i: T.SliceDynamicIntegrationTransition(s, i, max_tree_depth=depth, max_delta_h=maxdh, termination_criterion=CRITERIA[cname], do_extra_subtree_checks=extra)
        R = 2 ** depth
        starts = list(range(-R - 2, R + 3))
        window = list(range(-2 * R - 4, 2 * R + 5))
        pts = sorted({math.exp(-h_table(i)) for i in window} | {math.exp(maxdh - h_table(i)) for i in window if maxdh - h_table(i) < 50})
        top = max(math.exp(-h_table(s)) for s in starts)
        pts = [0.0] + [p for p in pts if p < top] + [top]
        acc = {x: 0.0 for x in range(-1, 2)}
        for vl, vr in zip(pts, pts[1:]):
            if vr - vl < 1e-15:
                continue
            vm = 0.5 * (vl + vr)
            for s in starts:
                ps = math.exp(-h_table(s))
                if ps <= vm:
                    continue
                k, b = enumerate_kernel(mk, s, 1, slice_u=vm / ps)
                bad += b
                for x in acc:
                    acc[x] += (vr - vl) * k.get(x, 0.0)
        for x, tot in acc.items():
            err = abs(tot - math.exp(-h_table(x)))
            worst = max(worst, err)
            if err > 1e-9:
                bad.append(("Slice", "table", TABLE, "criterion", cname, "extra", extra, "max_delta_h", maxdh, "end", x, tot, math.exp(-h_table(x))))
    res["slice"] = {"ok": not bad, "max_err": worst, "witness": bad[:3]}


def merge(res, part):
    for k, v in part.items():
        if k not in res:
            res[k] = v
        else:
            res[k] = {"ok": res[k]["ok"] and v["ok"], "max_err": max(res[k]["max_err"], v["max_err"]), "witness": (res[k]["witness"] + v["witness"])[:3]}


def job(args):
    global TABLE
    TABLE, kind, crit, depth = args
    part = {}
    if kind == "metropolis":
        check_metropolis(part)
    elif kind == "multinomial":
        check_multinomial(part, depth=depth, crits=(crit,))
    else:
        check_slice(part, depth=depth, crits=(crit,))
    return part


def main():
    res = {}
    thorough = "thorough" in sys.argv[1:]
    jobs = []
    for table in ((0, 1, 2) if thorough else (0,)):
        jobs.append((table, "metropolis", None, None))
        for crit in (("table", "riemannian", "euclidean") if thorough else ("table", "riemannian")):
            jobs.append((table, "multinomial", crit, 3))
        for crit in (("table", "riemannian", "euclidean") if thorough else ("table",)):
            jobs.append((table, "slice", crit, 3 if thorough and table == 0 and crit == "table" else 2))
    if thorough:
        import multiprocessing as mp
        with mp.get_context("fork").Pool(min(16, len(jobs))) as pool:
            parts = pool.map(job, jobs, chunksize=1)
    else:
        parts = [job(j) for j in jobs]
    for part in parts:
        merge(res, part)
    if "json" in sys.argv[1:]:
        print(json.dumps(res, default=str))
        return 0
    badk = [k for k, v in res.items() if not v["ok"]]
    if badk:
        print("REPRODUCED: transition kernel not invariant / statistic wrong:", {k: res[k]["witness"] for k in badk})
        return 1
    print("not reproduced: exact kernels invariant on the enumerated orbit windows", {k: v["max_err"] for k, v in res.items()})
    return 0


if __name__ == "__main__":
    sys.exit(main())
