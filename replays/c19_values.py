"""Native replay for C19: operands / caller arrays unchanged by every operation, results independent of the order in which lazily
computed attributes are requested, parameters read-only, equality/hash/copies.  Exit 1 + REPRODUCED on a violation."""
import copy
import itertools
import pickle
import sys

import numpy as np

from mici import matrices as M

rng = np.random.default_rng(12)
n = 3
A = rng.normal(size=(n, n)) + 3 * np.eye(n)
L = np.tril(A)
Q, _ = np.linalg.qr(A)
w, wp = np.array([1.0, -2.0, 3.0]), np.array([1.0, 2.0, 3.0])
P = L @ L.T
U, V, F = rng.normal(size=(n, 2)) * 0.5, rng.normal(size=(2, n)) * 0.5, rng.normal(size=(n, 2)) * 0.3
K = np.array([[1.0, 0.2], [0.2, 0.7]])

MAKERS = {
    "Identity": lambda: M.IdentityMatrix(n), "ScaledIdentity": lambda: M.ScaledIdentityMatrix(-2.0, n), "Diagonal": lambda: M.DiagonalMatrix(w.copy()),
    "Triangular": lambda: M.TriangularMatrix(L.copy()), "InverseTriangular": lambda: M.InverseTriangularMatrix(L.copy()),
    "TriFactored-": lambda: M.TriangularFactoredDefiniteMatrix(L.copy(), sign=-1, factor_is_lower=True), "DensePD": lambda: M.DensePositiveDefiniteMatrix(P.copy()),
    "DenseSquare": lambda: M.DenseSquareMatrix(A.copy()), "DenseSquare.inv": lambda: M.DenseSquareMatrix(A.copy()).inv,
    "DenseSymmetric": lambda: M.DenseSymmetricMatrix(Q @ np.diag(w) @ Q.T), "Orthogonal": lambda: M.OrthogonalMatrix(Q.copy()),
    "EigPD": lambda: M.EigendecomposedPositiveDefiniteMatrix(Q.copy(), wp.copy()), "SoftAbs": lambda: M.SoftAbsRegularizedPositiveDefiniteMatrix(Q @ np.diag(w) @ Q.T, 1.2),
    "BlockDiag": lambda: M.PositiveDefiniteBlockDiagonalMatrix((M.DensePositiveDefiniteMatrix(P.copy()), M.PositiveDiagonalMatrix(wp.copy()))),
    "SquareLowRank": lambda: M.SquareLowRankUpdateMatrix(M.DenseRectangularMatrix(U.copy()), M.DenseRectangularMatrix(V.copy()), M.DenseSquareMatrix(A.copy()), M.DenseSquareMatrix(K.copy())),
    "SquareLowRank-": lambda: M.SquareLowRankUpdateMatrix(M.DenseRectangularMatrix(U.copy()), M.DenseRectangularMatrix(V.copy()), M.DenseSquareMatrix(A.copy()), sign=-1),
    "SymLowRank(identity outer)": lambda: M.SymmetricLowRankUpdateMatrix(M.DenseRectangularMatrix(F.copy()), M.IdentityMatrix(n), M.DensePositiveDefiniteMatrix(K.copy())),
    "PDLowRank": lambda: M.PositiveDefiniteLowRankUpdateMatrix(M.DenseRectangularMatrix(F.copy()), M.PositiveDiagonalMatrix(wp.copy()), M.DensePositiveDefiniteMatrix(K.copy())),
    "PDLowRank-": lambda: M.PositiveDefiniteLowRankUpdateMatrix(M.DenseRectangularMatrix(F.copy() * 0.5), M.PositiveDiagonalMatrix(wp.copy()), sign=-1),
    "Product": lambda: M.DenseSquareMatrix(A.copy()) @ M.TriangularMatrix(L.copy()),
}
LAZY = ["T", "inv", "sqrt", "eigval", "eigvec", "log_abs_det", "diagonal", "array", "capacitance_matrix", "lu_and_piv", "factor", "__hash__"]


def touch(o, attr):
    try:
        v = getattr(o, attr)
        return v() if attr == "__hash__" else v
    except Exception:  # noqa: BLE001
        return None


def observe(o):
    """a tuple of observable results of o (and of its transpose / inverse / sqrt)"""
    v = np.linspace(0.3, 1.1, o.shape[1])
    out = [np.asarray(o.array, dtype=float), np.asarray(o @ v, dtype=float)]
    for attr in ("T", "inv", "sqrt"):
        d = touch(o, attr)
        if d is not None and hasattr(d, "array"):
            try:
                out.append(np.asarray(d @ np.linspace(0.2, 0.9, d.shape[1]), dtype=float))
                if attr != "sqrt" and hasattr(d, "inv"):
                    out.append(np.asarray(d.inv @ np.linspace(0.2, 0.9, d.shape[0]), dtype=float))
                if hasattr(d, "T"):
                    out.append(np.asarray(d.T @ np.linspace(0.2, 0.9, d.T.shape[1]), dtype=float))
            except Exception:  # noqa: BLE001
                pass
    ld = touch(o, "log_abs_det")
    if ld is not None:
        out.append(np.asarray(ld, dtype=float))
    return out


def main():
    fails = []
    for name, mk in MAKERS.items():
        ref = observe(mk())
        # (1) evaluation-order independence
        for order in list(itertools.permutations(["log_abs_det", "inv", "T", "sqrt"], 2)) + [("capacitance_matrix", "T"), ("lu_and_piv", "T"), ("eigval", "inv"), ("__hash__", "inv")]:
            o = mk()
            for a in order:
                d = touch(o, a)
                if a in ("T", "inv") and d is not None:
                    touch(d, "inv"), touch(d, "T"), touch(d, "log_abs_det")
            got = observe(o)
            for k, (g, r) in enumerate(zip(got, ref)):
                if g.shape != r.shape or not np.allclose(g, r, rtol=1e-9, atol=1e-10):
                    fails.append(f"{name}: results after requesting {order} first differ from a fresh object's (observation {k}, max diff {np.max(np.abs(g - r)) if g.shape == r.shape else 'shape'})")
                    break
        # (2) caller arrays untouched, repeated calls agree
        o = mk()
        for tgt_name, tgt in (("self", o), ("T", touch(o, "T")), ("inv", touch(o, "inv")), ("sqrt", touch(o, "sqrt"))):
            if tgt is None or not hasattr(tgt, "shape"):
                continue
            v = rng.normal(size=tgt.shape[1])
            B = rng.normal(size=(tgt.shape[1], 2))
            lv = rng.normal(size=tgt.shape[0])
            for lab, arr, op in (("@ vector", v, lambda: tgt @ v), ("@ matrix", B, lambda: tgt @ B), ("vector @", lv, lambda: lv @ tgt)):
                keep = arr.copy()
                try:
                    r1 = np.array(op(), dtype=float)
                    r2 = np.array(op(), dtype=float)
                except Exception:  # noqa: BLE001
                    continue
                if not np.array_equal(arr, keep):
                    fails.append(f"{name}.{tgt_name} {lab}: the caller's array was modified in place")
                elif not np.allclose(r1, r2):
                    fails.append(f"{name}.{tgt_name} {lab}: two identical calls return different results")
        # (3) value semantics
        a, b = mk(), mk()
        if not (a == b and hash(a) == hash(b)):
            fails.append(f"{name}: equal parameters but == {a == b}, hash equal {hash(a) == hash(b)}")
        for how, cp in (("copy", copy.copy), ("deepcopy", copy.deepcopy), ("pickle", lambda x: pickle.loads(pickle.dumps(x)))):
            c = cp(a)
            if not (c == a and hash(c) == hash(a) and np.array_equal(np.asarray(c.array), np.asarray(a.array))):
                fails.append(f"{name}: {how} differs from the original")
    x, y = MAKERS["SquareLowRank-"](), M.SquareLowRankUpdateMatrix(M.DenseRectangularMatrix(U.copy()), M.DenseRectangularMatrix(V.copy()), M.DenseSquareMatrix(A.copy()), sign=1)
    if x == y and not np.allclose(x.array, y.array):
        fails.append("SquareLowRankUpdateMatrix: update and down-date with the same factors compare equal but have different arrays")
    for nm, arr, mk in (("DiagonalMatrix", w.copy(), lambda a: M.DiagonalMatrix(a)), ("DenseSquareMatrix", A.copy(), lambda a: M.DenseSquareMatrix(a)),
                        ("OrthogonalMatrix", Q.copy(), lambda a: M.OrthogonalMatrix(a))):
        o = mk(arr)
        try:
            arr[0] = 99.0
            fails.append(f"{nm}: the parameter array can still be modified in place after construction")
        except ValueError:
            pass
    if fails:
        print("REPRODUCED:", fails[0])
        for f in fails[1:5]:
            print("  also:", f)
        sys.exit(1)
    print("not reproduced")


main()
