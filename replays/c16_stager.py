"""Native replay for C16 stager obligations: runs the real stagers on the verifier's
counter-model (and, failing that, on a small neighbourhood sweep) and checks the
partition property directly. Exit 1 + REPRODUCED if the property is violated."""
import json
import sys
from fractions import Fraction

from mici.stagers import WarmUpStager, WindowedWarmUpStager


class A:
    def __init__(self, fast):
        self.is_fast = fast


def num(w, k, d):
    v = w.get(k)
    if v is None:
        return d
    try:
        f = Fraction(v.replace("?", ""))
        return int(f) if f.denominator == 1 else float(f)
    except Exception:
        return d


def violates(stager, n_w, n_m, twu, mix=(True, False)):
    objs = [A(f) for f in mix]
    fa, sa = A(True), A(False)
    adapters = {"integration_transition": objs}
    tfs = [lambda s: {}]
    try:
        st = stager.stages(n_w, n_m, adapters, tfs, trace_warm_up=twu)
    except Exception as e:  # noqa: BLE001
        return f"raised {type(e).__name__}: {e}"
    items = list(st.items())
    if n_m > 0:
        if not items or items[-1][0] != "Main non-adaptive":
            return "main stage not last"
        k, m = items[-1]
        if m.n_iter != n_m or m.adapters is not None or m.record_stats is not True:
            return f"main stage wrong: {m}"
        warm = items[:-1]
    else:
        warm = items
        if any(k == "Main non-adaptive" for k, _ in items):
            return "main stage emitted for n_main_iter=0"
    if sum(s.n_iter for _, s in warm) != n_w:
        return f"warm-up lengths {[s.n_iter for _, s in warm]} do not sum to {n_w}"
    if any(s.n_iter < 0 for _, s in warm):
        return f"negative stage length {[s.n_iter for _, s in warm]}"
    for k, s in warm:
        if s.adapters is None:
            return f"warm-up stage {k} without adapters"
        if (s.trace_funcs is not None) != twu or s.record_stats != twu:
            return f"stage {k} traces/stats do not follow trace_warm_up"
        if isinstance(stager, WindowedWarmUpStager):
            want = [a for a in objs if a.is_fast] if "fast" in k else objs
            if list(s.adapters["integration_transition"]) != want:
                return f"stage {k} has adapters fast={[a.is_fast for a in s.adapters['integration_transition']]}"
    if isinstance(stager, WindowedWarmUpStager) and n_w > 0:
        names = [k for k, _ in warm]
        if names[0] != "Initial fast adaptive" or names[-1] != "Final fast adaptive" or len(names) < 3:
            return f"stage order {names}"
    return None


def main():
    w = json.loads(sys.argv[1]) if len(sys.argv) > 1 else {}
    which = sys.argv[2] if len(sys.argv) > 2 else "windowed"
    n_w, n_m = num(w, "n_warm_up_iter", 100), num(w, "n_main_iter", 10)
    cfgs = []
    if which == "windowed":
        cfgs.append(dict(n_init_slow_window_iter=num(w, "cfg_n_init_slow_window_iter", 25),
                         n_init_fast_stage_iter=num(w, "cfg_n_init_fast_stage_iter", 75),
                         n_final_fast_stage_iter=num(w, "cfg_n_final_fast_stage_iter", 50),
                         slow_window_multiplier=num(w, "cfg_slow_window_multiplier", 2.0)))
        cfgs.append({})
        cfgs.append(dict(n_init_slow_window_iter=3, n_init_fast_stage_iter=2, n_final_fast_stage_iter=1,
                         slow_window_multiplier=1.5))
    tries = [(n_w, n_m)] + [(a, b) for a in list(range(0, 400)) + [1000, 4097] for b in (0, 7)]
    for cfg in (cfgs or [None]):
        stager = WindowedWarmUpStager(**cfg) if which == "windowed" else WarmUpStager()
        for (a, b) in tries:
            for twu in (False, True):
                for mix in ((True, False), (False,), (True,), ()):
                    r = violates(stager, a, b, twu, mix)
                    if r:
                        print(f"REPRODUCED: {type(stager).__name__}({cfg}).stages({a}, {b}, trace_warm_up={twu}), adapters is_fast={list(mix)}: {r}")
                        sys.exit(1)
    print("not reproduced on the counter-model or the neighbourhood sweep")
    sys.exit(0)


main()
