"""Native replay for C04: real projection solvers / constrained integrator on a family of constraints; after every
successful solve: |c(q)| < tol and the corrections have the Lagrange-multiplier form with ONE multiplier
(M (pos0 - pos) / t == mom0 - mom for Euclidean-metric systems); after every integrator step: constraint and
cotangent residuals small.  Exit 1 + REPRODUCED otherwise."""
import sys

import numpy as np

from mici import integrators as I, solvers as so, systems as S
from mici.errors import IntegratorError
from mici.states import ChainState


def families():
    out = []
    out.append(("sphere", lambda q: np.array([q @ q - 1.0]), lambda q: 2 * q[None, :], np.array([0.6, 0.8, 0.0])))
    out.append(("kink", lambda q: np.array([q[0] + 2.0 * abs(q[1]) - 1.0]),
                lambda q: np.array([[1.0, 2.0 * np.sign(q[1]) if q[1] != 0 else 0.0, 0.0]]), np.array([0.4, 0.3, 0.1])))
    out.append(("cubic", lambda q: np.array([q[0] ** 3 + q[1] - 0.5]), lambda q: np.array([[3 * q[0] ** 2, 1.0, 0.0]]), np.array([0.5, 0.375, 0.2])))
    out.append(("two", lambda q: np.array([q @ q - 1.0, q[2] - 0.1 * q[0] ** 2]),
                lambda q: np.array([2 * q, [-0.2 * q[0], 0.0, 1.0]]), None))
    return out


def pwl_case(fails):
    """piecewise-linear graph constraint on which the backtracking line search is exhausted (max_line_search_iters=1)"""
    cases = [([-0.8687674352607315, 0.26660940163801783, -2.7369519773898947], [-0.4476257561895929, -0.15918818955691938],
              -0.08175606441553374, [-0.3290106369616451, 0.9004863134144832], 0.5),
             ([-1.804884934730846, 0.23014665861984795, -0.925059289245338], [0.37163154101077, 0.8851063706377189],
              0.17374423724447796, [0.28997111173242973, -0.5233644910730173], 2.0)]
    for k, xs, x0, mom, t in cases:
        def g(x):
            y = k[0] * min(x, xs[0])
            if x > xs[0]:
                y += k[1] * (min(x, xs[1]) - xs[0])
            if x > xs[1]:
                y += k[2] * (x - xs[1])
            return y

        def dg(x):
            return k[0] if x <= xs[0] else (k[1] if x <= xs[1] else k[2])
        sysm = S.DenseConstrainedEuclideanMetricSystem(lambda q: 0.0, lambda q: np.array([g(q[0]) - q[1]]), grad_neg_log_dens=lambda q: 0 * q,
                                                       jacob_constr=lambda q: np.array([[dg(q[0]), -1.0]]))
        prev = ChainState(pos=np.array([x0, g(x0)]), mom=np.array(mom), dir=1)
        st = prev.copy()
        sysm.h2_flow(st, t)
        pos0, mom0 = st.pos.copy(), st.mom.copy()
        try:
            so.solve_projection_onto_manifold_newton_with_line_search(st, prev, t, sysm, max_line_search_iters=1)
        except IntegratorError:
            continue
        lhs, rhs = (pos0 - st.pos) / t, mom0 - st.mom
        if np.max(np.abs(lhs - rhs)) > 1e-7:
            fails.append(f"newton_with_line_search(max_line_search_iters=1) on a piecewise-linear graph constraint (t={t}): returned on the manifold "
                         f"but (pos0-pos)/t = {lhs} != mom0-mom = {rhs}: position and momentum corrections use different multipliers")


def main():
    fails = []
    pwl_case(fails)
    rng = np.random.default_rng(3)
    metrics = [None, np.array([1.0, 2.0, 0.5]), np.array([[2.0, 0.3, 0.0], [0.3, 1.0, 0.1], [0.0, 0.1, 1.5]])]
    for name, c, jc, q0 in families():
        for metric in metrics:
            sysm = S.DenseConstrainedEuclideanMetricSystem(lambda q: 0.5 * q @ q, c, metric=metric, grad_neg_log_dens=lambda q: q, jacob_constr=jc)
            M = np.eye(3) if metric is None else (np.diag(metric) if metric.ndim == 1 else metric)
            if q0 is None:
                q0_ = np.array([0.6, 0.8, 0.0])
                for _ in range(50):
                    r = c(q0_)
                    J = jc(q0_)
                    q0_ = q0_ - J.T @ np.linalg.solve(J @ J.T, r)
            else:
                q0_ = q0
            for solver, kw in ((so.solve_projection_onto_manifold_quasi_newton, {}), (so.solve_projection_onto_manifold_newton, {}),
                               (so.solve_projection_onto_manifold_newton_with_line_search, {"max_line_search_iters": 1}),
                               (so.solve_projection_onto_manifold_newton_with_line_search, {"max_line_search_iters": 2}),
                               (so.solve_projection_onto_manifold_newton_with_line_search, {})):
                for trial in range(40):
                    t = float(rng.choice([0.05, 0.3, 0.8, -0.4, 1.5]))
                    prev = ChainState(pos=q0_.copy(), mom=None, dir=1)
                    p = sysm.project_onto_cotangent_space(rng.normal(size=3), prev)
                    prev.mom = p
                    st = prev.copy()
                    sysm.h2_flow(st, t)
                    pos0, mom0 = st.pos.copy(), st.mom.copy()
                    try:
                        solver(st, prev, t, sysm, **kw)
                    except IntegratorError:
                        continue
                    except Exception as e:  # noqa: BLE001
                        fails.append(f"{solver.__name__} on {name}: foreign {type(e).__name__}: {e}")
                        continue
                    res = np.max(np.abs(c(st.pos)))
                    if not res < 1e-8:
                        fails.append(f"{solver.__name__}{kw} on {name}: returned with |c| = {res:.2e}")
                    lhs = M @ (pos0 - st.pos) / t
                    rhs = mom0 - st.mom
                    if np.max(np.abs(lhs - rhs)) > 1e-7 * (1 + np.max(np.abs(lhs))):
                        fails.append(f"{solver.__name__}{kw} on {name} (t={t}): position and momentum corrections use different multipliers: "
                                     f"M(pos0-pos)/t = {lhs}, mom0-mom = {rhs}")
            # integrator level
            for n_inner in (1, 3):
                integ = I.ConstrainedLeapfrogIntegrator(sysm, 0.2, n_inner_step=n_inner)
                st = ChainState(pos=q0_.copy(), mom=None, dir=1)
                st.mom = sysm.project_onto_cotangent_space(rng.normal(size=3), st)
                try:
                    for _ in range(5):
                        st = integ.step(st)
                except IntegratorError:
                    continue
                if np.max(np.abs(c(st.pos))) > 1e-7 or np.max(np.abs(jc(st.pos) @ np.linalg.solve(M, st.mom))) > 1e-7:
                    fails.append(f"ConstrainedLeapfrog on {name}: after 5 steps |c|={np.max(np.abs(c(st.pos))):.2e}, |J M^-1 p|={np.max(np.abs(jc(st.pos) @ np.linalg.solve(M, st.mom))):.2e}")
    if fails:
        print("REPRODUCED:", fails[0])
        for f in fails[1:4]:
            print("  also:", f)
        sys.exit(1)
    print("not reproduced")


main()
