"""Bounded native check / replay (C08, C10): for every positive definite class, on WELL- and ILL-conditioned instances (condition number 1e10), the square-root
factor satisfies sqrt @ sqrt.T == matrix (to 1e-12 relative to the matrix norm) whatever lazily computed attribute was requested first
(eigval / eigvec / inv / log_abs_det / T / nothing).  Prints a JSON line; `check` exits 1 + REPRODUCED on a failure."""
import itertools
import json
import sys

import numpy as np

from mici import matrices as M


def spd(n, cond, seed):
    rng = np.random.default_rng(seed)
    Q, _ = np.linalg.qr(rng.standard_normal((n, n)))
    w = np.logspace(0, -np.log10(cond), n)
    return Q, w, (Q * w) @ Q.T


def makers():
    out = {}
    for cond in (10.0, 1e10):
        Q, w, P = spd(4, cond, 3)
        L = np.linalg.cholesky(P)
        F = np.random.default_rng(5).standard_normal((4, 2)) * 0.3
        tag = f"cond={cond:g}"
        out[f"DensePositiveDefiniteMatrix[{tag}]"] = lambda P=P: M.DensePositiveDefiniteMatrix(P.copy())
        out[f"TriangularFactoredPositiveDefiniteMatrix[{tag}]"] = lambda L=L: M.TriangularFactoredPositiveDefiniteMatrix(L.copy())
        out[f"EigendecomposedPositiveDefiniteMatrix[{tag}]"] = lambda Q=Q, w=w: M.EigendecomposedPositiveDefiniteMatrix(Q.copy(), w.copy())
        out[f"PositiveDiagonalMatrix[{tag}]"] = lambda w=w: M.PositiveDiagonalMatrix(w.copy())
        out[f"PositiveDefiniteLowRankUpdateMatrix[{tag}]"] = lambda P=P, F=F: M.PositiveDefiniteLowRankUpdateMatrix(M.DenseRectangularMatrix(F.copy()), M.DensePositiveDefiniteMatrix(P.copy()))
        out[f"PositiveDefiniteBlockDiagonalMatrix[{tag}]"] = lambda P=P, w=w: M.PositiveDefiniteBlockDiagonalMatrix((M.DensePositiveDefiniteMatrix(P.copy()), M.PositiveDiagonalMatrix(w[:2].copy())))
        out[f"DensePositiveDefiniteMatrix.inv[{tag}]"] = lambda P=P: M.DensePositiveDefiniteMatrix(P.copy()).inv
    return out


def main():
    res = {}
    firsts = [(), ("eigval",), ("eigvec",), ("eigval", "eigvec"), ("inv",), ("log_abs_det",), ("T",), ("eigval", "inv")]
    for name, mk in makers().items():
        bad = []
        for first in firsts:
            try:
                X = mk()
                A = np.asarray(mk().array, dtype=float)
                for a in first:
                    getattr(X, a)
                S = np.asarray(X.sqrt.array, dtype=float)
                err = np.abs(S @ S.T - A).max() / np.abs(A).max()
                z = np.random.default_rng(1).standard_normal(A.shape[0])
                err2 = np.abs(X.sqrt @ z - S @ z).max() / (1 + np.abs(S @ z).max())
                if not (err < 1e-12 and err2 < 1e-12):
                    bad.append(f"after {list(first) or 'nothing'}: |sqrt sqrt^T - M| / |M| = {err:.2e}")
            except Exception as e:  # noqa: BLE001
                bad.append(f"after {list(first)}: {type(e).__name__}: {e}")
        res[name] = bad
    print(json.dumps(res))
    if len(sys.argv) > 1 and sys.argv[1] == "check":
        b = {k: v for k, v in res.items() if v}
        if b:
            k = next(iter(b))
            print("REPRODUCED:", k, b[k][0])
            sys.exit(1)
        print("not reproduced")


main()
