"""Bounded native check / replay for C11 (and C10): the gradients (and the operator) reported by every differentiable matrix
class depend on the VALUES of the parameter arrays only, not on their dtype: integer-valued parameters stored with an integer
dtype give the same results as the same values stored as float64.  Prints a JSON line; with argument `check` exits 1 +
REPRODUCED on a difference."""
import json
import sys

import numpy as np

from mici import matrices as M


def flat(g):
    if isinstance(g, tuple):
        return np.concatenate([flat(x) for x in g])
    return np.atleast_1d(np.asarray(g, dtype=float)).ravel()


def builders():
    d = np.array([1, 2, 4, 3])
    L = np.array([[2, 0, 0], [1, 3, 0], [-1, 2, 4]])
    A = L @ L.T
    F = np.array([[1, 0], [2, 1], [0, -1]])
    R = np.array([[1, 2, 0], [0, 1, 3]])
    out = [("DiagonalMatrix", lambda t: M.DiagonalMatrix(d.astype(t) * np.array([1, -1, 1, 1]).astype(t)), 4),
           ("PositiveDiagonalMatrix", lambda t: M.PositiveDiagonalMatrix(d.astype(t)), 4),
           ("ScaledIdentityMatrix", lambda t: M.ScaledIdentityMatrix(t(-3), 3), 3), ("PositiveScaledIdentityMatrix", lambda t: M.PositiveScaledIdentityMatrix(t(2), 3), 3),
           ("TriangularFactoredDefiniteMatrix", lambda t: M.TriangularFactoredDefiniteMatrix(L.astype(t), sign=-1, factor_is_lower=True), 3),
           ("TriangularFactoredPositiveDefiniteMatrix", lambda t: M.TriangularFactoredPositiveDefiniteMatrix(L.astype(t), factor_is_lower=True), 3),
           ("DensePositiveDefiniteMatrix", lambda t: M.DensePositiveDefiniteMatrix(A.astype(t)), 3),
           ("DenseDefiniteMatrix", lambda t: M.DenseDefiniteMatrix((-A).astype(t), is_posdef=False), 3),
           ("DensePositiveDefiniteProductMatrix", lambda t: M.DensePositiveDefiniteProductMatrix(R.astype(t), M.PositiveDiagonalMatrix(d[:3].astype(t))), 2),
           ("PositiveDefiniteLowRankUpdateMatrix", lambda t: M.PositiveDefiniteLowRankUpdateMatrix(M.DenseRectangularMatrix(F.astype(t)), M.PositiveDiagonalMatrix(d[:3].astype(t))), 3),
           ("PositiveDefiniteBlockDiagonalMatrix", lambda t: M.PositiveDefiniteBlockDiagonalMatrix((M.PositiveDiagonalMatrix(d[:2].astype(t)), M.PositiveScaledIdentityMatrix(t(5), 1))), 3)]
    return out


def main():
    res = {}
    for name, mk, n in builders():
        v = np.arange(1, n + 1).astype(float)
        vi = np.arange(1, n + 1)
        diffs = {}
        try:
            Xi, Xf = mk(np.int64), mk(np.float64)
            pairs = {"array": (np.asarray(Xi.array, dtype=float), np.asarray(Xf.array, dtype=float)),
                     "grad_log_abs_det": (flat(Xi.grad_log_abs_det), flat(Xf.grad_log_abs_det)),
                     "grad_quadratic_form_inv": (flat(Xi.grad_quadratic_form_inv(v)), flat(Xf.grad_quadratic_form_inv(v))),
                     "grad_quadratic_form_inv[int vector]": (flat(Xi.grad_quadratic_form_inv(vi)), flat(Xf.grad_quadratic_form_inv(v))),
                     "inv @ v": (np.asarray(Xi.inv @ v, dtype=float), np.asarray(Xf.inv @ v, dtype=float)),
                     "log_abs_det": (np.atleast_1d(float(Xi.log_abs_det)), np.atleast_1d(float(Xf.log_abs_det)))}
            for k, (a, b) in pairs.items():
                if a.shape != b.shape or not np.allclose(a, b, rtol=1e-10, atol=1e-12):
                    diffs[k] = f"int64 parameters give {np.round(a, 6).tolist()}, float64 parameters give {np.round(b, 6).tolist()}"
        except Exception as e:  # noqa: BLE001
            diffs["exception"] = f"{type(e).__name__}: {e}"
        res[name] = diffs
    print(json.dumps(res))
    if len(sys.argv) > 1 and sys.argv[1] != "json":
        bad = {k: v for k, v in res.items() if v}
        if bad:
            k = next(iter(bad))
            print("REPRODUCED:", k, bad[k])
            sys.exit(1)
        print("not reproduced")


main()
