"""Bounded native check / replay for C11 (and C10): the gradients (and the operator) reported by every differentiable matrix
class depend on the VALUES of the parameter arrays only, not on their dtype: integer-valued parameters stored with an integer
dtype give the same results as the same values stored as float64.  Prints a JSON line; with argument `check` exits 1 +
REPRODUCED on a difference."""
import json
import sys

import numpy as np

from mici import matrices as M


def flat(g):
    if isinstance(g, tuple):
        return np.concatenate([flat(x) for x in g])
    return np.atleast_1d(np.asarray(g, dtype=float)).ravel()


def builders():
    d = np.array([1, 2, 4, 3])
    L = np.array([[2, 0, 0], [1, 3, 0], [-1, 2, 4]])
    A = L @ L.T
    F = np.array([[1, 0], [2, 1], [0, -1]])
    R = np.array([[1, 2, 0], [0, 1, 3]])
    out = [("DiagonalMatrix", lambda t: M.DiagonalMatrix(d.astype(t) * np.array([1, -1, 1, 1]).astype(t)), 4),
           ("PositiveDiagonalMatrix", lambda t: M.PositiveDiagonalMatrix(d.astype(t)), 4),
           ("ScaledIdentityMatrix", lambda t: M.ScaledIdentityMatrix(t(-3), 3), 3), ("PositiveScaledIdentityMatrix", lambda t: M.PositiveScaledIdentityMatrix(t(2), 3), 3),
           ("TriangularFactoredDefiniteMatrix", lambda t: M.TriangularFactoredDefiniteMatrix(L.astype(t), sign=-1, factor_is_lower=True), 3),
           ("TriangularFactoredPositiveDefiniteMatrix", lambda t: M.TriangularFactoredPositiveDefiniteMatrix(L.astype(t), factor_is_lower=True), 3),
           ("DensePositiveDefiniteMatrix", lambda t: M.DensePositiveDefiniteMatrix(A.astype(t)), 3),
           ("DenseDefiniteMatrix", lambda t: M.DenseDefiniteMatrix((-A).astype(t), is_posdef=False), 3),
           ("DensePositiveDefiniteProductMatrix", lambda t: M.DensePositiveDefiniteProductMatrix(R.astype(t), M.PositiveDiagonalMatrix(d[:3].astype(t))), 2),
           ("PositiveDefiniteLowRankUpdateMatrix", lambda t: M.PositiveDefiniteLowRankUpdateMatrix(M.DenseRectangularMatrix(F.astype(t)), M.PositiveDiagonalMatrix(d[:3].astype(t))), 3),
           ("PositiveDefiniteBlockDiagonalMatrix", lambda t: M.PositiveDefiniteBlockDiagonalMatrix((M.PositiveDiagonalMatrix(d[:2].astype(t)), M.PositiveScaledIdentityMatrix(t(5), 1))), 3)]
    return out


def operand_instances():
    rng = np.random.default_rng(2)
    n = 4
    A = rng.normal(size=(n, n)) + 3 * np.eye(n)
    B2 = rng.normal(size=(2, 2)) + 3 * np.eye(2)
    L = np.tril(A)
    P = A @ A.T
    Q, _ = np.linalg.qr(A)
    w = np.array([1.5, -2.0, 3.0, 0.5])
    wp = np.abs(w)
    U, V = rng.normal(size=(n, 2)), rng.normal(size=(2, n))
    return [("IdentityMatrix", M.IdentityMatrix(n)), ("ScaledIdentityMatrix", M.ScaledIdentityMatrix(-1.5, n)), ("DiagonalMatrix", M.DiagonalMatrix(w)),
            ("TriangularMatrix", M.TriangularMatrix(L)), ("InverseTriangularMatrix", M.InverseTriangularMatrix(L)),
            ("TriangularFactoredDefiniteMatrix", M.TriangularFactoredDefiniteMatrix(L, sign=-1, factor_is_lower=True)), ("DensePositiveDefiniteMatrix", M.DensePositiveDefiniteMatrix(P)),
            ("DenseSquareMatrix", M.DenseSquareMatrix(A)), ("InverseLUFactoredSquareMatrix", M.DenseSquareMatrix(A).inv), ("DenseSymmetricMatrix", M.DenseSymmetricMatrix((A + A.T) / 2)),
            ("OrthogonalMatrix", M.OrthogonalMatrix(Q)), ("ScaledOrthogonalMatrix", M.ScaledOrthogonalMatrix(0.7, Q)), ("EigendecomposedSymmetricMatrix", M.EigendecomposedSymmetricMatrix(Q, w)),
            ("EigendecomposedPositiveDefiniteMatrix", M.EigendecomposedPositiveDefiniteMatrix(Q, wp)), ("SoftAbsRegularizedPositiveDefiniteMatrix", M.SoftAbsRegularizedPositiveDefiniteMatrix((A + A.T) / 2, 1.3)),
            ("SquareBlockDiagonalMatrix", M.SquareBlockDiagonalMatrix((M.DenseSquareMatrix(B2), M.ScaledIdentityMatrix(-2.0, 2)))),
            ("SymmetricBlockDiagonalMatrix", M.SymmetricBlockDiagonalMatrix((M.DenseSymmetricMatrix((B2 + B2.T) / 2), M.DiagonalMatrix(w[:2])))),
            ("PositiveDefiniteBlockDiagonalMatrix", M.PositiveDefiniteBlockDiagonalMatrix((M.DensePositiveDefiniteMatrix(B2 @ B2.T), M.PositiveDiagonalMatrix(wp[:2])))),
            ("DenseRectangularMatrix", M.DenseRectangularMatrix(V)), ("BlockRowMatrix", M.BlockRowMatrix((M.DenseRectangularMatrix(U), M.DenseSquareMatrix(A)))),
            ("BlockColumnMatrix", M.BlockColumnMatrix((M.DenseRectangularMatrix(V), M.DenseSquareMatrix(A)))),
            ("SquareLowRankUpdateMatrix", M.SquareLowRankUpdateMatrix(M.DenseRectangularMatrix(U), M.DenseRectangularMatrix(V), M.DenseSquareMatrix(A))),
            ("PositiveDefiniteLowRankUpdateMatrix", M.PositiveDefiniteLowRankUpdateMatrix(M.DenseRectangularMatrix(U), M.PositiveDefiniteBlockDiagonalMatrix((M.DensePositiveDefiniteMatrix(B2 @ B2.T), M.PositiveDiagonalMatrix(wp[:2]))))),
            ("MatrixProduct", M.DenseSquareMatrix(A) @ M.TriangularMatrix(L))]


def operands():
    """products with operands of integer / boolean / float32 dtype agree with the dense product computed in float64"""
    res = {}
    for name, X in operand_instances():
        diffs = {}
        try:
            D = np.asarray(X.array, dtype=float)
            r, c = D.shape
            derived = [("X", X, D), ("X.T", X.T, D.T)]
            if r == c and isinstance(X, M.InvertibleMatrix):
                derived.append(("X.inv", X.inv, np.linalg.inv(D)))
            if isinstance(X, M.PositiveDefiniteMatrix):
                derived.append(("X.sqrt", X.sqrt, None))
            for lab, Y, DY in derived:
                DY = np.asarray(Y.array, dtype=float) if DY is None else DY
                for kind, vec in (("int64", np.arange(1, DY.shape[1] + 1)), ("bool", np.arange(DY.shape[1]) % 2 == 0), ("float32", np.arange(1, DY.shape[1] + 1, dtype=np.float32) / 3)):
                    mat = np.stack([vec, vec[::-1]], axis=1)
                    for what, got, want in ((f"{lab} @ {kind} vector", Y @ vec, DY @ vec.astype(float)), (f"{lab} @ {kind} matrix", Y @ mat, DY @ mat.astype(float))):
                        if not np.allclose(np.asarray(got, dtype=float), want, rtol=1e-5 if kind == "float32" else 1e-10, atol=1e-6 if kind == "float32" else 1e-12):
                            diffs[what] = f"got {np.round(np.asarray(got, dtype=float).ravel()[:4], 5).tolist()}..., dense float64 product {np.round(want.ravel()[:4], 5).tolist()}..."
                for kind, vec in (("int64", np.arange(1, DY.shape[0] + 1)),):
                    got, want = vec @ Y, vec.astype(float) @ DY
                    if not np.allclose(np.asarray(got, dtype=float), want, rtol=1e-10, atol=1e-12):
                        diffs[f"{kind} vector @ {lab}"] = f"got {np.round(np.asarray(got, dtype=float).ravel()[:4], 5).tolist()}..., dense {np.round(want.ravel()[:4], 5).tolist()}..."
        except Exception as e:  # noqa: BLE001
            diffs["exception"] = f"{type(e).__name__}: {e}"
        res[name] = diffs
    return res


def main():
    if len(sys.argv) > 1 and sys.argv[1].startswith("operands"):
        res = operands()
        print(json.dumps(res))
        if sys.argv[1] == "operands-check":
            bad = {k: v for k, v in res.items() if v}
            if bad:
                k = next(iter(bad))
                print("REPRODUCED:", k, bad[k])
                sys.exit(1)
            print("not reproduced")
        return
    res = {}
    for name, mk, n in builders():
        v = np.arange(1, n + 1).astype(float)
        vi = np.arange(1, n + 1)
        diffs = {}
        try:
            Xi, Xf = mk(np.int64), mk(np.float64)
            pairs = {"array": (np.asarray(Xi.array, dtype=float), np.asarray(Xf.array, dtype=float)),
                     "grad_log_abs_det": (flat(Xi.grad_log_abs_det), flat(Xf.grad_log_abs_det)),
                     "grad_quadratic_form_inv": (flat(Xi.grad_quadratic_form_inv(v)), flat(Xf.grad_quadratic_form_inv(v))),
                     "grad_quadratic_form_inv[int vector]": (flat(Xi.grad_quadratic_form_inv(vi)), flat(Xf.grad_quadratic_form_inv(v))),
                     "inv @ v": (np.asarray(Xi.inv @ v, dtype=float), np.asarray(Xf.inv @ v, dtype=float)),
                     "log_abs_det": (np.atleast_1d(float(Xi.log_abs_det)), np.atleast_1d(float(Xf.log_abs_det)))}
            # a reported gradient is a value: a later evaluation (another vector) on the same object must not change it
            Xs = mk(np.float64)
            v2 = v[::-1] * 0.5 + 1.0
            g1 = Xs.grad_quadratic_form_inv(v)
            g1_copy = flat(g1).copy()
            g2 = Xs.grad_quadratic_form_inv(v2)
            ref2 = flat(mk(np.float64).grad_quadratic_form_inv(v2))
            pairs["grad_quadratic_form_inv[first result after a second call with another vector]"] = (flat(g1), g1_copy)
            pairs["grad_quadratic_form_inv[second call on the same object vs on a fresh object]"] = (flat(g2), ref2)
            l1 = flat(Xs.grad_log_abs_det).copy()
            Xs.grad_quadratic_form_inv(v)
            pairs["grad_log_abs_det[stable across other evaluations]"] = (flat(Xs.grad_log_abs_det), l1)
            for k, (a, b) in pairs.items():
                if a.shape != b.shape or not np.allclose(a, b, rtol=1e-10, atol=1e-12):
                    diffs[k] = (f"int64 parameters give {np.round(a, 6).tolist()}, float64 parameters give {np.round(b, 6).tolist()}" if "[" not in k or "int vector" in k
                                else f"{np.round(a, 6).tolist()} vs {np.round(b, 6).tolist()}")
        except Exception as e:  # noqa: BLE001
            diffs["exception"] = f"{type(e).__name__}: {e}"
        res[name] = diffs
    print(json.dumps(res))
    if len(sys.argv) > 1 and sys.argv[1] != "json":
        bad = {k: v for k, v in res.items() if v}
        if bad:
            k = next(iter(bad))
            print("REPRODUCED:", k, bad[k])
            sys.exit(1)
        print("not reproduced")


main()
