"""Native replay for C05: finite-difference check of every value/derivative method of every system class, metric type and
derivative-function return convention; repeated evaluations included.  Exit 1 + REPRODUCED on a mismatch."""
import sys

import numpy as np

from mici import matrices as M, systems as S
from mici.states import ChainState

rng = np.random.default_rng(2)
n = 3


def ell(q):
    return 0.5 * q @ q + 0.25 * np.sum(q**4) + np.sin(q[0] * q[1])


def gell(q):
    g = q + q**3
    g[0] += np.cos(q[0] * q[1]) * q[1]
    g[1] += np.cos(q[0] * q[1]) * q[0]
    return g


def constr(q):
    return np.array([q @ q + 0.3 * q[0] * q[1] ** 2 - 1.0])


def jconstr(q):
    j = 2 * q
    j[0] += 0.3 * q[1] ** 2
    j[1] += 0.6 * q[0] * q[1]
    return j[None, :]


def mhp(q):
    H = 2 * np.eye(n)
    H[0, 1] += 0.6 * q[1]
    H[1, 0] += 0.6 * q[1]
    H[1, 1] += 0.6 * q[0]
    return lambda m: np.einsum("ij,ijk->k", np.asarray(m.array if hasattr(m, "array") else m), H[None])


def fd(f, x, eps=1e-6):
    g = np.zeros_like(x)
    for i in range(len(x)):
        e = np.zeros_like(x)
        e[i] = eps
        g[i] = (f(x + e) - f(x - e)) / (2 * eps)
    return g


def systems():
    L = np.tril(rng.normal(size=(n, n))) + 2 * np.eye(n)
    Q, _ = np.linalg.qr(rng.normal(size=(n, n)))
    metrics = [("identity", None), ("identity(n)", M.IdentityMatrix(n)), ("scaled", M.PositiveScaledIdentityMatrix(1.7, n)), ("diag", np.array([0.5, 2.0, 1.3])),
               ("dense", L @ L.T), ("eig", M.EigendecomposedPositiveDefiniteMatrix(Q, np.array([0.6, 1.5, 2.4])))]
    out = []
    for aux in (False, True):
        g = (lambda q: (gell(q), ell(q))) if aux else gell
        jc = (lambda q: (jconstr(q), constr(q))) if aux else jconstr
        mh = (lambda q: (mhp(q), jconstr(q), constr(q))) if aux else mhp
        for name, m in metrics:
            out.append((f"Euclidean[{name},aux={aux}]", S.EuclideanMetricSystem(ell, metric=m, grad_neg_log_dens=g)))
            if name != "identity":
                out.append((f"GaussianEuclidean[{name},aux={aux}]", S.GaussianEuclideanMetricSystem(ell, metric=m, grad_neg_log_dens=g)))
                for hd in (True, False):
                    out.append((f"DenseConstrained[{name},hausdorff={hd},aux={aux}]",
                                S.DenseConstrainedEuclideanMetricSystem(ell, constr, metric=m, dens_wrt_hausdorff=hd, grad_neg_log_dens=g, jacob_constr=jc, mhp_constr=mh)))
                out.append((f"GaussianDenseConstrained[{name},aux={aux}]",
                            S.GaussianDenseConstrainedEuclideanMetricSystem(ell, constr, metric=m, grad_neg_log_dens=g, jacob_constr=jc, mhp_constr=mh)))
        md = lambda q: 1.0 + q**2  # noqa: E731
        vmd = lambda q: (lambda v: 2 * q * v)  # noqa: E731
        out.append((f"DiagonalRiemannian[aux={aux}]", S.DiagonalRiemannianMetricSystem(ell, md, vjp_metric_diagonal_func=(lambda q: (vmd(q), md(q))) if aux else vmd, grad_neg_log_dens=g)))
        ms = lambda q: 1.0 + q @ q  # noqa: E731
        vms = lambda q: (lambda v: 2 * q * v)  # noqa: E731
        out.append((f"ScalarRiemannian[aux={aux}]", S.ScalarRiemannianMetricSystem(ell, ms, vjp_metric_scalar_func=(lambda q: (vms(q), ms(q))) if aux else vms, grad_neg_log_dens=g)))
        mc = lambda q: np.tril(np.outer(q, q)) * 0.1 + np.diag(1.0 + q**2)  # noqa: E731

        def vmc(q):
            def vjp(v):
                v = np.tril(np.asarray(v))
                out_ = np.zeros(n)
                for k in range(n):
                    d = np.zeros((n, n))
                    d[k, :] += 0.1 * q
                    d[:, k] += 0.1 * q
                    d = np.tril(d)
                    d[k, k] += 2 * q[k]
                    out_[k] = np.sum(v * d)
                return out_
            return vjp
        out.append((f"CholeskyRiemannian[aux={aux}]", S.CholeskyFactoredRiemannianMetricSystem(ell, mc, vjp_metric_chol_func=(lambda q: (vmc(q), mc(q))) if aux else vmc, grad_neg_log_dens=g)))
    return out


def main():
    fails = []
    for name, sysm in systems():
        q, p = rng.normal(size=n) * 0.6, rng.normal(size=n)

        def st(q_, p_):
            return ChainState(pos=q_.copy(), mom=p_.copy(), dir=1)
        s0 = st(q, p)
        try:
            checks = [("dh1_dpos", sysm.dh1_dpos(s0), fd(lambda x: sysm.h1(st(x, p)), q)), ("dh2_dpos", sysm.dh2_dpos(s0), fd(lambda x: sysm.h2(st(x, p)), q)),
                      ("dh2_dmom", sysm.dh2_dmom(s0), fd(lambda x: sysm.h2(st(q, x)), p)), ("dh_dpos", sysm.dh_dpos(s0), fd(lambda x: sysm.h(st(x, p)), q)),
                      ("dh_dmom", sysm.dh_dmom(s0), fd(lambda x: sysm.h(st(q, x)), p)), ("dh1_dpos (2nd evaluation)", sysm.dh1_dpos(s0), fd(lambda x: sysm.h1(st(x, p)), q)),
                      ("dh_dpos (3rd evaluation)", sysm.dh_dpos(s0), fd(lambda x: sysm.h(st(x, p)), q))]
            if abs(sysm.h(s0) - sysm.h1(s0) - sysm.h2(s0)) > 1e-10:
                fails.append(f"{name}: h != h1 + h2")
            if not np.allclose(np.asarray(sysm.grad_neg_log_dens(s0)), gell(q)):
                fails.append(f"{name}: grad_neg_log_dens(state) changed after derivative evaluations (cached array modified in place)")
        except Exception as e:  # noqa: BLE001
            fails.append(f"{name}: {type(e).__name__}: {e}")
            continue
        for lab, got, ref in checks:
            if not np.allclose(np.asarray(got, dtype=float), ref, rtol=2e-5, atol=2e-6):
                fails.append(f"{name}.{lab} = {np.round(np.asarray(got, dtype=float), 5).tolist()} but finite differences of the Hamiltonian give {np.round(ref, 5).tolist()}")
    if fails:
        print("REPRODUCED:", fails[0][:500])
        for f in fails[1:5]:
            print("  also:", f[:300])
        sys.exit(1)
    print("not reproduced")


main()
