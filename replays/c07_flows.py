"""Native replay for C07: h1_flow / h2_flow / dh2_flow_dmom of every tractable-flow system and metric type (incl. the default
implicit identity) against numerical integration of Hamilton's equations (fine RK4), additivity in time, inverse, energy
conservation (time intervals longer than a period) and finite-difference Jacobians.  Exit 1 + REPRODUCED otherwise."""
import sys

import numpy as np

from mici import matrices as M, systems as S
from mici.states import ChainState

rng = np.random.default_rng(6)
n = 3


def ell(q):
    return 0.5 * q @ q + 0.25 * np.sum(q**4)


def gell(q):
    return q + q**3


def constr(q):
    return np.array([q @ q - 1.0])


def jconstr(q):
    return 2 * q[None, :]


def mhp(q):
    return lambda m: 2 * np.asarray(m.array if hasattr(m, "array") else m).sum(0)


def rk4(f, z, t, steps=4000):
    h = t / steps
    for _ in range(steps):
        k1 = f(z)
        k2 = f(z + 0.5 * h * k1)
        k3 = f(z + 0.5 * h * k2)
        k4 = f(z + h * k3)
        z = z + h / 6 * (k1 + 2 * k2 + 2 * k3 + k4)
    return z


def main():
    fails = []
    L = np.tril(rng.normal(size=(n, n))) + 2 * np.eye(n)
    Q, _ = np.linalg.qr(rng.normal(size=(n, n)))
    metrics = [("default", None, np.eye(n)), ("identity(n)", M.IdentityMatrix(n), np.eye(n)), ("scaled", M.PositiveScaledIdentityMatrix(1.7, n), 1.7 * np.eye(n)),
               ("diag", np.array([0.5, 2.0, 1.3]), np.diag([0.5, 2.0, 1.3])), ("dense", L @ L.T, L @ L.T),
               ("eig", M.EigendecomposedPositiveDefiniteMatrix(Q, np.array([0.6, 1.5, 2.4])), Q @ np.diag([0.6, 1.5, 2.4]) @ Q.T),
               # eigenvalues that are distinct but agree to 1e-6 (a nearly isotropic metric), and a dense metric with such a spectrum
               ("nearly-isotropic diag", np.array([1.0, 1.0 + 1e-6, 1.0 - 2e-6]), np.diag([1.0, 1.0 + 1e-6, 1.0 - 2e-6])),
               ("nearly-isotropic eig", M.EigendecomposedPositiveDefiniteMatrix(Q, np.array([2.0, 2.0 + 3e-6, 2.0 - 1e-6])), Q @ np.diag([2.0, 2.0 + 3e-6, 2.0 - 1e-6]) @ Q.T)]
    for name, m, Mv in metrics:
        Minv = np.linalg.inv(Mv)
        systems = [("Euclidean", S.EuclideanMetricSystem(ell, metric=m, grad_neg_log_dens=gell), False),
                   ("Gaussian", S.GaussianEuclideanMetricSystem(ell, metric=m, grad_neg_log_dens=gell), True),
                   ("DenseConstrained", S.DenseConstrainedEuclideanMetricSystem(ell, constr, metric=m, grad_neg_log_dens=gell, jacob_constr=jconstr, mhp_constr=mhp), False),
                   ("GaussianDenseConstrained", S.GaussianDenseConstrainedEuclideanMetricSystem(ell, constr, metric=m, grad_neg_log_dens=gell, jacob_constr=jconstr, mhp_constr=mhp), True)]
        for sname, sysm, gaussian in systems:
            tag = f"{sname}[{name}]"
            q, p = rng.normal(size=n) * 0.7, rng.normal(size=n)
            try:
                for t in (0.3, -0.8, 9.0, -23.5) + ((3000.0, -7000.0) if name.startswith("nearly") else ()):
                    st = ChainState(pos=q.copy(), mom=p.copy(), dir=1)
                    sysm.h1_flow(st, t)
                    if not (np.allclose(st.pos, q) and np.allclose(st.mom, p - t * np.asarray(sysm.dh1_dpos(ChainState(pos=q.copy(), mom=p.copy(), dir=1))))):
                        fails.append(f"{tag}: h1_flow(t={t}) is not the kick mom - t*dh1_dpos with unchanged position")
                    st = ChainState(pos=q.copy(), mom=p.copy(), dir=1)
                    sysm.h2_flow(st, t)
                    rhs = (lambda z: np.concatenate([Minv @ z[n:], -z[:n]])) if gaussian else (lambda z: np.concatenate([Minv @ z[n:], 0 * z[:n]]))
                    ref = rk4(rhs, np.concatenate([q, p]), t) if abs(t) < 100 else np.concatenate([st.pos, st.mom])  # long intervals: exact laws below only
                    if not np.allclose(np.concatenate([st.pos, st.mom]), ref, rtol=1e-6, atol=1e-7):
                        fails.append(f"{tag}: h2_flow(t={t}) differs from the numerically integrated Hamilton equations by {np.max(np.abs(np.concatenate([st.pos, st.mom]) - ref)):.2e}")
                    h2_before = sysm.h2(ChainState(pos=q.copy(), mom=p.copy(), dir=1))
                    if abs(sysm.h2(st) - h2_before) > 1e-8 * (1 + abs(h2_before)):
                        fails.append(f"{tag}: h2 not conserved by h2_flow(t={t})")
                    back = st.copy()
                    sysm.h2_flow(back, -t)
                    if not (np.allclose(back.pos, q, atol=1e-8) and np.allclose(back.mom, p, atol=1e-8)):
                        fails.append(f"{tag}: h2_flow(-t) does not undo h2_flow(t) for t={t}")
                    two = ChainState(pos=q.copy(), mom=p.copy(), dir=1)
                    sysm.h2_flow(two, 0.4 * t)
                    sysm.h2_flow(two, 0.6 * t)
                    if not (np.allclose(two.pos, st.pos, atol=1e-8) and np.allclose(two.mom, st.mom, atol=1e-8)):
                        fails.append(f"{tag}: h2_flow is not additive in time (0.4t then 0.6t != t) for t={t}")
                    if hasattr(sysm, "dh2_flow_dmom"):
                        a, b = sysm.dh2_flow_dmom(ChainState(pos=q.copy(), mom=p.copy(), dir=1), t)
                        A, B = np.asarray(a @ np.eye(n), dtype=float), np.asarray(b @ np.eye(n), dtype=float)
                        Ja, Jb = np.zeros((n, n)), np.zeros((n, n))
                        for k in range(n):
                            e = np.zeros(n)
                            e[k] = 1e-6
                            s1, s2 = ChainState(pos=q.copy(), mom=p + e, dir=1), ChainState(pos=q.copy(), mom=p - e, dir=1)
                            sysm.h2_flow(s1, t)
                            sysm.h2_flow(s2, t)
                            Ja[:, k], Jb[:, k] = (s1.pos - s2.pos) / 2e-6, (s1.mom - s2.mom) / 2e-6
                        if not (np.allclose(A, Ja, atol=1e-6) and np.allclose(B, Jb, atol=1e-6)):
                            fails.append(f"{tag}: dh2_flow_dmom(t={t}) differs from the Jacobian of h2_flow w.r.t. the momentum")
            except Exception as e:  # noqa: BLE001
                fails.append(f"{tag}: {type(e).__name__}: {e}")
    if fails:
        print("REPRODUCED:", fails[0][:400])
        for f in fails[1:5]:
            print("  also:", f[:300])
        sys.exit(1)
    print("not reproduced")


main()
