"""Native replay for C20: evaluates the real mici.utils helpers at the verifier's
counter-model and on a stress grid (arguments near 0 from below, huge magnitudes, zero
weights), against 60-digit decimal arithmetic. Exit 1 + REPRODUCED on an exception,
NaN, or relative error > 1e-13 where the exact result is finite."""
import json
import math
import sys
from decimal import Decimal, getcontext
from fractions import Fraction

from mici import utils

getcontext().prec = 80
INF = math.inf


def D(x):
    return Decimal(x)


def dexp(x):
    if x == -INF:
        return Decimal(0)
    return D(x).exp()


def relerr(got, want):
    if want == 0:
        return abs(D(got))
    return abs((D(got) - want) / want)


GRID = [-1e-300, -1e-100, -1e-20, -1e-17, -1e-16, -2.3e-16, -1e-12, -1e-10, -1e-8, -1e-5, -1e-3, -0.1, -0.5, -0.6931,
        -0.69314718055994, -0.7, -1.0, -2.0, -10.0, -36.0, -37.5, -50.0, -700.0, -745.0, -1000.0, -1e5, -1e300]
POS = [1e-300, 1e-20, 1e-8, 0.3, 0.6931471805599453, 1.0, 5.0, 36.7, 40.0, 700.0, 709.0, 710.0, 745.0, 1e3, 1e10, 1e300]


def witness_values(w):
    out = []
    for k, v in (w or {}).items():
        if k.startswith(("val", "a", "b", "log_val")):
            try:
                out.append(float(Fraction(str(v))))
            except Exception:
                pass
    return out


def check(name, f, want, args):
    try:
        got = f(*args)
    except Exception as e:  # noqa: BLE001
        return f"{name}{args} raised {type(e).__name__}: {e}"
    w = want(*args)
    if w is None:
        return None
    if isinstance(got, float) and math.isnan(got):
        return f"{name}{args} returned NaN, exact value {w:.20e}"
    if got in (INF, -INF):
        return f"{name}{args} returned {got}, exact value {w:.20e}"
    err = relerr(got, w)
    if err > Decimal("1e-13"):
        return f"{name}{args} = {got!r}, exact {w:.20e}, relative error {err:.2e}"
    return None


def main():
    fn = sys.argv[1]
    w = json.loads(sys.argv[2]) if len(sys.argv) > 2 else {}
    wv = witness_values(w)
    fails = []
    if fn in ("log1m_exp", "log_diff_exp", "all"):
        for v in [x for x in wv if x < 0] + GRID:
            r = check("log1m_exp", utils.log1m_exp, lambda v: (1 - dexp(v)).ln() if dexp(v) != 1 else None, (v,))
            if r:
                fails.append(r)
        for a in [0.0, 1.0, -5.0, 700.0, 1e6, -1e6]:
            for d in [-g for g in GRID]:
                b = a - d
                if b == a:
                    continue
                r = check("log_diff_exp", utils.log_diff_exp,
                          lambda a, b: D(a) + (1 - (D(b) - D(a)).exp()).ln() if (D(b) - D(a)).exp() != 1 else None, (a, b))
                if r:
                    fails.append(r)
        for a in [0.0, 3.5, -INF]:
            got = utils.log_diff_exp(a, a)
            if got != -INF:
                fails.append(f"log_diff_exp({a},{a}) = {got}, expected -inf (zero weight)")
    if fn in ("log1p_exp", "log_sum_exp", "all"):
        for v in wv + GRID + POS + [0.0]:
            r = check("log1p_exp", utils.log1p_exp, lambda v: (1 + dexp(v)).ln() if abs(v) < 1e4 else (D(v) if v > 0 else None), (v,))
            if r:
                fails.append(r)
        for a in [0.0, 1.0, -5.0, 700.0, 1e6, -1e6, -INF]:
            for b in [0.0, 2.0, -3.0, 710.0, 1e6 + 1, -1e6 - 2, -INF, 1e300, -1e300]:
                def want(a, b):
                    if a == -INF and b == -INF:
                        return None
                    m = max(a, b)
                    return D(m) + (dexp(a - m) + dexp(b - m)).ln() if abs(a - b) < 1e4 or -INF in (a, b) else D(m)
                r = check("log_sum_exp", utils.log_sum_exp, want, (a, b))
                if r:
                    fails.append(r)
        if utils.log_sum_exp(-INF, -INF) != -INF:
            fails.append("log_sum_exp(-inf,-inf) != -inf")
    if fn in ("LogRepFloat", "all"):
        L = utils.LogRepFloat
        for la in [0.0, -800.0, 800.0, 1e5, -1e5]:
            for lb in [0.0, -801.0, 799.0, 1e5 - 1, -1e5 + 3]:
                a, b = L(log_val=la), L(log_val=lb)
                try:
                    s = a + b
                    p = a * b
                    q = a / b
                    m = max(la, lb)
                    ws = D(m) + (dexp(la - m) + dexp(lb - m)).ln()
                    for nm, got, want in (("+", s, ws), ("*", p, D(la) + D(lb)), ("/", q, D(la) - D(lb))):
                        if not isinstance(got, L) or relerr(got.log_val, want) > Decimal("1e-13"):
                            fails.append(f"LogRepFloat(log_val={la}) {nm} LogRepFloat(log_val={lb}) = {got!r} log_val={getattr(got, 'log_val', None)}, exact log {want:.17e}")
                    for nm, got, want in (("<", a < b, la < lb), (">", a > b, la > lb), ("<=", a <= b, la <= lb),
                                          (">=", a >= b, la >= lb), ("==", a == b, la == lb), ("!=", a != b, la != lb)):
                        if bool(got) != want:
                            fails.append(f"LogRepFloat(log_val={la}) {nm} LogRepFloat(log_val={lb}) = {got}, expected {want}")
                    if la >= lb:
                        d = a - b
                        if la == lb:
                            ok = isinstance(d, L) and d.log_val == -INF
                        else:
                            ok = isinstance(d, L) and relerr(d.log_val, D(la) + (1 - (D(lb) - D(la)).exp()).ln()) <= Decimal("1e-13")
                        if not ok:
                            fails.append(f"LogRepFloat(log_val={la}) - LogRepFloat(log_val={lb}) = {d!r} {getattr(d, 'log_val', None)}")
                    acc = L(log_val=la)
                    acc += b
                    if relerr(acc.log_val, ws) > Decimal("1e-13"):
                        fails.append(f"+= gives log_val {acc.log_val}, exact {ws:.17e}")
                except Exception as e:  # noqa: BLE001
                    fails.append(f"LogRepFloat ops on log_vals ({la},{lb}) raised {type(e).__name__}: {e}")
        z = L(0.0)
        one = L(1.0)
        try:
            checks = [((z + one).log_val == 0.0, "0 + 1"), ((z * one).log_val == -INF, "0 * 1"), ((z + z).log_val == -INF, "0 + 0"),
                      (z < one, "0 < 1"), (not (one < z), "not 1 < 0"), (z == L(0.0), "0 == 0"),
                      (min(z / one, 1) == z, "min(0/1, 1)"), (1.5 + one == 2.5, "1.5 + LRF(1)"), (one * 2.0 == 2.0, "LRF(1)*2"),
                      (3.0 - one == 2.0, "3 - LRF(1)"), (abs((2.0 / L(4.0)) - 0.5) < 1e-15, "2 / LRF(4)")]
            for ok, nm in checks:
                if not ok:
                    fails.append(f"LogRepFloat identity failed: {nm}")
            acc0, w0 = L(0.0), L(1.0)
            acc0 += w0
            acc0 += L(5.0)
            if abs(w0.val - 1.0) > 1e-15 or abs(acc0.val - 6.0) > 1e-12:
                fails.append(f"acc=0; acc+=w0; acc+=5 changed the operand w0 to {w0.val} (accumulator aliases its first summand) / acc={acc0.val}")
            acc = L(0.0)
            acc += 0
            acc += L(0.0)
            acc += 2.0
            if abs(acc.val - 2.0) > 1e-15:
                fails.append(f"accumulation 0 += 0 += LRF(0) += 2.0 gives {acc.val}")
        except Exception as e:  # noqa: BLE001
            fails.append(f"LogRepFloat zero-weight operations raised {type(e).__name__}: {e}")
    if fails:
        print("REPRODUCED:", fails[0])
        for f in fails[1:6]:
            print("  also:", f)
        sys.exit(1)
    print("not reproduced")


main()
