"""Native replay for C09: random histories (assignments, in-place updates, copies, read-only copies, pickle round trips, calls of
every cached method, two system objects sharing a state) on real systems; every call is compared with a from-scratch
evaluation on a fresh state holding copies of the current variables.  Exit 1 + REPRODUCED on a mismatch."""
import pickle
import sys

import numpy as np

from mici import matrices as M, systems as S
from mici.states import ChainState


def nld(q):
    return 0.5 * q @ q + 0.25 * np.sum(q**4)


def grad(q):
    return q + q**3


def make_systems():
    out = []
    out.append(("EuclideanMetricSystem(identity)", lambda: S.EuclideanMetricSystem(nld, grad_neg_log_dens=grad)))
    out.append(("EuclideanMetricSystem(diag)", lambda: S.EuclideanMetricSystem(nld, grad_neg_log_dens=grad, metric=np.array([1.0, 2.0, 0.5]))))
    out.append(("GaussianEuclideanMetricSystem(diag)", lambda: S.GaussianEuclideanMetricSystem(nld, grad_neg_log_dens=grad, metric=np.array([1.0, 2.0, 0.5]))))
    out.append(("GaussianEuclideanMetricSystem(identity(3))", lambda: S.GaussianEuclideanMetricSystem(nld, grad_neg_log_dens=grad, metric=M.IdentityMatrix(3))))
    out.append(("DenseConstrainedEuclideanMetricSystem", lambda: S.DenseConstrainedEuclideanMetricSystem(
        nld, lambda q: np.array([q @ q - 1.0]), grad_neg_log_dens=grad, jacob_constr=lambda q: 2 * q[None, :],
        dens_wrt_hausdorff=False, mhp_constr=lambda q: (lambda m: 2 * (m.sum(0) if m.ndim == 2 else m)))))
    out.append(("DiagonalRiemannianMetricSystem", lambda: S.DiagonalRiemannianMetricSystem(
        nld, lambda q: 1.0 + q**2, vjp_metric_diagonal_func=lambda q: (lambda v, q=np.array(q, copy=True): 2 * q * v), grad_neg_log_dens=grad)))
    return out


METHODS = ["neg_log_dens", "grad_neg_log_dens", "h1", "h2", "h", "dh1_dpos", "dh2_dpos", "dh2_dmom", "dh_dpos", "dh_dmom",
           "constr", "jacob_constr", "metric_func", "log_det_sqrt_gram"]


def val(x):
    if hasattr(x, "array"):
        return np.asarray(x.array)
    return np.asarray(x, dtype=float)


def two_systems_one_state(fails):
    """two system objects of one class (different densities / metrics) used on the same state must not see each other's values"""
    a = S.EuclideanMetricSystem(nld, grad_neg_log_dens=grad, metric=np.array([1.0, 2.0, 0.5]))
    b = S.EuclideanMetricSystem(lambda q: 2.0 * nld(q) + 1.0, grad_neg_log_dens=lambda q: 2.0 * grad(q), metric=np.array([3.0, 1.0, 4.0]))
    q, p = np.array([0.3, -0.7, 1.1]), np.array([0.2, 0.5, -0.4])
    st = ChainState(pos=q.copy(), mom=p.copy(), dir=1)
    for m in ("neg_log_dens", "grad_neg_log_dens", "h1", "h2", "h", "dh2_dmom", "dh_dpos"):
        getattr(a, m)(st)
        got = val(getattr(b, m)(st))
        want = val(getattr(b, m)(ChainState(pos=q.copy(), mom=p.copy(), dir=1)))
        if not np.allclose(got, want, rtol=1e-12, atol=1e-12):
            fails.append(f"two EuclideanMetricSystem objects on one state: after a.{m}(state), b.{m}(state) returns {got} but from scratch gives {want}")
            break


def main():
    fails = []
    two_systems_one_state(fails)
    rng = np.random.default_rng(11)
    for name, mk in make_systems():
        sysA, sysB = mk(), mk()
        meths = [m for m in METHODS if hasattr(sysA, m)]
        # systematic two-step histories: (call m; assign v; call m) and (call m; copy; in-place update of the original; call m on copy)
        for m in meths:
            for v in ("pos", "mom"):
                for mode in ("assign", "inplace-after-copy", "pickle-then-assign"):
                    st = ChainState(pos=rng.normal(size=3), mom=rng.normal(size=3), dir=1)
                    try:
                        getattr(sysA, m)(st)
                        if mode == "assign":
                            setattr(st, v, rng.normal(size=3))
                            tgt = st
                        elif mode == "pickle-then-assign":
                            tgt = pickle.loads(pickle.dumps(st))
                            getattr(sysA, m)(tgt)
                            setattr(tgt, v, rng.normal(size=3))
                        else:
                            tgt = st.copy()
                            if v == "pos":
                                st.pos += 0.5
                            else:
                                st.mom *= 2.0
                        got = val(getattr(sysA, m)(tgt))
                        fresh = ChainState(pos=np.array(tgt.pos, copy=True), mom=np.array(tgt.mom, copy=True), dir=tgt.dir)
                        want = val(getattr(mk(), m)(fresh))
                        if not np.allclose(got, want, rtol=1e-10, atol=1e-12, equal_nan=True):
                            desc = {"assign": f"{m}(s); s.{v} = new; {m}(s)", "pickle-then-assign": f"{m}(s); t = unpickle(s); {m}(t); t.{v} = new; {m}(t)",
                                    "inplace-after-copy": f"{m}(s); c = s.copy(); s.{v} op= const (in place); {m}(c)"}[mode]
                            fails.append(f"{name}: history [{desc}] returns {got}, from scratch {want}")
                    except Exception as e:  # noqa: BLE001
                        fails.append(f"{name}: {m}/{v}/{mode}: {type(e).__name__}: {e}")
        for hist in range(60):
            states = [ChainState(pos=rng.normal(size=3), mom=rng.normal(size=3), dir=1)]
            log = []
            for step in range(14):
                i = rng.integers(len(states))
                st = states[i]
                op = rng.choice(["call", "call", "call", "set", "inplace", "copy", "pickle", "copy_ro"])
                if st._read_only and op in ("set", "inplace"):
                    op = "call"  # read-only states are never assigned to (an in-place numpy update would mutate before the error)
                try:
                    if op == "call":
                        m = str(rng.choice(meths))
                        s_obj = sysA if rng.random() < 0.7 else sysB
                        got = val(getattr(s_obj, m)(st))
                        fresh = ChainState(pos=np.array(st.pos, copy=True), mom=np.array(st.mom, copy=True), dir=st.dir)
                        want = val(getattr(mk(), m)(fresh))
                        log.append(f"{m}(s{i})")
                        if not np.allclose(got, want, rtol=1e-10, atol=1e-12, equal_nan=True):
                            fails.append(f"{name}: history [{', '.join(log)}] -> {m} returned {got} but from scratch gives {want}")
                            break
                    elif op == "set":
                        v = str(rng.choice(["pos", "mom"]))
                        setattr(st, v, rng.normal(size=3))
                        log.append(f"s{i}.{v} = new")
                    elif op == "inplace":
                        v = str(rng.choice(["pos", "mom"]))
                        if v == "pos":
                            st.pos += 0.5
                        else:
                            st.mom *= 2.0
                        log.append(f"s{i}.{v} op= c")
                    elif op in ("copy", "copy_ro"):
                        states.append(st.copy(read_only=(op == "copy_ro")))
                        log.append(f"s{len(states) - 1} = s{i}.copy({'read_only' if op == 'copy_ro' else ''})")
                    else:
                        states.append(pickle.loads(pickle.dumps(st)))
                        log.append(f"s{len(states) - 1} = unpickle(s{i})")
                except Exception as e:  # noqa: BLE001
                    if "read-only" in str(e):
                        continue
                    fails.append(f"{name}: history [{', '.join(log)}] {op}: {type(e).__name__}: {e}")
                    break
            if len(fails) > 6:
                break
    if fails:
        print("REPRODUCED:", fails[0])
        for f in fails[1:5]:
            print("  also:", f)
        sys.exit(1)
    print("not reproduced")


main()
