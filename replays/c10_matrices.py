"""Native replay for C10 (and the view part of C19): numeric instances of every matrix class, derived objects to depth 3
(.T, .inv, scalar multiples, negation, sqrt, products), compared with dense numpy linear algebra.  Exit 1 + REPRODUCED."""
import sys

import numpy as np

from mici import matrices as M

rng = np.random.default_rng(4)


def spd(n):
    a = rng.normal(size=(n, n))
    return a @ a.T + n * np.eye(n)


def instances():
    out = []
    n = 3
    A = rng.normal(size=(n, n)) + 3 * np.eye(n)
    L = np.tril(rng.normal(size=(n, n))) + 3 * np.eye(n)
    Q, _ = np.linalg.qr(rng.normal(size=(n, n)))
    w = rng.uniform(0.5, 2, n) * np.array([1, -1, 1])
    wp = rng.uniform(0.5, 2, n)
    d = rng.uniform(0.5, 2, n) * np.array([1, -1, 1])
    P = spd(n)
    U, V = rng.normal(size=(n, 2)) * 0.4, rng.normal(size=(2, n)) * 0.4
    F = rng.normal(size=(n, 2)) * 0.3
    K = spd(2) / 4
    out += [("Identity", M.IdentityMatrix(n), np.eye(n)), ("ScaledIdentity", M.ScaledIdentityMatrix(-1.7, n), -1.7 * np.eye(n)),
            ("PositiveScaledIdentity", M.PositiveScaledIdentityMatrix(0.6, n), 0.6 * np.eye(n)), ("Diagonal", M.DiagonalMatrix(d), np.diag(d)),
            ("PositiveDiagonal", M.PositiveDiagonalMatrix(wp), np.diag(wp)), ("TriangularL", M.TriangularMatrix(L, lower=True), L),
            ("TriangularU", M.TriangularMatrix(L.T.copy(), lower=False), L.T), ("InverseTriangular", M.InverseTriangularMatrix(L, lower=True), np.linalg.inv(L)),
            ("TriFactored+", M.TriangularFactoredDefiniteMatrix(L, sign=1, factor_is_lower=True), L @ L.T),
            ("TriFactored-", M.TriangularFactoredDefiniteMatrix(L.T.copy(), sign=-1, factor_is_lower=False), -L.T @ L),
            ("TriFactoredPD", M.TriangularFactoredPositiveDefiniteMatrix(L), L @ L.T), ("DensePD", M.DensePositiveDefiniteMatrix(P), P),
            ("DenseND", M.DenseDefiniteMatrix(-P, is_posdef=False), -P), ("DenseSquare", M.DenseSquareMatrix(A), A),
            ("DenseSymmetric", M.DenseSymmetricMatrix(Q @ np.diag(w) @ Q.T), Q @ np.diag(w) @ Q.T), ("Orthogonal", M.OrthogonalMatrix(Q), Q),
            ("ScaledOrthogonal", M.ScaledOrthogonalMatrix(-0.7, Q), -0.7 * Q), ("EigSym", M.EigendecomposedSymmetricMatrix(Q, w), Q @ np.diag(w) @ Q.T),
            ("EigPD", M.EigendecomposedPositiveDefiniteMatrix(Q, wp), Q @ np.diag(wp) @ Q.T),
            ("SoftAbs", M.SoftAbsRegularizedPositiveDefiniteMatrix(Q @ np.diag(w) @ Q.T, 1.3), Q @ np.diag(w / np.tanh(1.3 * w)) @ Q.T),
            ("PDProduct", M.DensePositiveDefiniteProductMatrix(V, M.PositiveDiagonalMatrix(wp)), V @ np.diag(wp) @ V.T)]
    import scipy.linalg as sla
    out.append(("BlockDiag", M.SquareBlockDiagonalMatrix((M.DenseSquareMatrix(A), M.ScaledIdentityMatrix(-2.0, 2))), sla.block_diag(A, -2.0 * np.eye(2))))
    out.append(("PDBlockDiag", M.PositiveDefiniteBlockDiagonalMatrix((M.DensePositiveDefiniteMatrix(P), M.PositiveDiagonalMatrix(wp))), sla.block_diag(P, np.diag(wp))))
    for s in (1, -1):
        out.append((f"SquareLowRank{s}", M.SquareLowRankUpdateMatrix(M.DenseRectangularMatrix(U), M.DenseRectangularMatrix(V), M.DenseSquareMatrix(A), M.DenseSquareMatrix(K), sign=s),
                    A + s * U @ K @ V))
        out.append((f"SymLowRank{s}", M.SymmetricLowRankUpdateMatrix(M.DenseRectangularMatrix(F), M.DiagonalMatrix(d + 3), M.DensePositiveDefiniteMatrix(K), sign=s),
                    np.diag(d + 3) + s * F @ K @ F.T))
        out.append((f"PDLowRank{s}", M.PositiveDefiniteLowRankUpdateMatrix(M.DenseRectangularMatrix(F), M.PositiveDiagonalMatrix(wp + 1), M.DensePositiveDefiniteMatrix(K), sign=s),
                    np.diag(wp + 1) + s * F @ K @ F.T))
    X = M.SquareLowRankUpdateMatrix(M.DenseRectangularMatrix(U), M.DenseRectangularMatrix(V), M.DenseSquareMatrix(A))
    X.log_abs_det
    out.append(("SquareLowRank(capacitance present)", X, A + U @ V))
    Y = M.DenseSquareMatrix(A)
    Y.log_abs_det
    out.append(("DenseSquare(lu present)", Y, A))
    out.append(("Product", M.DenseSquareMatrix(A) @ M.TriangularMatrix(L), A @ L))
    return out


def close(a, b):
    return np.allclose(np.asarray(a, dtype=float), np.asarray(b, dtype=float), rtol=1e-8, atol=1e-9)


def check(name, X, V, fails, depth):
    n, m = V.shape
    v, B = rng.normal(size=m), rng.normal(size=(m, 2))
    w = rng.normal(size=n)
    tests = [("array", lambda: X.array, V), ("matvec", lambda: X @ v, V @ v), ("matmat", lambda: X @ B, V @ B), ("rmatvec", lambda: w @ X, w @ V),
             ("T", lambda: X.T.array, V.T), ("diagonal", lambda: X.diagonal, np.diag(V))]
    if isinstance(X, M.SquareMatrix):
        tests.append(("log_abs_det", lambda: X.log_abs_det, np.linalg.slogdet(V)[1]))
    if isinstance(X, M.InvertibleMatrix):
        tests.append(("inv", lambda: X.inv.array, np.linalg.inv(V)))
    if isinstance(X, M.PositiveDefiniteMatrix):
        tests.append(("sqrt", lambda: (lambda S: S @ S.T)(X.sqrt @ np.eye(n)), V))
    if isinstance(X, M.SymmetricMatrix):
        tests.append(("eig", lambda: (X.eigvec @ np.eye(n)) @ np.diag(X.eigval) @ (X.eigvec @ np.eye(n)).T, V))
    for lab, f, want in tests:
        try:
            got = f()
        except NotImplementedError:
            continue
        except Exception as e:  # noqa: BLE001
            fails.append(f"{name}.{lab}: {type(e).__name__}: {e}")
            continue
        if not close(got, want):
            fails.append(f"{name}.{lab} differs from dense linear algebra by {np.max(np.abs(np.asarray(got, dtype=float) - want)):.2e}")
    if depth <= 0:
        return
    derived = [(".T", lambda: X.T, V.T), ("*2.5", lambda: 2.5 * X, 2.5 * V), ("*-0.4", lambda: X * -0.4, -0.4 * V), ("/-3", lambda: X / -3.0, V / -3.0), ("neg", lambda: -X, -V)]
    if isinstance(X, M.InvertibleMatrix):
        derived.append((".inv", lambda: X.inv, np.linalg.inv(V)))
    for lab, mk, DV in derived:
        try:
            D = mk()
        except NotImplementedError:
            continue
        except Exception as e:  # noqa: BLE001
            fails.append(f"{name}{lab}: {type(e).__name__}: {e}")
            continue
        check(name + lab, D, DV, fails, depth - 1)


def main():
    fails = []
    for name, X, V in instances():
        check(name, X, np.asarray(V, dtype=float), fails, 3 if "LowRank" in name or "DenseSquare" in name else 2)
    if fails:
        print("REPRODUCED:", fails[0])
        for f in fails[1:6]:
            print("  also:", f)
        print(f"  ({len(fails)} mismatches)")
        sys.exit(1)
    print("not reproduced")


main()
