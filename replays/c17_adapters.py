"""Native replay for C17: real adapters vs independent reference formulas (numpy var/cov over pooled samples, the documented
dual-averaging recursion) over many partitions / settings. Exit 1 + REPRODUCED on disagreement."""
import itertools
import sys
from math import exp, log

import numpy as np

from mici import adapters as A
from mici.errors import AdaptationError, IntegratorError


class Sys:
    metric = None

    def sample_momentum(self, state, rng):
        return ("fresh", id(state), id(rng), self.metric)


class Integ:
    step_size = None


class Trans:
    def __init__(self):
        self.system, self.integrator = Sys(), Integ()


class CS:
    def __init__(self, pos):
        self.pos, self.mom = pos, None


def metric_adapters(kind, fails, offset=None):
    """offset=None: moderate offsets, tight tolerance.  offset=1e8: positions far from the origin relative to their spread (the property's
    quantifier): the pooled estimate must still agree with an extended-precision reference to 1e-5 (centred / pairwise-difference updates do,
    uncentred second-moment formulas lose every digit)"""
    rng = np.random.default_rng(7)
    X = rng.normal(size=(24, 3)) * np.array([1.0, 3.0, 0.2]) + (np.array([100.0, -5.0, 0.0]) if offset is None else np.array([offset, -offset, 3 * offset]))
    rtol, atol = (1e-8, 1e-10) if offset is None else (1e-5, 1e-7)
    cls = A.OnlineVarianceMetricAdapter if kind == "variance" else A.OnlineCovarianceMetricAdapter
    splits = [(24,), (12, 12), (2, 22), (8, 8, 8), (2, 3, 19), (19, 3, 2), (6, 6, 6, 6), (1, 1, 1, 21), (5, 1, 7, 11)]
    for reg in ((5, 1e-3), (0, 1e-3), (3, 0.5)):
        for split in splits:
            ad = cls(reg_iter_offset=reg[0], reg_scale=reg[1])
            tr = Trans()
            states, chains, off = [], [], 0
            for n in split:
                cs = CS(X[off].copy())
                st = ad.initialize(cs, tr)
                for x in X[off:off + n]:
                    cs.pos = x.copy()
                    ad.update(st, cs, {}, tr)
                states.append(st)
                chains.append(cs)
                off += n
            rngs = [object() for _ in split]
            try:
                if len(split) == 1:
                    ad.finalize(states[0], chains[0], tr, rngs[0])
                else:
                    ad.finalize(states, chains, tr, rngs)
            except Exception as e:  # noqa: BLE001
                fails.append(f"{cls.__name__} split {split} reg {reg}: raised {type(e).__name__}: {e}")
                continue
            n = 24
            XL = X.astype(np.longdouble)
            XC = (XL - XL.mean(axis=0)).astype(np.float64) if offset is not None else X
            if kind == "variance":
                ref = XC.var(axis=0, ddof=1)
                if reg[0]:
                    ref = ref * n / (reg[0] + n) + reg[1] * reg[0] / (reg[0] + n)
                got = 1.0 / tr.system.metric.diagonal
            else:
                ref = np.cov(XC.T, ddof=1)
                ref = ref * n / (reg[0] + n) + np.eye(3) * reg[1] * reg[0] / (reg[0] + n)
                got = tr.system.metric.inv.array
            if not np.allclose(got, ref, rtol=rtol, atol=atol):
                fails.append(f"{cls.__name__} split {split} reg {reg}{'' if offset is None else f' offset {offset:g}'}: estimate differs from pooled reference by {np.max(np.abs(got - ref)):.3e}")
            for cs, r in zip(chains, rngs):
                if not (isinstance(cs.mom, tuple) and cs.mom[1] == id(cs) and cs.mom[2] == id(r) and cs.mom[3] is tr.system.metric):
                    fails.append(f"{cls.__name__} split {split}: momentum not refreshed with own rng under the new metric")
                    break


def dual(fails):
    alphas = [0.9, 0.2, 0.75, 1.0, 0.0, 0.6, 0.85, 0.4] * 3
    for target, gamma, kappa, t0, mu in itertools.product((0.8, 0.65), (0.05, 0.5), (0.75, 1.0), (10, 0), (0.0, -1.3, None, 2.0)):
        ad = A.DualAveragingStepSizeAdapter(adapt_stat_target=target, log_step_size_reg_coefficient=gamma, iter_decay_coeff=kappa,
                                            iter_offset=t0, log_step_size_reg_target=mu)
        ad._find_and_set_init_step_size = lambda *a: 0.25
        tr = Trans()
        st = ad.initialize(None, tr)
        mu_ref = log(10 * 0.25) if mu is None else mu
        hbar, sm = 0.0, 0.0
        for m, a in enumerate(alphas, 1):
            ad.update(st, None, {"accept_stat": a}, tr)
            hbar = (1 - 1 / (m + t0)) * hbar + (target - a) / (m + t0)
            le = mu_ref - m**0.5 / gamma * hbar
            w = m ** (-kappa)
            sm = w * le + (1 - w) * sm
            if not (abs(tr.integrator.step_size - exp(le)) <= 1e-9 * exp(le) and tr.integrator.step_size > 0):
                fails.append(f"dual averaging (target={target},gamma={gamma},kappa={kappa},t0={t0},mu={mu}) iteration {m}: step_size {tr.integrator.step_size} != documented {exp(le)}")
                break
        else:
            ad.finalize(st, None, tr, None)
            if abs(tr.integrator.step_size - exp(sm)) > 1e-9 * exp(sm):
                fails.append(f"dual averaging finalize: {tr.integrator.step_size} != exp(smoothed) {exp(sm)} (mu={mu})")
    xs = [-1.0, 0.3, 2.0]
    sts = [{"smoothed_log_step_size": x} for x in xs]
    for red, ref in ((A.arithmetic_mean_log_step_size_reducer, np.mean(np.exp(xs))), (A.geometric_mean_log_step_size_reducer, exp(np.mean(xs))),
                     (A.min_log_step_size_reducer, exp(min(xs))), (None, np.mean(np.exp(xs)))):
        ad = A.DualAveragingStepSizeAdapter(log_step_size_reducer=red)
        tr = Trans()
        ad.finalize(sts, [None] * 3, tr, [None] * 3)
        if abs(tr.integrator.step_size - ref) > 1e-12:
            fails.append(f"reducer {getattr(red, '__name__', 'default')}: {tr.integrator.step_size} != {ref}")
    # initial step size search on synthetic |delta h| profiles
    class FakeInteg:
        step_size = None

        def step(self, s):
            if self.step_size in bad:
                raise IntegratorError("x")
            return ("st", self.step_size)

    class FakeSys:
        def h(self, s):
            if not isinstance(s, tuple):
                return 0.0
            return prof(s[1])

    class St:
        def copy(self):
            return self
    for name, pf, bd in (("monotone", lambda e: 3.0 * e * e, set()), ("tiny", lambda e: 1e-4 * e, set()), ("errors-above", lambda e: e, {1, 0.5}),
                         ("nan-above", lambda e: float("nan") if e > 0.2 else 0.1 * e, set()), ("steep", lambda e: 1e6 * e, set())):
        prof, bad = pf, bd
        ig = FakeInteg()
        try:
            eps = A.DualAveragingStepSizeAdapter()._find_and_set_init_step_size(St(), FakeSys(), ig)
        except AdaptationError:
            continue
        def big(e):
            if e in bd:
                return True
            v = abs(pf(e))
            return (v != v) or v > log(2)
        if not ((not big(eps) and big(2 * eps)) or (big(eps) and not big(eps / 2))):
            fails.append(f"initial step size search on profile '{name}' returned {eps} which is not at a log-2 crossing")


def main():
    kind = sys.argv[1] if len(sys.argv) > 1 else "all"
    fails = []
    if kind in ("variance", "all"):
        metric_adapters("variance", fails)
    if kind in ("covariance", "all"):
        metric_adapters("covariance", fails)
    if kind in ("offsets", "all"):
        metric_adapters("variance", fails, offset=1e8)
        metric_adapters("covariance", fails, offset=1e8)
    if kind in ("dual", "all"):
        dual(fails)
    if fails:
        print("REPRODUCED:", fails[0])
        for f in fails[1:5]:
            print("  also:", f)
        sys.exit(1)
    print("not reproduced")


main()
