"""Native replay of a dimension-generic C10 obligation (Engine D witness) against the real code with numpy arrays.

usage: c10_generic.py '<json witness: {"case": ..., "obligation": "T/inv/rmatvec", "dims": {"n":3,"k":2,"m":2}, "seed": 11}>'

The case is rebuilt from the shared case table (vf/props/c10_generic_cases.py) with operands that are real mici classes over
random arrays of the witness dimensions; the obligation path (T, inv, *pos, *neg, div-pos, neg, sqrt) is followed on the object
and on the dense reference simultaneously and the final operation is compared with dense numpy linear algebra.
Exit 1 and print REPRODUCED on a mismatch (or an exception from the library); exit 0 otherwise."""
import json
import os
import sys

import numpy as np

sys.path.insert(0, os.path.join(os.path.dirname(os.path.abspath(__file__)), ".."))
from mici import matrices as M  # noqa: E402
from vf.props.c10_generic_cases import cases  # noqa: E402

C_POS = 1.7


class NativeFactory:
    def __init__(self, dims, seed):
        self.d = {k: int(v) for k, v in dims.items()}
        self.rng = np.random.default_rng(seed)

    def matrix(self, name, r, c):
        return M.DenseRectangularMatrix(self.rng.standard_normal((self.d[r], self.d[c])) * 0.4)

    def square(self, name, d):
        return M.DenseSquareMatrix(self.rng.standard_normal((self.d[d], self.d[d])))

    def invertible(self, name, d):
        n = self.d[d]
        return M.DenseSquareMatrix(self.rng.standard_normal((n, n)) + 2 * n * np.eye(n))

    def sym_invertible(self, name, d):
        n = self.d[d]
        a = self.rng.standard_normal((n, n))
        return M.DenseSymmetricMatrix((a + a.T) / 2 + n * np.eye(n))

    def posdef(self, name, d):
        n = self.d[d]
        a = self.rng.standard_normal((n, n))
        return M.DensePositiveDefiniteMatrix(a @ a.T + n * np.eye(n))

    def capacitance(self, kind, Ci, V, A, U, sign, d):
        n = self.d[d]
        cv = (np.linalg.inv(Ci.array) if Ci is not None else np.eye(n)) + sign * (V.array @ np.linalg.inv(A.array) @ U.array)
        cls = {"invertible": M.DenseSquareMatrix, "sym": M.DenseSymmetricMatrix, "pd": M.DensePositiveDefiniteMatrix}[kind]
        return cls((cv + cv.T) / 2 if kind != "invertible" else cv)

    def dim(self, d):
        return self.d[d]

    def array(self, name, r, c, sym=False, pd=False, orth=False, tri=None, inv=False):
        n, m = self.d[r], self.d[c]
        a = self.rng.standard_normal((n, m))
        if orth:
            return np.linalg.qr(a)[0]
        if pd:
            return a @ a.T + n * np.eye(n)
        if sym:
            return (a + a.T) / 2 + n * np.eye(n)
        if tri:
            a = np.tril(a) if tri == "lower" else np.triu(a)
            # a triangular parameter may have diagonal entries of either sign (sign * F F^T does not depend on them)
            a[np.diag_indices(n)] = self.rng.uniform(0.5, 2.0, n) * np.where(np.arange(n) % 2 == 0, 1.0, -1.0)
            return a
        if n == m:  # triangular parts of a full array need a non-zero diagonal too (either sign)
            return a + 2 * n * np.diag(np.where(np.arange(n) % 2 == 0, 1.0, -1.0))
        return a * 0.4

    def diagvec(self, name, d, positive):
        n = self.d[d]
        v = self.rng.uniform(0.5, 2.0, n)
        return v if positive else v * np.where(np.arange(n) % 2 == 0, 1.0, -1.0)

    def scalar(self, name, sign):
        return 1.3 if sign == "pos" else -1.3


def dense_view(o):
    """dense operator documented for o, from its constructor parameters"""
    if isinstance(o, M.MatrixProduct):
        v = dense_view(o._matrices[0])
        for x in o._matrices[1:]:
            v = v @ dense_view(x)
        return v
    if isinstance(o, M.SquareLowRankUpdateMatrix):
        return dense_view(o.square_matrix) + o._sign * (dense_view(o.left_factor_matrix) @ dense_view(o.inner_square_matrix) @ dense_view(o.right_factor_matrix))
    return np.array(o.array, dtype=float)


def close(a, b):
    a, b = np.asarray(a, dtype=float), np.asarray(b, dtype=float)
    if a.shape != b.shape:
        return False
    return bool(np.all(np.isfinite(a)) and np.abs(a - b).max() <= 1e-8 * (1 + np.abs(b).max()))


class NativeProber:
    """mirrors vf.props.c10_generic.Prober.probe (same order of operations on the same objects, so that lazily cached
    factors are in the state the symbolic trace saw) and records every mismatch with dense linear algebra by obligation id"""

    def __init__(self):
        self.bad = {}
        self.rng = np.random.default_rng(5)

    def chk(self, oid, fn, want):
        try:
            got = fn()
            if not close(got, want):
                self.bad[oid] = f"got {np.asarray(got).round(6).tolist()} want {np.asarray(want).round(6).tolist()}"
        except Exception as e:  # noqa: BLE001
            self.bad[oid] = f"exception {type(e).__name__}: {e}"

    def get(self, oid, fn):
        try:
            return fn()
        except Exception as e:  # noqa: BLE001
            self.bad[oid] = f"exception {type(e).__name__}: {e}"
            return None

    def probe(self, O, V, pre, depth, sym=False, pd=False, no_inv=False):
        n, mm = V.shape
        X, x, Y, y = self.rng.standard_normal((mm, 2)), self.rng.standard_normal(mm), self.rng.standard_normal((2, n)), self.rng.standard_normal(n)
        self.chk(pre + "array", lambda: O.array, V)
        self.chk(pre + "matmat", lambda: O @ X, V @ X)
        self.chk(pre + "matvec", lambda: O @ x, V @ x)
        self.chk(pre + "rmatmat", lambda: Y @ O, Y @ V)
        self.chk(pre + "rmatvec", lambda: y @ O, y @ V)
        square = n == mm
        if square and isinstance(O, M.SquareMatrix):
            self.chk(pre + "log_abs_det", lambda: O.log_abs_det, np.linalg.slogdet(V)[1])
        if depth <= 0:
            return
        T = self.get(pre + "T/constructs", lambda: O.T)
        if T is not None and T is not O:
            self.probe(T, V.T, pre + "T/", depth - 1)
        for lab, c in (("pos", C_POS), ("neg", -C_POS)):
            P = self.get(f"{pre}*{lab}/constructs", lambda c=c: c * O)
            if P is not None:
                self.probe(P, c * V, f"{pre}*{lab}/", depth - 1, sym=sym, pd=pd and lab == "pos")
                if pd and lab == "pos" and not isinstance(P, M.PositiveDefiniteMatrix):
                    self.bad[f"{pre}*{lab}/stays-positive-definite"] = type(P).__name__
        Dv = self.get(pre + "div-pos/constructs", lambda: O / C_POS)
        if Dv is not None:
            self.probe(Dv, V / C_POS, pre + "div-pos/", 0)
        Ng = self.get(pre + "neg/constructs", lambda: -O)
        if Ng is not None:
            self.probe(Ng, -V, pre + "neg/", 0)
        if square and isinstance(O, M.InvertibleMatrix) and not no_inv:
            I = self.get(pre + "inv/constructs", lambda: O.inv)
            if I is not None:
                Vi = np.linalg.inv(V)
                self.chk(pre + "inv/is-the-inverse", lambda: dense_view(I), Vi)
                self.probe(I, Vi, pre + "inv/", depth - 1, sym=sym, pd=pd)
        if pd and isinstance(O, M.PositiveDefiniteMatrix):
            S = self.get(pre + "sqrt/constructs", lambda: O.sqrt)
            if S is not None:
                self.chk(pre + "sqrt/factor-times-transpose", lambda: dense_view(S) @ dense_view(S).T, V)
                self.probe(S, dense_view(S), pre + "sqrt/", depth - 1, no_inv=True)


def main():
    w = json.loads(sys.argv[1])
    F = NativeFactory(w.get("dims", {"n": 3, "k": 2, "m": 2}), w.get("seed", 11))
    table = cases(M, F)
    if w["case"] not in table:
        print("unknown case", w["case"])
        return 0
    pr = NativeProber()
    target = w["obligation"]
    internal = target.rsplit("/", 1)[-1] in ("well-formed", "view", "constructs", "symmetric-class-transpose-is-self")
    try:
        O, kw = table[w["case"]]()
        # an internal obligation (stored field / abstract view of an object) is replayed through everything observable on
        # that object, one level deeper than the symbolic probe went
        pr.probe(O, dense_view(O), "", 3 if internal else 2, **kw)
    except Exception:  # noqa: BLE001
        import traceback
        pr.bad["constructs"] = traceback.format_exc()[-800:]
    prefix = target.rsplit("/", 1)[0] + "/" if "/" in target else ""
    hits = {k: v for k, v in pr.bad.items() if k == target or (internal and k.startswith(prefix))}
    if hits:
        print("REPRODUCED", w["case"], target)
        for k, v in list(hits.items())[:6]:
            print("  ", k, ":", v[:500])
        return 1
    print("not reproduced natively:", w["case"], target, f"({len(pr.bad)} other mismatches: {list(pr.bad)[:5]})")
    return 0


if __name__ == "__main__":
    sys.exit(main())
