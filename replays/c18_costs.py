"""Native replay for C18: counts user-function evaluations on real systems/integrators/transitions.
Exit 1 + REPRODUCED if a cached call, a copy, an unrelated assignment or a trajectory costs more than the contract."""
import sys

import numpy as np

from mici import integrators as I, systems as S, transitions as T
from mici.states import ChainState


class Counted:
    def __init__(self, f):
        self.f, self.n = f, 0

    def __call__(self, q):
        self.n += 1
        return self.f(q)


def main():
    fails = []
    for returns_value in (False, True):
        nld = Counted(lambda q: 0.5 * q @ q)
        grad = Counted((lambda q: (q, 0.5 * q @ q)) if returns_value else (lambda q: q))
        sysm = S.EuclideanMetricSystem(nld, grad_neg_log_dens=grad)
        st = ChainState(pos=np.array([0.3, -0.2]), mom=np.array([1.0, 0.5]), dir=1)
        sysm.grad_neg_log_dens(st)
        sysm.grad_neg_log_dens(st)
        c = st.copy()
        sysm.grad_neg_log_dens(c)
        sysm.dh1_dpos(c)
        st.mom = np.array([0.1, 0.1])
        sysm.grad_neg_log_dens(st)
        if grad.n != 1:
            fails.append(f"gradient evaluated {grad.n} times for repeated calls / a copy / after assigning mom (contract: 1)")
        if returns_value:
            sysm.neg_log_dens(st)
            sysm.h1(c)
            if nld.n != 0:
                fails.append(f"neg_log_dens evaluated {nld.n} times although the gradient function returned the value")
        # read-only snapshots are memoised as well
        grad.n, nld.n = 0, 0
        ro = ChainState(pos=np.array([0.7, 0.1]), mom=np.array([1.0, 0.5]), dir=1).copy(read_only=True)
        for _ in range(4):
            sysm.grad_neg_log_dens(ro)
            sysm.neg_log_dens(ro)
        if grad.n != 1 or nld.n > 1 or (returns_value and nld.n != 0):
            fails.append(f"read-only copy: 4 repeated requests cost {grad.n} gradient / {nld.n} density evaluations (contract: 1 / {0 if returns_value else 1})")
        for cls, per in ((I.LeapfrogIntegrator, 1), (I.BCSSTwoStageIntegrator, 2), (I.BCSSThreeStageIntegrator, 3), (I.BCSSFourStageIntegrator, 4)):
            for n in (1, 5, 12):
                grad.n = 0
                s = ChainState(pos=np.array([0.3, -0.2]), mom=np.array([1.0, 0.5]), dir=1)
                integ = cls(sysm, 0.1)
                for _ in range(n):
                    s = integ.step(s)
                if grad.n != n * per + 1:
                    fails.append(f"{cls.__name__}: {n} steps from a fresh state cost {grad.n} gradient evaluations (contract {n * per + 1})")
        # static Metropolis transition: n + 1 gradients from a fresh state, h() on visited states free when value returned
        for n in (1, 7):
            grad.n, nld.n = 0, 0
            s = ChainState(pos=np.array([0.3, -0.2]), mom=np.array([1.0, 0.5]), dir=1)
            tr = T.MetropolisStaticIntegrationTransition(sysm, I.LeapfrogIntegrator(sysm, 0.1), n)
            tr.sample(s, np.random.default_rng(1))
            if grad.n != n + 1:
                fails.append(f"static transition with {n} steps cost {grad.n} gradient evaluations (contract {n + 1})")
            if returns_value and nld.n > 1:  # one evaluation for h() of the fresh start state is legitimate
                fails.append(f"static transition evaluated neg_log_dens {nld.n} times although the gradient returns the value (contract: <= 1 from a fresh state)")
        grad.n = 0
        s = ChainState(pos=np.array([0.3, -0.2]), mom=np.array([1.0, 0.5]), dir=1)
        tr = T.MultinomialDynamicIntegrationTransition(sysm, I.LeapfrogIntegrator(sysm, 0.1), max_tree_depth=3)
        _, stats = tr.sample(s, np.random.default_rng(2))
        if grad.n > stats["n_step"] + 2:
            fails.append(f"dynamic transition with {stats['n_step']} steps cost {grad.n} gradient evaluations (> n + 2)")
    if fails:
        print("REPRODUCED:", fails[0])
        for f in fails[1:5]:
            print("  also:", f)
        sys.exit(1)
    print("not reproduced")


main()
