"""Native replay for C11: finite-difference check of grad_log_abs_det / grad_quadratic_form_inv for every differentiable matrix
class and option (both signs, both triangles, matrix-object factors, SoftAbs incl. repeated eigenvalues and large coefficients,
blocks, low-rank updates).  Exit 1 + REPRODUCED on mismatch / NaN."""
import sys

import numpy as np

from mici import matrices as M

rng = np.random.default_rng(8)


def fd(f, theta, eps=1e-6):
    theta = np.array(theta, dtype=float)
    g = np.zeros_like(theta)
    for idx in np.ndindex(theta.shape):
        tp, tm = theta.copy(), theta.copy()
        tp[idx] += eps
        tm[idx] -= eps
        g[idx] = (f(tp) - f(tm)) / (2 * eps)
    return g


def sym_fd(f, H, eps=1e-6):
    n = H.shape[0]
    g = np.zeros((n, n))
    for i in range(n):
        for j in range(i, n):
            E = np.zeros((n, n))
            E[i, j] = E[j, i] = 1.0
            d = (f(H + eps * E) - f(H - eps * E)) / (2 * eps)
            if i == j:
                g[i, i] = d
            else:
                g[i, j] = g[j, i] = d / 2
    return g


def main():
    fails = []
    n = 3
    v = rng.normal(size=n)

    def check(name, make, theta, mask=None, symmetric=False):
        X = make(theta)
        def fl(t):
            return make(t).log_abs_det

        def fq(t):
            return v @ (make(t).inv @ v)
        for kind, f, got in (("grad_log_abs_det", fl, lambda: X.grad_log_abs_det), ("grad_quadratic_form_inv", fq, lambda: X.grad_quadratic_form_inv(v))):
            try:
                g = np.asarray(got(), dtype=float)
            except Exception as e:  # noqa: BLE001
                fails.append(f"{name}.{kind}: {type(e).__name__}: {e}")
                continue
            ref = sym_fd(f, np.array(theta, dtype=float)) if symmetric else fd(f, theta)
            if mask is not None:
                ref = ref * mask
            if not np.all(np.isfinite(g)):
                fails.append(f"{name}.{kind} contains NaN / inf: {g}")
            elif g.shape != np.shape(ref) or not np.allclose(g, ref, rtol=2e-4, atol=2e-6):
                fails.append(f"{name}.{kind} = {np.round(g, 5).tolist()} but finite differences give {np.round(ref, 5).tolist()}")
    for s in (0.7, -1.3):
        check(f"ScaledIdentity({s})", lambda t: M.ScaledIdentityMatrix(float(t), n), np.array(s))
    check("Diagonal", lambda t: M.DiagonalMatrix(t), np.array([0.5, -1.2, 2.0]))
    L = np.tril(rng.normal(size=(n, n))) + 2 * np.eye(n)
    for lower in (True, False):
        th = L if lower else L.T.copy()
        mask = np.tril(np.ones((n, n))) if lower else np.triu(np.ones((n, n)))
        for sign in (1, -1):
            check(f"TriangularFactoredDefinite(lower={lower},sign={sign})", lambda t, lo=lower, sg=sign: M.TriangularFactoredDefiniteMatrix(t, sign=sg, factor_is_lower=lo), th, mask)
            check(f"TriangularFactoredDefinite(TriangularMatrix factor,lower={lower},sign={sign})",
                  lambda t, lo=lower, sg=sign: M.TriangularFactoredDefiniteMatrix(M.TriangularMatrix(t, lower=lo), sign=sg), th, mask)
        check(f"TriangularFactoredPositiveDefinite(lower={lower})", lambda t, lo=lower: M.TriangularFactoredPositiveDefiniteMatrix(t, factor_is_lower=lo), th, mask)
        check(f"TriangularFactoredPositiveDefinite(scaled object factor,lower={lower})",
              lambda t, lo=lower: (2.0 * M.TriangularFactoredPositiveDefiniteMatrix(t / np.sqrt(2.0), factor_is_lower=lo)), th, mask)
    P = L @ L.T
    check("DensePositiveDefinite", lambda t: M.DensePositiveDefiniteMatrix(t), P, symmetric=True)
    check("DenseDefinite(negative)", lambda t: M.DenseDefiniteMatrix(t, is_posdef=False), -P, symmetric=True)
    R = rng.normal(size=(n, n + 2))
    wp = rng.uniform(0.5, 2, n + 2)
    check("DensePositiveDefiniteProduct", lambda t: M.DensePositiveDefiniteProductMatrix(t, M.PositiveDiagonalMatrix(wp)), R)
    Q, _ = np.linalg.qr(rng.normal(size=(n, n)))
    for coeff in (0.5, 1.5, 20.0, 100.0):
        for lam in (np.array([1.3, -0.4, 2.2]), np.array([0.8, -2.5, 0.35])):
            H = Q @ np.diag(lam) @ Q.T
            check(f"SoftAbs(coeff={coeff}, eig={lam.tolist()})", lambda t, c=coeff: M.SoftAbsRegularizedPositiveDefiniteMatrix((t + t.T) / 2, c), H, symmetric=True)
    X = M.SoftAbsRegularizedPositiveDefiniteMatrix(2.0 * np.eye(n), 1.0)
    g = X.grad_quadratic_form_inv(v)
    s, ds = 2 / np.tanh(2.0), 1 / np.tanh(2.0) - 2 / np.sinh(2.0) ** 2
    if not np.all(np.isfinite(g)) or not np.allclose(g, -ds / s**2 * np.outer(v, v), rtol=1e-8):
        fails.append(f"SoftAbs with repeated eigenvalues (H = 2 I): grad_quadratic_form_inv = {g.tolist()}")
    F = rng.normal(size=(n, 2)) * 0.3
    K = np.array([[1.0, 0.2], [0.2, 0.7]])
    for sign in (1, -1):
        check(f"PositiveDefiniteLowRankUpdate(sign={sign})",
              lambda t, sg=sign: M.PositiveDefiniteLowRankUpdateMatrix(M.DenseRectangularMatrix(t), M.PositiveDiagonalMatrix(np.array([1.5, 2.0, 1.2])), M.DensePositiveDefiniteMatrix(K), sign=sg), F)
    if fails:
        print("REPRODUCED:", fails[0][:600])
        for f in fails[1:5]:
            print("  also:", f[:300])
        sys.exit(1)
    print("not reproduced")


main()
