"""Native replay for C02: for every integrator class run n steps, negate dir, run n steps:
must return to the start within 1e-6 or raise an IntegratorError; the input state object
must never be modified.  Exit 1 + REPRODUCED otherwise."""
import sys

import numpy as np

from mici import integrators as I, systems as S, solvers
from mici.errors import IntegratorError
from mici.states import ChainState


def nld(q):
    return 0.5 * q @ q + 0.25 * np.sum(q**4)


def grad(q):
    return q + q**3


def metric_fn(q):
    return 1.0 + q**2


def vjp_metric(q):
    return lambda v: 2 * q * v


def systems():
    out = []
    out.append(("euclidean", S.EuclideanMetricSystem(nld, grad_neg_log_dens=grad), ["leapfrog", "bcss2", "bcss3", "bcss4", "comp", "ileap", "imid"]))
    out.append(("diag-riemannian", S.DiagonalRiemannianMetricSystem(nld, metric_fn, vjp_metric_diagonal_func=vjp_metric, grad_neg_log_dens=grad),
                ["ileap", "imid"]))
    con = S.DenseConstrainedEuclideanMetricSystem(nld, lambda q: np.array([q @ q - 1.0]), grad_neg_log_dens=grad,
                                                  jacob_constr=lambda q: 2 * q[None, :])
    out.append(("constrained", con, ["con1", "con3", "conq", "conl"]))
    # density w.r.t. the Lebesgue measure on a curved constraint with a varying Gram determinant: h1 includes 1/2 log det G
    hd = np.array([0.5, 2.0, 0.0])
    con2 = S.DenseConstrainedEuclideanMetricSystem(lambda q: 0.25 * np.sum(q**4), lambda q: np.array([q[0] ** 2 / 4 + q[1] ** 2 - 1.0]), grad_neg_log_dens=lambda q: q**3,
                                                   dens_wrt_hausdorff=False, jacob_constr=lambda q: np.array([[q[0] / 2, 2 * q[1], 0.0]]), mhp_constr=lambda q: (lambda m: m[0] * hd))
    out.append(("constrained-lebesgue-ellipsoid", con2, ["con1", "con3"]))
    return out


def make(kind, sysm, eps):
    if kind == "leapfrog":
        return I.LeapfrogIntegrator(sysm, eps)
    if kind == "bcss2":
        return I.BCSSTwoStageIntegrator(sysm, eps)
    if kind == "bcss3":
        return I.BCSSThreeStageIntegrator(sysm, eps)
    if kind == "bcss4":
        return I.BCSSFourStageIntegrator(sysm, eps)
    if kind == "comp":
        return I.SymmetricCompositionIntegrator(sysm, (0.2, 0.3, -0.1), step_size=eps, initial_h1_flow_step=False)
    if kind == "ileap":
        return I.ImplicitLeapfrogIntegrator(sysm, eps)
    if kind == "imid":
        return I.ImplicitMidpointIntegrator(sysm, eps)
    if kind == "con1":
        return I.ConstrainedLeapfrogIntegrator(sysm, eps, n_inner_step=1)
    if kind == "con3":
        return I.ConstrainedLeapfrogIntegrator(sysm, eps, n_inner_step=3)
    if kind == "conq":
        return I.ConstrainedLeapfrogIntegrator(sysm, eps, n_inner_step=2, projection_solver=solvers.solve_projection_onto_manifold_quasi_newton)
    if kind == "conl":
        return I.ConstrainedLeapfrogIntegrator(sysm, eps, n_inner_step=2, projection_solver=solvers.solve_projection_onto_manifold_newton_with_line_search)


def main():
    fails = []
    for name, sysm, kinds in systems():
        for kind in kinds:
            for eps in (0.05, 0.3, 0.9):
                for n in (1, 4):
                    for d in (1, -1):
                        if name == "constrained":
                            q = np.array([0.6, 0.8])
                            p = sysm.project_onto_cotangent_space(np.array([0.5, -0.2]), ChainState(pos=q, mom=None, dir=1))
                        elif name == "constrained-lebesgue-ellipsoid":
                            q = np.array([2 * np.cos(0.7), np.sin(0.7), 0.3])
                            p = sysm.project_onto_cotangent_space(np.array([0.5, -0.2, 0.3]), ChainState(pos=q, mom=None, dir=1))
                        else:
                            q, p = np.array([0.3, -0.8]), np.array([0.9, 0.4])
                        integ = make(kind, sysm, eps)
                        s0 = ChainState(pos=q.copy(), mom=p.copy(), dir=d)
                        try:
                            s = s0
                            for _ in range(n):
                                prev = (s.pos.copy(), s.mom.copy(), s.dir)
                                s_new = integ.step(s)
                                if not (np.array_equal(prev[0], s.pos) and np.array_equal(prev[1], s.mom) and prev[2] == s.dir) or s_new is s:
                                    fails.append(f"{kind} on {name}: step() modified / returned its input state")
                                s = s_new
                            s.dir *= -1
                            for _ in range(n):
                                s = integ.step(s)
                        except IntegratorError:
                            continue
                        except Exception as e:  # noqa: BLE001
                            fails.append(f"{kind} on {name} eps={eps} n={n}: foreign exception {type(e).__name__}: {e}")
                            continue
                        err = max(np.max(np.abs(s.pos - q)), np.max(np.abs(s.mom - p)))
                        if not err < 1e-6:
                            fails.append(f"{kind} on {name} eps={eps} n={n} dir={d}: forward-backward error {err:.3e}")
    # `or fails loudly`: an integrator error raised by a sub-step must leave _step as that exception (no silent fallback)
    from mici.errors import ConvergenceError
    for name, sysm, kinds in systems():
        for kind in kinds:
            integ0 = make(kind, sysm, 0.3)
            for sub in ("_step_a", "_step_b", "_step_a_fwd", "_step_a_adj", "_step_b_fwd", "_step_b_adj", "_step_c_fwd", "_step_c_adj"):
                if not hasattr(integ0, sub):
                    continue
                integ = make(kind, sysm, 0.3)
                marker = ConvergenceError("injected by the replay")

                def boom(*a, _m=marker, **k):
                    raise _m
                setattr(integ, sub, boom)
                if name.startswith("constrained"):
                    q = np.array([0.6, 0.8]) if name == "constrained" else np.array([2 * np.cos(0.7), np.sin(0.7), 0.3])
                    p = sysm.project_onto_cotangent_space(np.array([0.5, -0.2] + ([0.3] if len(q) == 3 else [])), ChainState(pos=q, mom=None, dir=1))
                else:
                    q, p = np.array([0.3, -0.8]), np.array([0.9, 0.4])
                try:
                    integ._step(ChainState(pos=q.copy(), mom=p.copy(), dir=1), 0.3)
                    fails.append(f"{kind} on {name}: ConvergenceError raised by sub-step {sub} was handled inside _step (silent fallback)")
                except ConvergenceError as e:
                    if e is not marker:
                        fails.append(f"{kind} on {name}: error from sub-step {sub} replaced by another ConvergenceError")
                except Exception as e:  # noqa: BLE001
                    fails.append(f"{kind} on {name}: error from sub-step {sub} left _step as {type(e).__name__}")
    if fails:
        print("REPRODUCED:", fails[0])
        for f in fails[1:5]:
            print("  also:", f)
        sys.exit(1)
    print("not reproduced")


main()
