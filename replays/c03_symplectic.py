"""C03 bounded numeric check / native replay: finite-difference Jacobians of real integrator steps.
Unconstrained: J^T Omega J == Omega.  Constrained: for tangent vectors u, v of the cotangent bundle at the start state,
omega(DPsi u, DPsi v) == omega(u, v).   `json` mode prints one JSON line (used by the check); otherwise exit 1 + REPRODUCED."""
import json
import sys

import numpy as np

from mici import integrators as I, solvers as so, systems as S
from mici.errors import IntegratorError
from mici.states import ChainState

rng = np.random.default_rng(9)


def nld(q):
    return 0.5 * q @ q + 0.25 * np.sum(q**4) + 0.3 * np.sin(q[0] * q[1])


def grad(q):
    g = q + q**3
    g[0] += 0.3 * np.cos(q[0] * q[1]) * q[1]
    g[1] += 0.3 * np.cos(q[0] * q[1]) * q[0]
    return g


def step_map(integ, n_steps=1):
    def f(z):
        n = len(z) // 2
        s = ChainState(pos=z[:n].copy(), mom=z[n:].copy(), dir=1)
        for _ in range(n_steps):
            s = integ.step(s)
        return np.concatenate([s.pos, s.mom])
    return f


def fd_jac(f, z, eps=1e-6):
    n = len(z)
    J = np.zeros((n, n))
    for k in range(n):
        e = np.zeros(n)
        e[k] = eps
        J[:, k] = (f(z + e) - f(z - e)) / (2 * eps)
    return J


def omega(n):
    O = np.zeros((2 * n, 2 * n))
    O[:n, n:] = np.eye(n)
    O[n:, :n] = -np.eye(n)
    return O


def unconstrained():
    out = {}
    n = 2
    md = lambda q: 1.0 + q**2  # noqa: E731
    vmd = lambda q: (lambda v, q=q.copy(): 2 * q * v)  # noqa: E731
    riem = S.DiagonalRiemannianMetricSystem(nld, md, vjp_metric_diagonal_func=vmd, grad_neg_log_dens=grad)
    euc = S.EuclideanMetricSystem(nld, grad_neg_log_dens=grad, metric=np.array([1.0, 2.0]))
    gau = S.GaussianEuclideanMetricSystem(nld, grad_neg_log_dens=grad, metric=np.array([1.0, 2.0]))
    tight = dict(fixed_point_solver_kwargs={"convergence_tol": 1e-13, "max_iters": 500})
    cases = [("LeapfrogIntegrator[euclidean]", I.LeapfrogIntegrator(euc, 0.2)), ("BCSSThreeStageIntegrator[gaussian]", I.BCSSThreeStageIntegrator(gau, 0.3)),
             ("ImplicitLeapfrogIntegrator[riemannian]", I.ImplicitLeapfrogIntegrator(riem, 0.1, **tight)), ("ImplicitMidpointIntegrator[riemannian]", I.ImplicitMidpointIntegrator(riem, 0.1, **tight)),
             ("ImplicitMidpointIntegrator[euclidean]", I.ImplicitMidpointIntegrator(euc, 0.15, **tight)), ("ImplicitLeapfrogIntegrator[euclidean]", I.ImplicitLeapfrogIntegrator(euc, 0.15, **tight))]
    for name, integ in cases:
        worst, wit, trials = 0.0, None, 0
        for _ in range(6):
            z = np.concatenate([rng.normal(size=n) * 0.5, rng.normal(size=n) * 0.7])
            try:
                J = fd_jac(step_map(integ, 2), z)
            except IntegratorError:
                continue
            trials += 1
            err = np.max(np.abs(J.T @ omega(n) @ J - omega(n)))
            if err > worst:
                worst, wit = err, z.tolist()
        out[name] = {"ok": bool(trials > 0 and worst < 2e-5), "max_err": float(worst), "trials": trials, "witness": wit}
    return out


def constrained():
    out = {}
    n = 3
    c = lambda q: np.array([q @ q + 0.2 * q[0] * q[1] - 1.0])  # noqa: E731

    def jc(q):
        j = 2 * q
        j[0] += 0.2 * q[1]
        j[1] += 0.2 * q[0]
        return j[None, :]
    metric = np.array([1.0, 2.0, 0.5])
    Minv = np.diag(1 / metric)
    sysm = S.DenseConstrainedEuclideanMetricSystem(nld3, c, metric=metric, grad_neg_log_dens=grad3, jacob_constr=jc)
    for solver in (so.solve_projection_onto_manifold_newton, so.solve_projection_onto_manifold_quasi_newton, so.solve_projection_onto_manifold_newton_with_line_search):
        for n_inner in (1, 2):
            integ = I.ConstrainedLeapfrogIntegrator(sysm, 0.15, n_inner_step=n_inner, projection_solver=solver,
                                                    projection_solver_kwargs={"constraint_tol": 1e-13, "position_tol": 1e-12, "max_iters": 200})
            worst, wit, trials = 0.0, None, 0
            for _ in range(4):
                q = rng.normal(size=n)
                for _ in range(60):
                    J = jc(q)
                    q = q - J.T @ np.linalg.solve(J @ J.T, c(q))
                p = sysm.project_onto_cotangent_space(rng.normal(size=n), ChainState(pos=q.copy(), mom=None, dir=1))
                z = np.concatenate([q, p])
                # tangent vectors of the cotangent bundle {c(q)=0, J(q) M^-1 p = 0} at z: null space of the constraint differential
                def g(w):
                    qq, pp = w[:n], w[n:]
                    return np.concatenate([c(qq), jc(qq) @ Minv @ pp])
                G = fd_jac_rect(g, z)
                _, sv, Vt = np.linalg.svd(G)
                T = Vt[len(sv):].T  # (2n) x (2n - 2)
                try:
                    f = step_map(integ)
                    DT = np.stack([(f(z + 1e-6 * T[:, k]) - f(z - 1e-6 * T[:, k])) / 2e-6 for k in range(T.shape[1])], axis=1)
                except IntegratorError:
                    continue
                trials += 1
                err = np.max(np.abs(DT.T @ omega(n) @ DT - T.T @ omega(n) @ T))
                if err > worst:
                    worst, wit = err, z.tolist()
            out[f"ConstrainedLeapfrogIntegrator[{solver.__name__.replace('solve_projection_onto_manifold_', '')},n_inner={n_inner}]"] = {
                "ok": bool(trials > 0 and worst < 5e-5), "max_err": float(worst), "trials": trials, "witness": wit}
    return out


def nld3(q):
    return 0.5 * q @ q + 0.25 * np.sum(q**4)


def grad3(q):
    return q + q**3


def fd_jac_rect(f, z, eps=1e-6):
    cols = []
    for k in range(len(z)):
        e = np.zeros(len(z))
        e[k] = eps
        cols.append((f(z + e) - f(z - e)) / (2 * eps))
    return np.stack(cols, axis=1)


def main():
    res = {}
    res.update(unconstrained())
    res.update(constrained())
    if len(sys.argv) > 1 and sys.argv[1] == "json":
        print(json.dumps(res))
        return
    bad = {k: v for k, v in res.items() if not v["ok"]}
    if bad:
        k, v = next(iter(bad.items()))
        print(f"REPRODUCED: {k}: finite-difference Jacobian violates the symplectic condition by {v['max_err']:.2e} (state {v['witness']})")
        for k2, v2 in list(bad.items())[1:4]:
            print(f"  also: {k2}: {v2['max_err']:.2e}")
        sys.exit(1)
    print("not reproduced")


main()
