"""Native replay for C06: one step of the real integrator with step size eps is compared
with the exact flow over time eps (fine reference / closed form); the local error must
shrink like eps^3 (ratio >= 5 when eps is halved) and be small in absolute terms.
Exit 1 + REPRODUCED otherwise."""
import sys

import numpy as np

import mici
from mici import integrators as I, systems as S
from mici.states import ChainState


def neg_log_dens(q):
    return 0.5 * q @ q + 0.25 * np.sum(q**4)


def grad(q):
    return q + q**3


def reference(q, p, t, n=20000):
    """hand-written fine leapfrog (independent of the library) over signed time t"""
    q, p = q.copy(), p.copy()
    h = t / n
    for _ in range(n):
        p = p - 0.5 * h * grad(q)
        q = q + h * p
        p = p - 0.5 * h * grad(q)
    return q, p


def one_step(kind, eps, q, p, direction=1):
    if kind == "implicit_leapfrog":
        sysm = S.EuclideanMetricSystem(neg_log_dens, grad_neg_log_dens=grad)
        integ = I.ImplicitLeapfrogIntegrator(sysm, step_size=eps)
    elif kind == "implicit_midpoint":
        sysm = S.EuclideanMetricSystem(neg_log_dens, grad_neg_log_dens=grad)
        integ = I.ImplicitMidpointIntegrator(sysm, step_size=eps)
    elif kind == "leapfrog":
        sysm = S.EuclideanMetricSystem(neg_log_dens, grad_neg_log_dens=grad)
        integ = I.LeapfrogIntegrator(sysm, step_size=eps)
    elif kind.startswith("bcss"):
        sysm = S.EuclideanMetricSystem(neg_log_dens, grad_neg_log_dens=grad)
        integ = {"bcss2": I.BCSSTwoStageIntegrator, "bcss3": I.BCSSThreeStageIntegrator, "bcss4": I.BCSSFourStageIntegrator}[kind](sysm, step_size=eps)
    elif kind == "composition":
        sysm = S.EuclideanMetricSystem(neg_log_dens, grad_neg_log_dens=grad)
        integ = I.SymmetricCompositionIntegrator(sysm, (0.2, 0.3, -0.1, 0.4), step_size=eps, initial_h1_flow_step=False)
    else:
        raise SystemExit("unknown kind")
    st = integ.step(ChainState(pos=q.copy(), mom=p.copy(), dir=direction))
    return st.pos, st.mom


def constrained_errors():
    """free particle on the unit circle: exact flow is a rotation by angle |p| t."""
    out = []
    for n_inner in (1, 3):
        errs = []
        for eps in (0.2, 0.1):
            sysm = S.DenseConstrainedEuclideanMetricSystem(lambda q: 0.0, lambda q: np.array([q @ q - 1.0]),
                                                           grad_neg_log_dens=lambda q: np.zeros_like(q),
                                                           jacob_constr=lambda q: 2 * q[None, :])
            integ = I.ConstrainedLeapfrogIntegrator(sysm, step_size=eps, n_inner_step=n_inner)
            q, p = np.array([1.0, 0.0]), np.array([0.0, 0.7])
            st = integ.step(ChainState(pos=q, mom=p, dir=1))
            ang = 0.7 * eps
            exact = np.array([np.cos(ang), np.sin(ang)])
            errs.append(np.max(np.abs(st.pos - exact)))
        out.append((n_inner, errs))
    return out


def main():
    kind = sys.argv[1]
    kinds = [kind] if kind not in ("composition",) else ["composition", "bcss2", "bcss3", "bcss4"]
    if kind == "all":
        kinds = ["leapfrog", "composition", "bcss2", "bcss3", "bcss4", "implicit_leapfrog", "implicit_midpoint", "constrained"]
    q, p = np.array([0.3, -0.8]), np.array([0.9, 0.4])
    for k in kinds:
        if k == "constrained":
            for n_inner, errs in constrained_errors():
                if errs[1] > 1e-3 or errs[0] / max(errs[1], 1e-300) < 5:
                    print(f"REPRODUCED: constrained leapfrog n_inner_step={n_inner}: local position errors {errs} for eps=0.2,0.1 do not shrink like eps^3")
                    sys.exit(1)
            continue
        for direction in (1, -1):
            errs = []
            for eps in (0.1, 0.05):
                rq, rp = reference(q, p, direction * eps)
                sq, sp = one_step(k, eps, q, p, direction)
                errs.append(max(np.max(np.abs(sq - rq)), np.max(np.abs(sp - rp))))
            if errs[1] > 2e-4 or errs[0] / max(errs[1], 1e-300) < 5:
                print(f"REPRODUCED: {k} (dir={direction}): one step of size eps vs exact flow over time eps: local errors {errs[0]:.3e} (eps=0.1), "
                      f"{errs[1]:.3e} (eps=0.05); ratio {errs[0] / max(errs[1], 1e-300):.2f} < 5 or error not small")
                sys.exit(1)
    print("not reproduced")


main()
